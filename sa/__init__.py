"""Static analysis machinery for the urllib3 properties (see /verif/DESIGN.md)."""
