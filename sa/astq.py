"""E6/E8 helpers: syntactic queries (call sites, write sets, lock regions, intra-function def-use)."""
from __future__ import annotations

import ast

from .model import AnalysisError, FuncInfo, Model


def walk_fn(fn_node, nested=False):
    """Walk a function body; by default do not descend into nested defs/lambdas' own scope."""
    stack = list(ast.iter_child_nodes(fn_node))
    while stack:
        n = stack.pop()
        yield n
        if not nested and isinstance(n, (ast.FunctionDef, ast.AsyncFunctionDef, ast.ClassDef)):
            continue
        stack.extend(ast.iter_child_nodes(n))


def calls(node, nested=True):
    it = ast.walk(node) if nested else walk_fn(node)
    return [n for n in it if isinstance(n, ast.Call)]


def text(node):
    return ast.unparse(node)


def call_text(call):
    return ast.unparse(call.func)


def is_self_attr(node, attr=None):
    return (isinstance(node, ast.Attribute) and isinstance(node.value, ast.Name) and node.value.id == "self"
            and (attr is None or node.attr == attr))


def is_method_call(call, name, recv=None):
    f = call.func
    if not (isinstance(f, ast.Attribute) and f.attr == name):
        return False
    return recv is None or ast.unparse(f.value) == recv


def kwarg(call, name):
    for k in call.keywords:
        if k.arg == name:
            return k.value
    return None


def arg(call, index, name=None):
    if index is not None and index < len(call.args) and not any(isinstance(a, ast.Starred) for a in call.args[: index + 1]):
        return call.args[index]
    if name:
        return kwarg(call, name)
    return None


def parent(node):
    return getattr(node, "_parent", None)


def ancestors(node):
    n = parent(node)
    while n is not None:
        yield n
        n = parent(n)


def enclosing(node, types):
    for a in ancestors(node):
        if isinstance(a, types):
            return a
    return None


def in_body_of(node, container, field):
    """Is `node` inside container.<field> (list of statements)?"""
    for s in getattr(container, field, []) or []:
        if s is node or any(x is node for x in ast.walk(s)):
            return True
    return False


# ------------------------------------------------------------------ stores / writes
def self_stores(fn_node, base="self"):
    """(attr, node) for every store/aug-store/delete to <base>.<attr> in fn."""
    out = []
    for n in walk_fn(fn_node):
        if isinstance(n, ast.Attribute) and isinstance(n.ctx, (ast.Store, ast.Del)) and isinstance(n.value, ast.Name) and n.value.id == base:
            out.append((n.attr, n))
    return out


def assigned_values(fn_node, name):
    """Value expressions assigned to local `name` anywhere in fn (flow-insensitive). Includes
    for-targets / with-as / except-as as the marker ('iter', expr) etc."""
    out = []
    for n in walk_fn(fn_node):
        if isinstance(n, ast.Assign):
            for t in n.targets:
                if isinstance(t, ast.Name) and t.id == name:
                    out.append(n.value)
                elif isinstance(t, (ast.Tuple, ast.List)):
                    for i, e in enumerate(t.elts):
                        if isinstance(e, ast.Name) and e.id == name:
                            if isinstance(n.value, (ast.Tuple, ast.List)) and len(n.value.elts) == len(t.elts):
                                out.append(n.value.elts[i])
                            else:
                                out.append(ast.Subscript(value=n.value, slice=ast.Constant(i), ctx=ast.Load()))
        elif isinstance(n, ast.AnnAssign) and isinstance(n.target, ast.Name) and n.target.id == name and n.value is not None:
            out.append(n.value)
        elif isinstance(n, ast.AugAssign) and isinstance(n.target, ast.Name) and n.target.id == name:
            out.append(n)
        elif isinstance(n, ast.NamedExpr) and n.target.id == name:
            out.append(n.value)
        elif isinstance(n, (ast.For, ast.comprehension)):
            for e in ast.walk(n.target):
                if isinstance(e, ast.Name) and e.id == name:
                    out.append(ast.Call(func=ast.Name("<iter>", ast.Load()), args=[n.iter], keywords=[]))
        elif isinstance(n, ast.With):
            for item in n.items:
                if item.optional_vars is not None:
                    for e in ast.walk(item.optional_vars):
                        if isinstance(e, ast.Name) and e.id == name:
                            out.append(ast.Call(func=ast.Name("<with>", ast.Load()), args=[item.context_expr], keywords=[]))
    return out


def is_param(fn_node, name):
    a = fn_node.args
    return name in [x.arg for x in a.posonlyargs + a.args + a.kwonlyargs] or (a.kwarg and a.kwarg.arg == name) or (a.vararg and a.vararg.arg == name)


def sources_of(fn_node, expr, depth=8, _seen=None):
    """Flow-insensitive backward slice of `expr` inside one function: the set of leaf expressions
    (calls, attributes, constants, parameters) its value may derive from through local copies,
    `a or b`, conditional expressions.  Returns list of ast nodes (leaves)."""
    _seen = _seen if _seen is not None else set()
    out = []
    if isinstance(expr, ast.Name):
        if expr.id in _seen or depth <= 0:
            return []
        _seen.add(expr.id)
        vals = assigned_values(fn_node, expr.id)
        if is_param(fn_node, expr.id):
            out.append(ast.Name(f"<param:{expr.id}>", ast.Load()))
        if not vals and not is_param(fn_node, expr.id):
            out.append(expr)  # global / free name
        for v in vals:
            out += sources_of(fn_node, v, depth - 1, _seen)
        return out
    if isinstance(expr, ast.BoolOp):
        for v in expr.values:
            out += sources_of(fn_node, v, depth, _seen)
        return out
    if isinstance(expr, ast.IfExp):
        return sources_of(fn_node, expr.body, depth, _seen) + sources_of(fn_node, expr.orelse, depth, _seen)
    if isinstance(expr, ast.NamedExpr):
        return sources_of(fn_node, expr.value, depth, _seen)
    return [expr]


def names_in(expr):
    return {n.id for n in ast.walk(expr) if isinstance(n, ast.Name)}


def attrs_read(node, base="self"):
    """Attribute names read from `base` inside node."""
    out = set()
    for n in ast.walk(node):
        if isinstance(n, ast.Attribute) and isinstance(n.value, ast.Name) and n.value.id == base and isinstance(n.ctx, ast.Load):
            out.add(n.attr)
    return out


# ------------------------------------------------------------------ lock regions
def with_regions(fn_node, pred):
    """[(with_node, item)] for `with` statements whose context expr satisfies pred(expr)."""
    out = []
    for n in walk_fn(fn_node):
        if isinstance(n, ast.With):
            for item in n.items:
                if pred(item.context_expr):
                    out.append((n, item))
    return out


def inside_with(node, pred):
    for a in ancestors(node):
        if isinstance(a, ast.With) and any(pred(i.context_expr) for i in a.items):
            # only the body counts, not the context expression itself
            if in_body_of(node, a, "body"):
                return a
    return None


# ------------------------------------------------------------------ try/except helpers
def enclosing_tries(node):
    """Try statements whose *body* contains node (innermost first)."""
    out = []
    child = node
    for a in ancestors(node):
        if isinstance(a, ast.Try) and any(child is s for s in a.body):
            out.append(a)
        child = a
    return out


def handler_type_names(h: ast.ExceptHandler):
    if h.type is None:
        return ["<bare>"]
    elts = h.type.elts if isinstance(h.type, ast.Tuple) else [h.type]
    return [ast.unparse(e) for e in elts]


def _escapes(stmts, pred):
    """Ways control can leave the statement list *without* having executed a statement satisfying
    pred: subset of {'fall', 'return', 'raise', 'break', 'continue'}."""
    out = set()
    for s in stmts:
        if pred(s):
            return out
        if isinstance(s, ast.Return):
            return out | {"return"}
        if isinstance(s, ast.Raise):
            return out | {"raise"}
        if isinstance(s, ast.Break):
            return out | {"break"}
        if isinstance(s, ast.Continue):
            return out | {"continue"}
        if isinstance(s, ast.If):
            a = _escapes(s.body, pred)
            b = _escapes(s.orelse, pred) if s.orelse else {"fall"}
            both = a | b
            out |= both - {"fall"}
            if "fall" not in both:
                return out
        elif isinstance(s, (ast.With, ast.AsyncWith)):
            a = _escapes(s.body, pred)
            out |= a - {"fall"}
            if "fall" not in a:
                return out
        elif isinstance(s, (ast.For, ast.While, ast.AsyncFor)):
            a = _escapes(s.body, pred)
            out |= a - {"fall", "break", "continue"}
            # a loop may run zero times: falls through
        elif isinstance(s, ast.Try):
            a = _escapes(s.body + s.orelse, pred)
            hs = set()
            for h in s.handlers:
                hs |= _escapes(h.body, pred)
            allw = a | hs
            if s.finalbody:
                f = _escapes(s.finalbody, pred)
                if "fall" not in f:
                    out |= f
                    return out
                out |= f - {"fall"}
            out |= allw - {"fall"}
            if "fall" not in allw:
                return out
    return out | {"fall"}


def all_paths_end_in(stmts, pred):
    """Every path through the statement list executes a statement satisfying pred before leaving it."""
    return not _escapes(stmts, pred)


def func_callers(model: Model, name, modules=None):
    """Call sites of a method/function *named* `name` across the package: [(FuncInfo|None, call)]."""
    out = []
    for fi in model.repo_funcs():
        if modules and fi.module not in modules:
            continue
        for c in calls(fi.node, nested=True):
            f = c.func
            if (isinstance(f, ast.Attribute) and f.attr == name) or (isinstance(f, ast.Name) and f.id == name):
                out.append((fi, c))
    return out


def stmt_of(node):
    n = node
    while n is not None and not isinstance(n, ast.stmt):
        n = parent(n)
    return n


# ------------------------------------------------------------------ rename-invariant text
def inline(fn_node, expr, depth=6, _stack=()):
    """Copy of `expr` in which every local that has exactly one definition in the function is replaced by that
    definition (recursively).  The unparsed result does not depend on the names of such locals."""
    import copy

    class T(ast.NodeTransformer):
        def visit_Name(self, n):
            if isinstance(n.ctx, ast.Load) and depth > 0 and n.id not in _stack and not is_param(fn_node, n.id):
                vals = assigned_values(fn_node, n.id)
                if len(vals) == 1 and isinstance(vals[0], ast.expr):
                    v = vals[0]
                    if isinstance(v, ast.Call) and isinstance(v.func, ast.Name) and v.func.id in ("<iter>", "<with>"):
                        # loop / with variables get a positional placeholder (their order of appearance in the function)
                        order = []
                        for w in sorted([x for x in walk_fn(fn_node) if isinstance(x, (ast.For, ast.With))], key=lambda x: (x.lineno, x.col_offset)):
                            tg = [w.target] if isinstance(w, ast.For) else [i.optional_vars for i in w.items if i.optional_vars is not None]
                            for t_ in tg:
                                for e in ast.walk(t_):
                                    if isinstance(e, ast.Name) and e.id not in order:
                                        order.append(e.id)
                        if n.id in order:
                            return ast.Name(id=f"_it{order.index(n.id)}", ctx=ast.Load())
                        return n
                    if n.id in names_in(v):
                        return n
                    return inline(fn_node, v, depth - 1, _stack + (n.id,))
            return n

        def visit_Lambda(self, n):
            return n

    return T().visit(copy.deepcopy(expr))


def itext(fn_node, expr):
    """Rename-invariant text of an expression (single-definition locals inlined)."""
    try:
        return ast.unparse(inline(fn_node, expr))
    except Exception:
        return ast.unparse(expr)


def assigned_from(fn_node, pred):
    """Names of locals assigned from a value satisfying pred(value_expr)."""
    out = []
    for n in walk_fn(fn_node):
        if isinstance(n, ast.Assign) and pred(n.value):
            for t in n.targets:
                if isinstance(t, ast.Name):
                    out.append(t.id)
                elif isinstance(t, (ast.Tuple, ast.List)):
                    out += [e.id for e in t.elts if isinstance(e, ast.Name)]
        elif isinstance(n, ast.AnnAssign) and n.value is not None and pred(n.value) and isinstance(n.target, ast.Name):
            out.append(n.target.id)
    return out


def norm_if(node):
    """(test, then_body, else_body) of an If with leading `not`s removed (branches swapped accordingly)."""
    t, a, b = node.test, node.body, node.orelse
    while isinstance(t, ast.UnaryOp) and isinstance(t.op, ast.Not):
        t, a, b = t.operand, b, a
    return t, a, b
