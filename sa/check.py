"""Driver:  /venv/bin/python -m sa.check C01 --tier quick|thorough
           /venv/bin/python -m sa.check --replay <path>
"""
from __future__ import annotations

import argparse
import importlib
import json
import os
import sys

from .report import run_check


def main(argv=None):
    ap = argparse.ArgumentParser()
    ap.add_argument("prop", nargs="?")
    ap.add_argument("--tier", default=os.environ.get("VERIF_TIER", "quick"))
    ap.add_argument("--replay")
    a = ap.parse_args(argv)
    if a.replay:
        with open(a.replay) as fh:
            r = json.load(fh)
        print(json.dumps(r, indent=1))
        print(f"--- re-running {r['property']} to see whether {r['key']} still fails")
        a.prop = r["property"]
    if not a.prop:
        ap.error("property id required")
    prop = a.prop.upper()
    tier = a.tier if a.tier in ("quick", "thorough") else "quick"
    try:
        mod = importlib.import_module(f"sa.props.{prop.lower()}")
    except ImportError as e:
        print(f"ANALYSIS-ERROR property={prop} no check module: {e}")
        return 2

    def fn(ctx):
        mod.run(ctx)
        if tier == "thorough":
            from . import thorough

            thorough.extend(ctx, mod)

    return run_check(prop, tier, fn)


if __name__ == "__main__":
    sys.exit(main())
