"""Generic event-order rule on top of the interpreter, and helpers to run one function symbolically."""
from __future__ import annotations

import ast

from .interp import AV, BASE_TOP, EXT_TOP, UNK, BaseRule, Budget, Interp, Out, State, const, exc


class EventRule(BaseRule):
    """Records matched calls as events in st.ts['ev'] (a tuple of names).

    events: list of (name, predicate(text, node, recv, pos, kw, st) -> bool, opts) where opts may hold
      raises: list of AV exceptions the call may raise (default: EXT_TOP, BASE_TOP), [] for none
      ret:    AV or callable(st, node, recv, pos, kw) -> AV for the normal result
      on:     'attempt' (default; recorded before outcomes) | 'success' (only on the normal outcome)
    quiet: call texts (exact) or predicates treated as non-raising opaque calls.
    consts: name -> AV for module globals.
    """

    def __init__(self, events=(), quiet=(), consts=None, fields=None, opaque_raises=(EXT_TOP, BASE_TOP)):
        self.events = list(events)
        self.quiet = list(quiet)
        self.consts = consts or {}
        self.fields = fields or {}
        self.opaque_raises = opaque_raises
        self.seen = {}

    def global_value(self, it, name):
        return self.consts.get(name)

    def getattr(self, it, st, node, base):
        t = ast.unparse(node)
        if t in self.fields:
            v = self.fields[t]
            return v(st) if callable(v) else v
        return None

    def _is_quiet(self, text, node):
        for q in self.quiet:
            if (callable(q) and q(text, node)) or q == text:
                return True
        return False

    def call(self, it, st, node, recv, pos, kw):
        text = ast.unparse(node.func)
        for name, pred, opts in self.events:
            if pred(text, node, recv, pos, kw, st):
                self.seen[name] = self.seen.get(name, 0) + 1
                raises = opts.get("raises", list(self.opaque_raises))
                ret = opts.get("ret", UNK)
                outs = []
                s = st.copy()
                s.ts["ev"] = s.ts.get("ev", ()) + (name,)
                s.log(node, f"EVENT {name}")
                if callable(ret):
                    r = ret(s, node, recv, pos, kw)
                else:
                    r = ret
                eff = opts.get("effect")
                if eff:
                    eff(s, node, recv, pos, kw)
                outs.append(Out("normal", s, r))
                for e in raises:
                    s2 = st.copy()
                    if opts.get("on", "attempt") == "attempt":
                        s2.ts["ev"] = s2.ts.get("ev", ()) + (name + "!",)
                    s2.log(node, f"EVENT {name} raises {e.val}")
                    it.mark_fault(s2, f"call {text}")
                    outs.append(Out("raise", s2, e))
                return outs
        if self._is_quiet(text, node):
            return [Out("normal", st, UNK)]
        return None


def run_function(model, fi, rule, self_cls=None, inline=frozenset(), seeds=None, params=None, relevant=None,
                 budget=400000, record_decisions=False, track_faults=False, max_depth=6):
    """Interpret fi's body with symbolic parameters. Returns (outs, interp)."""
    if inline is None:
        # default: private helpers of the same class / module reached from fi are interpreted in place, so that extracting a
        # helper out of fi (or inlining one) does not hide the calls a rule is looking for.  A rule's own `call` hook still comes
        # first: what it models by name is not inlined.
        from .rows import helper_closure
        inline = frozenset(helper_closure(model, [fi]) - {fi.qual})
    it = Interp(model, rule, self_cls if fi.cls else None, fi.module, inline, budget=Budget(budget), max_depth=max_depth)
    it.func_qual = fi.qual
    it.relevant = relevant
    it.record_decisions = record_decisions
    it.track_faults = track_faults
    if fi.cls and self_cls is None:
        it.self_cls = fi.clsq
        it.frame_has_self = True
    st = State()
    a = fi.node.args
    names = [x.arg for x in a.posonlyargs + a.args + a.kwonlyargs]
    if fi.cls and names and names[0] in ("self", "cls"):
        names = names[1:]
    for n in names:
        st.env[it.var(n)] = AV("unk", sym=f"p:{n}")
    if a.kwarg:
        from .interp import dict_av
        st.env[it.var(a.kwarg.arg)] = dict_av({}, True, sym=f"p:{a.kwarg.arg}")
    for k, v in (params or {}).items():
        st.env[it.var(k)] = v
    for k, v in (seeds or {}).items():
        st.heap[k] = v
    outs = it.exec_block(fi.node.body, [st])
    return outs, it


def evs(o):
    return o.st.ts.get("ev", ())


def outcome_name(o):
    if o.kind == "raise":
        return "raise:" + str(o.val.val).rsplit(".", 1)[-1]
    if o.kind == "return" and o.val is not None and o.val.kind == "const":
        return f"return:{o.val.val!r}"
    return o.kind


def before(seq, a, b):
    """every occurrence of b in seq is preceded by some a"""
    seen_a = False
    for e in seq:
        if e == a:
            seen_a = True
        if e == b and not seen_a:
            return False
    return True
