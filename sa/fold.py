"""E2 - constant folder over module- and class-level assignments.

Evaluates only literal algebra (no repository code is executed).  Anything else
raises Unfoldable; rules needing the value turn that into an ANALYSIS-ERROR.
"""
from __future__ import annotations

import ast
import re

from .model import AnalysisError, Model


_STRING_CONSTS = ("ascii_letters", "ascii_lowercase", "ascii_uppercase", "digits", "hexdigits", "octdigits", "punctuation")


class Unfoldable(Exception):
    pass


class Regex:
    """A folded `re.compile(pattern, flags)` value."""

    def __init__(self, pattern, flags=0, node=None):
        self.pattern, self.flags, self.node = pattern, int(flags), node

    def __repr__(self):
        return f"Regex({self.pattern!r}, {self.flags})"


class EnumRef:
    def __init__(self, q):
        self.q = q

    def __repr__(self):
        return f"EnumRef({self.q})"

    def __eq__(self, o):
        return isinstance(o, EnumRef) and o.q == self.q

    def __hash__(self):
        return hash(self.q)


_STR_METHODS = {"format", "join", "lower", "upper", "replace", "strip", "encode", "split", "decode", "lstrip", "rstrip"}
_RE_FLAGS = {"I", "IGNORECASE", "M", "MULTILINE", "S", "DOTALL", "U", "UNICODE", "X", "VERBOSE", "A", "ASCII"}


class Folder:
    def __init__(self, model: Model):
        self.m = model
        self._cache: dict = {}
        self._busy: set = set()

    # -- public
    def module_const(self, module, name):
        key = (module, name)
        if key in self._cache:
            v = self._cache[key]
            if isinstance(v, Unfoldable):
                raise v
            return v
        if key in self._busy:
            raise Unfoldable(f"cyclic {module}.{name}")
        self._busy.add(key)
        try:
            v = self._module_const(module, name)
            self._cache[key] = v
            return v
        except Unfoldable as e:
            self._cache[key] = e
            raise
        finally:
            self._busy.discard(key)

    def _module_const(self, module, name):
        stmts = self.m.assigns.get(module, {}).get(name)
        if not stmts:
            imp = self.m.imports.get(module, {}).get(name)
            if imp:
                mod, _, leaf = imp.rpartition(".")
                if mod in self.m.modules:
                    return self.module_const(mod, leaf)
            raise Unfoldable(f"{module}.{name} not a module-level assignment")
        live = [s for s in stmts if not getattr(s, "_pruned", False)]
        val = None
        have = False
        for s in live:
            if isinstance(s, ast.AugAssign):
                if not have:
                    raise Unfoldable(f"augmented assignment of {name} before definition")
                # `X += [..]` under a guard: fold as "may include"; callers ask for base + optional
                try:
                    inc = self.ev(s.value, module)
                    val = val + inc
                except Exception as e:
                    raise Unfoldable(str(e))
                continue
            if getattr(s, "value", None) is None:
                continue
            tgt = s.targets[0] if isinstance(s, ast.Assign) else s.target
            v = self.ev(s.value, module)
            if isinstance(tgt, ast.Tuple):
                idx = [i for i, e in enumerate(tgt.elts) if isinstance(e, ast.Name) and e.id == name]
                v = v[idx[0]]
            val, have = v, True
        if not have:
            raise Unfoldable(f"{module}.{name} has no value")
        return val

    def class_const(self, clsq, name):
        c, stmt = self.m.find_class_attr(clsq, name)
        if stmt is None or getattr(stmt, "value", None) is None:
            raise Unfoldable(f"{clsq}.{name} not a class-level constant")
        return self.ev(stmt.value, c.module, cls=c.qual)

    def try_module_const(self, module, name, default=None):
        try:
            return self.module_const(module, name)
        except Unfoldable:
            return default

    def need(self, module, name):
        try:
            return self.module_const(module, name)
        except Unfoldable as e:
            raise AnalysisError(f"cannot fold constant {module}.{name}: {e}")

    def need_class(self, clsq, name):
        try:
            return self.class_const(clsq, name)
        except Unfoldable as e:
            raise AnalysisError(f"cannot fold constant {clsq}.{name}: {e}")

    # -- evaluation
    def ev(self, e, module, env=None, cls=None):
        env = env or {}
        ev = lambda x: self.ev(x, module, env, cls)  # noqa: E731
        if isinstance(e, ast.Constant):
            return e.value
        if isinstance(e, ast.Name):
            if e.id in env:
                return env[e.id]
            if e.id in ("True", "False", "None"):
                return {"True": True, "False": False, "None": None}[e.id]
            if cls:
                c, stmt = self.m.find_class_attr(cls, e.id)
                if stmt is not None and getattr(stmt, "value", None) is not None:
                    return self.ev(stmt.value, c.module, cls=c.qual)
            return self.module_const(module, e.id)
        if isinstance(e, ast.BinOp):
            l, r = ev(e.left), ev(e.right)
            try:
                if isinstance(e.op, ast.Add):
                    return l + r
                if isinstance(e.op, ast.Mod):
                    return l % r
                if isinstance(e.op, ast.BitOr):
                    return l | r
                if isinstance(e.op, ast.Mult):
                    return l * r
                if isinstance(e.op, ast.Sub):
                    return l - r
                if isinstance(e.op, ast.BitAnd):
                    return l & r
            except Exception as ex:
                raise Unfoldable(str(ex))
        if isinstance(e, ast.JoinedStr):
            out = ""
            for v in e.values:
                if isinstance(v, ast.FormattedValue):
                    out += format(ev(v.value), "")
                else:
                    out += v.value
            return out
        if isinstance(e, (ast.Tuple, ast.List)):
            vals = []
            for x in e.elts:
                if isinstance(x, ast.Starred):
                    vals.extend(ev(x.value))
                else:
                    vals.append(ev(x))
            return tuple(vals) if isinstance(e, ast.Tuple) else vals
        if isinstance(e, ast.Set):
            return {ev(x) for x in e.elts}
        if isinstance(e, ast.Dict):
            out = {}
            for k, v in zip(e.keys, e.values):
                if k is None:
                    out.update(ev(v))
                else:
                    out[ev(k)] = ev(v)
            return out
        if isinstance(e, ast.Subscript):
            v = ev(e.value)
            s = e.slice
            try:
                if isinstance(s, ast.Slice):
                    return v[(ev(s.lower) if s.lower else None):(ev(s.upper) if s.upper else None)]
                return v[ev(s)]
            except Unfoldable:
                raise
            except Exception as ex:
                raise Unfoldable(str(ex))
        if isinstance(e, ast.UnaryOp):
            if isinstance(e.op, ast.USub):
                return -ev(e.operand)
            if isinstance(e.op, ast.Not):
                return not ev(e.operand)
        if isinstance(e, (ast.ListComp, ast.SetComp, ast.GeneratorExp, ast.DictComp)) and len(e.generators) == 1:
            g = e.generators[0]
            out = []
            for item in ev(g.iter):
                env2 = dict(env)
                self._bind(g.target, item, env2)
                if all(self.ev(c, module, env2, cls) for c in g.ifs):
                    if isinstance(e, ast.DictComp):
                        out.append((self.ev(e.key, module, env2, cls), self.ev(e.value, module, env2, cls)))
                    else:
                        out.append(self.ev(e.elt, module, env2, cls))
            if isinstance(e, ast.SetComp):
                return set(out)
            if isinstance(e, ast.DictComp):
                return dict(out)
            return out
        if isinstance(e, ast.Attribute):
            text = ast.unparse(e)
            if isinstance(e.value, ast.Name) and e.value.id == "re" and e.attr in _RE_FLAGS:
                return getattr(re, e.attr)
            # Class.CONST or module.CONST inside the package
            q = self.m.resolve_name(module, e.value)
            if q in self.m.classes:
                ci = self.m.classes[q]
                if any(ast.unparse(b).split(".")[-1] in ("Enum", "IntEnum", "Flag", "IntFlag", "StrEnum") for b in ci.node.bases):
                    return EnumRef(f"{q}.{e.attr}")  # an enum member is an object of its own, not its value
                return self.class_const(q, e.attr)
            if q in self.m.modules:
                return self.module_const(q, e.attr)
            q2 = self.m.resolve_name(module, e)
            if q2 and q2.startswith("string.") and q2.split(".", 1)[1] in _STRING_CONSTS:
                import string as _string  # stdlib character tables (A1: the platform behaves as documented)

                return getattr(_string, q2.split(".", 1)[1])
            if q2 and not q2.startswith("urllib3."):
                return EnumRef(q2)
            raise Unfoldable(text)
        if isinstance(e, ast.Compare) and len(e.ops) == 1:
            l, r = ev(e.left), ev(e.comparators[0])
            op = e.ops[0]
            try:
                if isinstance(op, ast.In):
                    return l in r
                if isinstance(op, ast.NotIn):
                    return l not in r
                if isinstance(op, ast.Eq):
                    return l == r
                if isinstance(op, ast.NotEq):
                    return l != r
            except Exception as ex:
                raise Unfoldable(str(ex))
        if isinstance(e, ast.IfExp):
            return ev(e.body) if ev(e.test) else ev(e.orelse)
        if isinstance(e, ast.Call):
            f = e.func
            if isinstance(f, ast.Attribute):
                if ast.unparse(f) == "str.maketrans":
                    try:
                        return str.maketrans(*[ev(a) for a in e.args])
                    except Unfoldable:
                        raise
                    except Exception as ex:
                        raise Unfoldable(str(ex))
                if ast.unparse(f) == "re.compile":
                    args = [ev(a) for a in e.args]
                    kw = {k.arg: ev(k.value) for k in e.keywords}
                    flags = args[1] if len(args) > 1 else kw.get("flags", 0)
                    return Regex(args[0], flags, e)
                recv = ev(f.value)
                args = [ev(a) for a in e.args]
                kw = {k.arg: ev(k.value) for k in e.keywords}
                if isinstance(recv, (str, bytes)) and f.attr in _STR_METHODS:
                    try:
                        return getattr(recv, f.attr)(*args, **kw)
                    except Exception as ex:
                        raise Unfoldable(str(ex))
                if isinstance(recv, (set, frozenset)) and f.attr in ("union", "difference", "intersection"):
                    return getattr(recv, f.attr)(*args)
                if isinstance(recv, dict) and f.attr in ("keys", "values", "items"):
                    return list(getattr(recv, f.attr)())
                if isinstance(recv, str) and f.attr == "maketrans":
                    return str.maketrans(*args)
            if isinstance(f, ast.Name) and f.id in ("set", "frozenset", "tuple", "list", "dict", "sorted", "len", "str", "int", "ord", "chr"):
                fn = {"set": set, "frozenset": frozenset, "tuple": tuple, "list": list, "dict": dict, "sorted": sorted,
                      "len": len, "str": str, "int": int, "ord": ord, "chr": chr}[f.id]
                try:
                    return fn(*[ev(a) for a in e.args], **{k.arg: ev(k.value) for k in e.keywords})
                except Unfoldable:
                    raise
                except Exception as ex:
                    raise Unfoldable(str(ex))
        raise Unfoldable(ast.dump(e)[:100])

    def _bind(self, target, val, env):
        if isinstance(target, ast.Name):
            env[target.id] = val
        elif isinstance(target, (ast.Tuple, ast.List)):
            for t, v in zip(target.elts, val):
                self._bind(t, v, env)
        else:
            raise Unfoldable("comprehension target")

    def all_regexes(self, modules=None):
        """(module, name, Regex) for every module-level compiled pattern that folds."""
        out = []
        for mod in modules or self.m.repo_modules():
            for name in self.m.assigns.get(mod, {}):
                v = self.try_module_const(mod, name)
                if isinstance(v, Regex):
                    out.append((mod, name, v))
        return out


if __name__ == "__main__":
    m = Model()
    f = Folder(m)
    for mod, name, r in f.all_regexes():
        print(mod, name, len(r.pattern), r.flags)
    print(f.need_class("urllib3.util.retry.Retry", "DEFAULT_ALLOWED_METHODS"))
    print(f.need_class("urllib3.util.retry.Retry", "RETRY_AFTER_STATUS_CODES"))
    print(f.need("urllib3.poolmanager", "SSL_KEYWORDS"))
    print(f.need("urllib3.util.url", "_PATH_CHARS") and "pathchars ok")
    print(f.need("urllib3.connection", "port_by_scheme"))
    print(f.need("urllib3.util.ssl_", "HASHFUNC_MAP") if False else "")
