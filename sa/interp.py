"""E3/E4/E5 - structured abstract interpreter with outcome sets.

Big-step over sets of abstract states; every statement yields outcomes
normal / return / raise / break / continue.  try/except/finally is exact by
construction.  Rules plug in through the BaseRule hooks (typestate events,
opaque-call models, global constants).  Nothing from the repository is executed.
"""
from __future__ import annotations

import ast
from dataclasses import dataclass, replace
from typing import Any, Optional

from .model import AnalysisError, Model


# ----------------------------------------------------------------- values
@dataclass(frozen=True)
class AV:
    kind: str = "unk"  # const | unk | exc | obj | dict | self | tuple
    val: Any = None
    truth: Optional[bool] = None
    none: Optional[bool] = None
    tags: frozenset = frozenset()
    typ: Optional[str] = None
    sym: Optional[str] = None

    def with_truth(self, t: bool) -> "AV":
        if self.kind == "const":
            return self
        return replace(self, truth=t, none=(False if t else self.none))

    def with_none(self, n: bool) -> "AV":
        if self.kind == "const":
            return self
        return replace(self, none=n, truth=(False if n else self.truth))

    def tag(self, *t) -> "AV":
        return replace(self, tags=self.tags | frozenset(t))


def const(v) -> AV:
    try:
        t = bool(v)
    except Exception:
        t = None
    return AV("const", v, truth=t, none=(v is None))


def obj(label, typ=None, **kw) -> AV:
    return AV("obj", label, truth=True, none=False, typ=typ, **kw)


def unk(sym=None, **kw) -> AV:
    return AV("unk", sym=sym, **kw)


def exc(q) -> AV:
    return AV("exc", q, truth=True, none=False)


def ext_top_except(*classes) -> AV:
    """Some external exception that is none of `classes` (their outcomes are modelled separately)."""
    return AV("exc", "<external-exception>", tags=frozenset("not:" + c for c in classes))


UNK = AV()
EXT_TOP = AV("exc", "<external-exception>")  # some Exception subclass not defined in urllib3
BASE_TOP = AV("exc", "<interrupt>")  # KeyboardInterrupt / GeneratorExit-like
STR_TOTAL_METHODS = {"find", "rfind", "startswith", "endswith", "lower", "upper", "casefold", "title", "strip", "lstrip", "rstrip", "replace", "count",
                     "partition", "rpartition", "isdigit", "isalpha", "isalnum", "isspace", "isascii", "isidentifier", "splitlines"}
GEN_EXIT = AV("exc", "builtins.GeneratorExit", truth=True, none=False)  # thrown in at a yield when the consumer abandons the generator
RESEND = AV("exc", "<resend>")  # terminal pseudo-exit for self-recursive resend calls


def dict_av(slots=None, open_=True, sym=None, tags=frozenset()):
    return AV("dict", (tuple(sorted((slots or {}).items(), key=lambda kv: str(kv[0]))), open_), truth=None, none=False, sym=sym, tags=tags)


def dslots(av):
    return dict(av.val[0])


class State:
    __slots__ = ("env", "heap", "ts", "handling", "trace", "facts")

    def __init__(self, env=None, heap=None, ts=None, handling=(), trace=None, facts=None):
        self.env = env or {}
        self.heap = heap or {}
        self.ts = ts or {}
        self.handling = handling
        self.trace = trace
        self.facts = facts or {}

    def copy(self) -> "State":
        return State(dict(self.env), dict(self.heap), dict(self.ts), self.handling, self.trace, dict(self.facts))

    def key(self):
        return (
            tuple(sorted(self.env.items(), key=lambda kv: kv[0])),
            tuple(sorted(self.heap.items(), key=lambda kv: str(kv[0]))),
            tuple(sorted(self.ts.items(), key=lambda kv: str(kv[0]))),
            self.handling,
            tuple(sorted(self.facts.items())),
        )

    def view(self, av):
        if av is not None and av.sym and av.sym in self.facts and av.kind != "const":
            t, n = self.facts[av.sym]
            return replace(av, truth=t if t is not None else av.truth, none=n if n is not None else av.none)
        return av

    def log(self, node, text):
        self.trace = (self.trace, (getattr(node, "lineno", 0), text))

    def path(self):
        out, t = [], self.trace
        while t:
            t, e = t
            out.append(e)
        return out[::-1]

    def witness(self, model=None, module=None):
        return [f"L{ln}: {t}" for ln, t in self.path()]

    def events(self, prefixes):
        return [t for _, t in self.path() if t.startswith(tuple(prefixes))]


@dataclass
class Out:
    kind: str  # normal | return | raise | break | continue
    st: State
    val: Any = None


def dedup(outs):
    seen, res = set(), []
    for o in outs:
        k = (o.kind, o.st.key(), o.val)
        try:
            new = k not in seen
        except TypeError:
            new = True
        if new:
            try:
                seen.add(k)
            except TypeError:
                pass
            res.append(o)
    return res


NO_RAISE_BUILTINS = {
    "isinstance", "bool", "len", "hasattr", "getattr", "id", "type", "repr", "str", "frozenset", "set", "list",
    "dict", "tuple", "callable", "issubclass", "min", "max", "sorted", "reversed", "enumerate", "zip", "iter", "range",
    "bytes", "bytearray", "super", "vars", "print", "any", "all", "cast", "typing.cast", "float", "abs",
}
NO_RAISE_ATTR_CALLS = {
    ("log", "debug"), ("log", "info"), ("log", "warning"), ("log", "error"), ("sys", "exc_info"), ("warnings", "warn"),
    ("typing", "cast"), ("time", "monotonic"), ("time", "time"),
}


class Budget:
    def __init__(self, limit=600000):
        self.steps = 0
        self.limit = limit

    def tick(self):
        self.steps += 1
        if self.steps > self.limit:
            raise AnalysisError(f"interpreter step budget exhausted ({self.limit})")


class Interp:
    yield_body = None
    _for_gen_node = None
    relevant = None  # None = track everything
    frame_has_self = True
    record_decisions = False
    track_faults = False  # keep the first fault site in the state identity (stable path signatures)

    def __init__(self, model: Model, rule, self_cls: Optional[str], module: str, inline=frozenset(), frame="f0", depth=0,
                 budget: Budget | None = None, max_depth=6):
        self.m = model
        self.rule = rule
        self.self_cls = self_cls
        self.module = module
        self.inline = inline
        self.frame = frame
        self.depth = depth
        self.budget = budget or Budget()
        self.max_depth = max_depth
        self.frame_has_self = self_cls is not None
        self.func_qual = None

    def child(self, fi, frame, is_method=True):
        sub = Interp(self.m, self.rule, self.self_cls, fi.module, self.inline, frame=frame, depth=self.depth + 1,
                     budget=self.budget, max_depth=self.max_depth)
        sub.relevant = self.relevant
        sub.record_decisions = self.record_decisions
        sub.track_faults = self.track_faults
        sub.frame_has_self = is_method
        sub.func_qual = fi.qual
        return sub

    # ------------------------------------------------------------- helpers
    def mark_fault(self, s, label):
        if self.track_faults and "fault0" not in s.ts:
            s.ts["fault0"] = label
        return s

    def var(self, name):
        return f"{self.frame}:{name}"

    def exc_class(self, node) -> Optional[str]:
        q = self.m.resolve_name(self.module, node)
        return self.m.norm(q) if q else None

    def class_list(self, node, depth=0):
        """Classes named by an `except` / isinstance type expression: a class, a tuple display, or a module-level
        name bound to a tuple of classes (so that moving the tuple into a constant changes nothing)."""
        if isinstance(node, ast.Tuple):
            out = []
            for e in node.elts:
                out += self.class_list(e, depth)
            return out
        q = self.exc_class(node)
        if q is not None and (q in self.m.classes or self.m.pyclass(q) is not None):
            return [q]
        if isinstance(node, ast.Name) and depth < 3:
            stmts = self.m.assigns.get(self.module, {}).get(node.id)
            if stmts and isinstance(getattr(stmts[-1], "value", None), ast.Tuple):
                return self.class_list(stmts[-1].value, depth + 1)
        return [q if q is not None else None]

    def handler_classes(self, h: ast.ExceptHandler):
        if h.type is None:
            return ["builtins.BaseException"]
        out = []
        for q in self.class_list(h.type):
            # an unresolvable name (e.g. a class attribute holding a tuple such as DECODER_ERROR_CLASSES): external classes
            out.append("?" if q is None else q)
        return out

    def is_urllib3(self, q):
        return q.startswith("urllib3.")

    def match(self, ex: AV, classes):
        """-> list of ('caught', refined_exc) and maybe ('pass', exc)"""
        res = []
        if ex.val == RESEND.val:
            return [("pass", ex)]
        if ex.val == BASE_TOP.val:
            if any(c == "builtins.BaseException" for c in classes):
                return [("caught", ex)]
            return [("pass", ex)]
        if ex.val == EXT_TOP.val:
            # tags "not:<class>" exclude classes whose outcome the rule models separately
            excl = [t[4:] for t in ex.tags if t.startswith("not:")]
            for c in classes:
                if c in ("builtins.BaseException", "builtins.Exception"):
                    return [("caught", ex)]
                if c != "?" and not self.is_urllib3(c):
                    if any(self.m.issub(c, x) for x in excl):
                        continue
                    res.append(("caught", AV("exc", c, truth=True, none=False)))
            res.append(("pass", ex))
            return res
        c0 = ex.val
        for c in classes:
            if self.m.issub(c0, c):
                return [("caught", ex)]
        for c in classes:
            if c != "?" and self.m.issub(c, c0):  # handler narrower than what may be raised
                res.append(("caught", replace(ex, val=c)))
        res.append(("pass", ex))
        return res

    # ------------------------------------------------------------- truth
    def _record(self, s, node, b, forked):
        if self.record_decisions and forked:
            name = self.rule.atom_name(self, s, node)
            # latest decision per atom (bounded in loops)
            s.ts["dec"] = tuple(x for x in s.ts.get("dec", ()) if x[0] != name) + ((name, b),)

    def truth_fork(self, st: State, node: ast.expr):
        """Evaluate a condition. Returns (list[(state, bool)], raises)."""
        if isinstance(node, ast.NamedExpr):
            # (x := e) as a condition: bind, then test the bound name (so that the decision is remembered about x)
            vals, raises = self.eval(st, node)
            out = []
            for s, _ in vals:
                res, r = self.truth_fork(s, ast.copy_location(ast.Name(id=node.target.id, ctx=ast.Load()), node))
                out += res
                raises += r
            return out, raises
        if isinstance(node, ast.UnaryOp) and isinstance(node.op, ast.Not):
            res, r = self.truth_fork(st, node.operand)
            return [(s, not b) for s, b in res], r
        if isinstance(node, ast.BoolOp):
            is_and = isinstance(node.op, ast.And)
            cur, raises = [(st, None)], []
            final = []
            for v in node.values:
                nxt = []
                for s, _ in cur:
                    res, r = self.truth_fork(s, v)
                    raises += r
                    for s2, b in res:
                        if (is_and and not b) or (not is_and and b):
                            final.append((s2, b))
                        else:
                            nxt.append((s2, b))
                cur = nxt
            final += cur
            return final, raises
        if (isinstance(node, ast.Compare) and len(node.ops) == 1 and isinstance(node.ops[0], (ast.Eq, ast.NotEq)) and self.rule.wants_compose
                and isinstance(node.left, ast.Tuple) and isinstance(node.comparators[0], ast.Tuple)
                and len(node.left.elts) == len(node.comparators[0].elts) > 0
                and not any(isinstance(e, ast.Starred) for e in node.left.elts + node.comparators[0].elts)):
            # (a, b, c) == (x, y, z)  ==  a == x and b == y and c == z   (each component decided and remembered on its own)
            links = [ast.copy_location(ast.Compare(left=a, ops=[ast.Eq()], comparators=[b]), node) for a, b in zip(node.left.elts, node.comparators[0].elts)]
            conj = ast.copy_location(ast.BoolOp(op=ast.And(), values=links), node)
            if isinstance(node.ops[0], ast.NotEq):
                conj = ast.copy_location(ast.UnaryOp(op=ast.Not(), operand=conj), node)
            return self.truth_fork(st, conj)
        if isinstance(node, ast.Compare) and len(node.ops) == 1:
            op, right = node.ops[0], node.comparators[0]
            if isinstance(op, (ast.Is, ast.IsNot)) and isinstance(right, ast.Constant) and right.value is None:
                vals, raises = self.eval(st, node.left)
                out = []
                for s, av in vals:
                    if av.none is not None:
                        out.append((s, av.none if isinstance(op, ast.Is) else not av.none))
                        continue
                    for isnone in (True, False):
                        s2 = self.refine(s.copy(), node.left, av, lambda a, n=isnone: a.with_none(n))
                        b = isnone if isinstance(op, ast.Is) else not isnone
                        self._record(s2, node, b, True)
                        out.append((s2, b))
                return out, raises
            if isinstance(op, (ast.Eq, ast.NotEq, ast.In, ast.NotIn, ast.Lt, ast.LtE, ast.Gt, ast.GtE)):
                lv, r1 = self.eval(st, node.left)
                out, raises = [], list(r1)
                for s, a in lv:
                    rv, r2 = self.eval(s, right)
                    raises += r2
                    for s2, b in rv:
                        if b.kind == "tuple" and all(x.kind == "const" for x in b.val):
                            b = const(tuple(x.val for x in b.val))  # a display of constants is a constant
                        if (self.rule.wants_compose and isinstance(op, (ast.Eq, ast.NotEq)) and a.kind == "tuple" and b.kind == "tuple"
                                and len(a.val) == len(b.val) > 0):
                            # two tuples held in variables: equal iff their components are, decided one by one (like the display form)
                            cur2 = [(s2, True)]
                            for x_, y_ in zip(a.val, b.val):
                                nxt2 = []
                                for s4, alive in cur2:
                                    if not alive:
                                        nxt2.append((s4, False))
                                        continue
                                    k_ = self._cmp_known(s4, node, ast.Eq(), x_, y_)
                                    if isinstance(k_, list):
                                        nxt2 += [(s5, bool(v5)) for s5, v5 in k_]
                                    elif k_ is not None:
                                        nxt2.append((s4, bool(k_)))
                                    else:
                                        for t_ in (True, False):
                                            s5 = s4.copy()
                                            self._cmp_memo(s5, ast.Eq(), x_, y_, t_)
                                            nxt2.append((s5, t_))
                                cur2 = nxt2
                            for s4, eq_ in cur2:
                                v_ = eq_ if isinstance(op, ast.Eq) else not eq_
                                self._record(s4, node, v_, True)
                                out.append((s4, v_))
                            continue
                        known = self._cmp_known(s2, node, op, a, b)
                        if isinstance(known, list):  # the rule forked the comparison itself: [(state, truth-of-node)]
                            out += known
                            continue
                        if known is not None:
                            out.append((s2, known))
                            continue
                        for t in (True, False):
                            s3 = s2.copy()
                            self._cmp_memo(s3, op, a, b, t)
                            self._record(s3, node, t, True)
                            out.append((s3, t))
                return out, raises
        if isinstance(node, ast.Call) and isinstance(node.func, ast.Name) and node.func.id == "isinstance" and len(node.args) == 2:
            vals, raises = self.eval(st, node.args[0])
            t = node.args[1]
            classes = self.class_list(t)
            out = []
            for s, av in vals:
                if av.kind == "const" and all(c and c.startswith("builtins.") for c in classes):
                    import builtins as _b

                    out.append((s, isinstance(av.val, tuple(getattr(_b, c.split(".")[1]) for c in classes))))
                    continue
                r = self.rule.isinstance(self, s, node, av, classes)
                if r is not None:
                    out.append((s, r))
                    continue
                q = av.val if av.kind == "exc" else av.typ
                if q and q not in (EXT_TOP.val, BASE_TOP.val, RESEND.val) and all(classes):
                    if any(self.m.issub(q, c) for c in classes):
                        out.append((s, True))
                        continue
                    if not any(self.m.issub(c, q) for c in classes):
                        out.append((s, False))
                        continue
                memo = ("isinst", av.sym, tuple(classes)) if (av.sym and self._memo_on()) else None
                if memo and memo in s.ts:
                    out.append((s, s.ts[memo]))
                    continue
                for b in (True, False):
                    s2 = s.copy()
                    if memo:
                        s2.ts[memo] = b
                    self._record(s2, node, b, True)
                    out.append((s2, b))
            return out, raises
        if isinstance(node, ast.Compare) and len(node.ops) > 1 and self.rule.wants_compose:
            # a <= b <= c  ==  (a <= b) and (b <= c)   (term-building rules: each link is decided and remembered on its own)
            links = []
            left = node.left
            for op, right in zip(node.ops, node.comparators):
                links.append(ast.copy_location(ast.Compare(left=left, ops=[op], comparators=[right]), node))
                left = right
            return self.truth_fork(st, ast.copy_location(ast.BoolOp(op=ast.And(), values=links), node))
        if isinstance(node, ast.Compare):
            cur, raises = [(st, [])], []
            for e in [node.left] + node.comparators:
                nxt = []
                for s, acc in cur:
                    vals, r = self.eval(s, e)
                    raises += r
                    nxt += [(s2, acc + [av]) for s2, av in vals]
                cur = nxt
            out = []
            for s, avs in cur:
                known = None
                if len(node.ops) == 1 and isinstance(node.ops[0], (ast.Is, ast.IsNot)):
                    a, b = avs
                    if a.kind == "const" and b.kind == "const":
                        known = (a.val is b.val) or (a.val == b.val and type(a.val) is type(b.val))
                    elif b.kind == "const" and b.val in (True, False) and isinstance(b.val, bool) and a.kind != "const":
                        if a.kind == "obj" or (a.truth is True and b.val is False) or (a.truth is False and b.val is True):
                            known = False
                    if known is None and a.kind == "unk" and b.kind == "unk" and ((a.sym and a.sym == b.sym and a.sym.startswith("g:"))
                                                                                  or (not a.sym and not b.sym and len(a.tags) == 1 and a.tags == b.tags and next(iter(a.tags)).startswith("global:"))):
                        # the same module-level object read twice (a sentinel compared with itself)
                        known = True
                        if isinstance(node.ops[0], ast.IsNot):
                            known = False
                        out.append((s, known))
                        continue
                    if known is None:
                        k = self.rule.compare(self, s, node, a, b)
                        if k is not None:
                            known = k if isinstance(node.ops[0], ast.Is) else not k
                            # rule.compare answers the `is`/== question positively
                            known = k
                    elif isinstance(node.ops[0], ast.IsNot):
                        known = not known
                    if known is None and a.sym and b.kind == "const" and self._memo_on():
                        memo = ("cmp", a.sym, "is", repr(b.val))
                        if memo in s.ts:
                            known = s.ts[memo] if isinstance(node.ops[0], ast.Is) else not s.ts[memo]
                        else:
                            for t in (True, False):
                                s3 = s.copy()
                                s3.ts[memo] = t if isinstance(node.ops[0], ast.Is) else not t
                                if isinstance(b.val, bool):
                                    # x is True => truthy ; x is False => falsy
                                    is_it = s3.ts[memo]
                                    if is_it:
                                        s3.facts[a.sym] = (b.val, False)
                                self._record(s3, node, t, True)
                                out.append((s3, t))
                            continue
                if known is None:
                    known = self.rule.compare(self, s, node, avs[0], avs[-1])
                if known is not None:
                    out.append((s, known))
                else:
                    for t in (True, False):
                        s3 = s.copy()
                        self._record(s3, node, t, True)
                        out.append((s3, t))
            return out, raises
        alt = self.rule.truth_as(self, st, node) if isinstance(node, (ast.Name, ast.Attribute)) else None
        if alt is not None:
            return self.truth_fork(st, alt)  # the rule knows what the truth of this object means (e.g. a container's __len__)
        vals, raises = self.eval(st, node)
        out = []
        for s, av in vals:
            if av.truth is not None:
                out.append((s, av.truth))
            else:
                for t in (True, False):
                    s2 = self.refine(s.copy(), node, av, lambda a, t=t: a.with_truth(t))
                    self._record(s2, node, t, True)
                    out.append((s2, t))
        return out, raises

    def _cmp_known(self, s, node, op, a, b):
        known = None
        if a.kind == "const" and b.kind == "const":
            try:
                if isinstance(op, (ast.Eq, ast.NotEq)):
                    known = a.val == b.val
                elif isinstance(op, (ast.In, ast.NotIn)):
                    known = a.val in b.val
                elif isinstance(op, ast.Lt):
                    return a.val < b.val
                elif isinstance(op, ast.LtE):
                    return a.val <= b.val
                elif isinstance(op, ast.Gt):
                    return a.val > b.val
                elif isinstance(op, ast.GtE):
                    return a.val >= b.val
                if isinstance(op, (ast.NotEq, ast.NotIn)):
                    known = not known
                return known
            except Exception:
                known = None
        k = self.rule.compare(self, s, node, a, b)
        if k is not None:
            return k
        # None-ness: x == c with x known None
        if isinstance(op, (ast.Eq, ast.NotEq)):
            for x, y in ((a, b), (b, a)):
                if x.none is True and y.kind == "const" and y.val is not None:
                    return isinstance(op, ast.NotEq)
                if x.kind == "obj" and y.kind == "const":
                    return isinstance(op, ast.NotEq)
        memo = self._memo_key(op, a, b)
        if memo and memo in s.ts:
            v = s.ts[memo]
            return v if isinstance(op, (ast.Eq, ast.In, ast.Lt, ast.LtE, ast.Gt, ast.GtE)) else not v
        # x == c decided true earlier  =>  x == c' false
        if isinstance(op, (ast.Eq, ast.NotEq)) and a.sym and b.kind == "const":
            for k2, v2 in s.ts.items():
                if isinstance(k2, tuple) and len(k2) == 4 and k2[0] == "cmp" and k2[1] == a.sym and k2[2] == "==" and v2 is True and k2[3] != repr(b.val):
                    return isinstance(op, ast.NotEq)
        return None

    def _memo_key(self, op, a, b):
        name = {ast.Eq: "==", ast.NotEq: "==", ast.In: "in", ast.NotIn: "in", ast.Lt: "<", ast.LtE: "<=", ast.Gt: ">", ast.GtE: ">="}[type(op)]
        if a.sym and b.kind == "const":
            return ("cmp", a.sym, name, repr(b.val))
        if b.sym and a.kind == "const":
            return ("cmp", repr(a.val), name, b.sym)
        if a.sym and b.sym:
            return ("cmp", a.sym, name, b.sym)
        return None

    def _memo_on(self):
        return self.record_decisions or self.relevant is None

    def _cmp_memo(self, s, op, a, b, t):
        memo = self._memo_key(op, a, b) if self._memo_on() else None
        if memo:
            s.ts[memo] = t if isinstance(op, (ast.Eq, ast.In, ast.Lt, ast.LtE, ast.Gt, ast.GtE)) else not t
            # x == <falsy/truthy const> decides truthiness of x
            if isinstance(op, (ast.Eq, ast.NotEq)) and a.sym and b.kind == "const" and s.ts[memo] is True and b.truth is not None:
                s.facts[a.sym] = (b.truth, b.val is None)

    def refine(self, st: State, node, av, f):
        """Apply refinement f to the value read by `node` (a Name / Attribute / anything with a symbol)."""
        if isinstance(node, ast.Name) and not self.is_rel(node.id):
            return st
        if isinstance(node, ast.Attribute) and isinstance(node.value, ast.Name) and not self.is_rel(f"{node.value.id}.{node.attr}"):
            return st
        if av is not None and av.sym:
            new = f(st.view(av))
            st.facts[av.sym] = (new.truth, new.none)
            return st
        if isinstance(node, ast.Name):
            k = self.var(node.id)
            if k in st.env:
                st.env[k] = f(st.env[k])
        elif isinstance(node, ast.Attribute) and isinstance(node.value, ast.Name):
            base = st.env.get(self.var(node.value.id))
            key = self.heap_key(base, node.value.id, node.attr)
            if key:
                st.heap[key] = f(st.heap.get(key, UNK))
        return st

    def heap_key(self, base: Optional[AV], name, attr):
        if name == "self" and self.frame_has_self:
            return ("self", attr)
        if base is not None and base.kind == "obj":
            return (base.val, attr)
        if base is not None and base.kind == "self":
            return ("self", attr)
        return None

    # ------------------------------------------------------------- eval
    def eval(self, st: State, node: ast.expr):
        """-> (list[(state, AV)], list[Out raise])"""
        self.budget.tick()
        if isinstance(node, ast.Constant):
            return [(st, const(node.value))], []
        if isinstance(node, ast.NamedExpr):
            vals, raises = self.eval(st, node.value)
            out = []
            for s, av in vals:
                s = s.copy()
                self.assign(s, node.target, av)
                out.append((s, av))
            return out, raises
        if isinstance(node, ast.Name):
            k = self.var(node.id)
            if k in st.env:
                return [(st, st.view(st.env[k]))], []
            if node.id == "self" and self.frame_has_self:
                return [(st, AV("self", typ=self.self_cls, truth=True, none=False))], []
            g = self.rule.global_value(self, node.id)
            if g is not None:
                return [(st, g)], []
            stmts = self.m.assigns.get(self.module, {}).get(node.id) or []
            if len(stmts) == 1 and isinstance(stmts[0], (ast.Assign, ast.AnnAssign)) and isinstance(stmts[0].value, ast.Constant) and isinstance(stmts[0].value.value, str):
                # a module-level name bound once to a string literal (a mode flag, a message): that string
                return [(st, const(stmts[0].value.value))], []
            return [(st, AV("unk", tags=frozenset({f"global:{node.id}"})))], []
        if isinstance(node, ast.Attribute):
            vals, raises = self.eval(st, node.value)
            out = []
            for s, base in vals:
                av = self.rule.getattr(self, s, node, base)
                if av is None and base.kind == "tuple" and base.typ:
                    flds = self.m.namedtuple_fields(base.typ)
                    if flds and node.attr in flds and flds.index(node.attr) < len(base.val):
                        av = base.val[flds.index(node.attr)]  # a field of a NamedTuple built on this path
                if av is None:
                    key = None
                    if base.kind == "self":
                        key = ("self", node.attr)
                    elif base.kind == "obj":
                        key = (base.val, node.attr)
                    if key is not None and key in s.heap:
                        av = s.heap[key]
                    elif key is not None and (self.relevant is None or (isinstance(node.value, ast.Name) and self.is_rel(f"{node.value.id}.{node.attr}"))):
                        # stable symbol per (object, field) so repeated reads correlate
                        av = AV("unk", sym=f"field:{key[0]}.{key[1]}")
                    else:
                        av = UNK
                out.append((s, s.view(av)))
            return out, raises
        if isinstance(node, ast.UnaryOp) and isinstance(node.op, ast.Not):
            res, raises = self.truth_fork(st, node.operand)
            return [(s, const(not b)) for s, b in res], raises
        if isinstance(node, ast.BoolOp):
            is_and = isinstance(node.op, ast.And)
            cur, raises, done = [(st, None)], [], []
            for i, v in enumerate(node.values):
                nxt = []
                last = i == len(node.values) - 1
                for s, _ in cur:
                    vals, r = self.eval(s, v)
                    raises += r
                    for s2, av in vals:
                        if last:
                            done.append((s2, av))
                            continue
                        ts = [av.truth] if av.truth is not None else [True, False]
                        for t in ts:
                            if av.truth is not None:
                                s3, av3 = s2, av
                            else:
                                s3 = self.refine(s2.copy(), v, av, lambda a, t=t: a.with_truth(t))
                                av3 = av.with_truth(t)
                                self._record(s3, v, t, True)
                            if (is_and and not t) or (not is_and and t):
                                done.append((s3, av3))
                            else:
                                nxt.append((s3, av3))
                cur = nxt
            return done, raises
        if isinstance(node, ast.IfExp):
            res, raises = self.truth_fork(st, node.test)
            out = []
            for s, b in res:
                vals, r = self.eval(s, node.body if b else node.orelse)
                out += vals
                raises += r
            return out, raises
        if isinstance(node, ast.Compare) or (
            isinstance(node, ast.Call) and isinstance(node.func, ast.Name) and node.func.id == "isinstance"
        ):
            res, raises = self.truth_fork(st, node)
            return [(s, const(b)) for s, b in res], raises
        if isinstance(node, ast.Call):
            return self.eval_call(st, node)
        if isinstance(node, ast.Tuple):
            cur, raises = [(st, [])], []
            for e in node.elts:
                nxt = []
                for s, acc in cur:
                    vals, r = self.eval(s, e.value if isinstance(e, ast.Starred) else e)
                    raises += r
                    nxt += [(s2, acc + [av]) for s2, av in vals]
                cur = nxt
            return [(s, AV("tuple", tuple(acc), truth=bool(acc), none=False)) for s, acc in cur], raises
        if isinstance(node, ast.Subscript):
            v = self.rule.getitem(self, st, node)
            if v is not None:
                return [(st, st.view(v))], []
            vals, raises = self.eval(st, node.value)
            out = []
            for s, base in vals:
                if base.kind == "dict" and isinstance(node.slice, ast.Constant):
                    sl = dslots(base)
                    if node.slice.value in sl:
                        out.append((s, s.view(sl[node.slice.value])))
                        continue
                    out.append((s, AV("unk", sym=f"{base.sym or 'dict'}[{node.slice.value!r}]@entry", tags=frozenset({"entry"}))))
                    continue
                if base.kind == "dict" and not isinstance(node.slice, (ast.Slice, ast.Constant)) and dslots(base):
                    # d[k] where k is a variable holding a known constant key of a tracked mapping
                    kv, kr = self.eval(s, node.slice)
                    if len(kv) == 1 and kv[0][1].kind == "const" and not kr:
                        try:
                            hit = kv[0][1].val in dslots(base)
                        except TypeError:
                            hit = False
                        if hit:
                            out.append((kv[0][0], kv[0][0].view(dslots(base)[kv[0][1].val])))
                            continue
                if base.kind == "tuple" and isinstance(node.slice, ast.Constant) and isinstance(node.slice.value, int) and -len(base.val) <= node.slice.value < len(base.val):
                    out.append((s, base.val[node.slice.value]))
                    continue
                if self.rule.wants_subscript:
                    # term-building rules: evaluate the index / slice bounds and let the rule compose the result
                    if isinstance(node.slice, ast.Slice):
                        parts = [node.slice.lower, node.slice.upper, node.slice.step]
                    else:
                        parts = [node.slice]
                    cur = [(s, [])]
                    for e in parts:
                        nxt = []
                        for s1, acc in cur:
                            if e is None:
                                nxt.append((s1, acc + [const(None)]))
                            else:
                                vs, r = self.eval(s1, e)
                                raises += r
                                nxt += [(s2, acc + [av]) for s2, av in vs]
                        cur = nxt
                    for s1, acc in cur:
                        r = self.rule.subscript(self, s1, node, base, acc, isinstance(node.slice, ast.Slice))
                        if r is None:
                            out.append((s1, UNK))
                        elif isinstance(r, list):
                            for o in r:
                                if o.kind == "normal":
                                    out.append((o.st, o.val if o.val is not None else UNK))
                                else:
                                    raises.append(o)
                        else:
                            out.append((s1, r))
                    continue
                out.append((s, UNK))
            return out, raises
        if isinstance(node, ast.List) and not node.elts and not self.rule.wants_compose:
            # a fresh empty list: known empty until something is appended (any mutating call on the variable forgets this)
            return [(st, AV("list", (), truth=False, none=False))], []
        if isinstance(node, ast.JoinedStr) and not self.rule.wants_compose:
            return [(st, AV("unk", truth=None, none=False))], []
        if isinstance(node, ast.Dict) and None in node.keys and all(isinstance(k, ast.Constant) for k in node.keys if k is not None):
            # {"a": x, **rest}: a mapping whose explicit string keys are known; `rest` may add further keys.  A splat that comes
            # AFTER an explicit key could override it - unless it is this function's own **kwargs (a caller cannot pass a named
            # parameter of the function through **kwargs) or a closed dict that does not contain the key.
            cur, raises = [(st, {}, False, True)], []
            for k, v in zip(node.keys, node.values):
                nxt = []
                for s, acc, open_, good in cur:
                    vals, r = self.eval(s, v)
                    raises += r
                    for s2, av in vals:
                        if k is not None:
                            nxt.append((s2, {**acc, k.value: av}, open_, good))
                        elif av.kind == "dict" and not av.val[1]:
                            nxt.append((s2, {**acc, **dslots(av)}, open_, good))
                        elif av.kind == "dict" and av.sym and av.sym.startswith("p:") and not dslots(av):
                            # own **kwargs: adds keys; it cannot hold a NAMED parameter of this function, any other key it may override
                            fi_ = self.m.funcs.get(self.func_qual or "")
                            named = set()
                            if fi_ is not None:
                                a_ = fi_.node.args
                                named = {x.arg for x in a_.posonlyargs + a_.args + a_.kwonlyargs}
                            acc2 = {}
                            for k_, v_ in acc.items():
                                if k_ in named:
                                    acc2[k_] = v_
                                else:
                                    base_ = v_.sym if v_.sym else (repr(v_.val) if v_.kind == "const" else "?")
                                    acc2[k_] = AV("unk", sym=f"over({base_},{av.sym})", tags=frozenset(set(v_.tags) | set(av.tags) | {"maybe-overridden"}))
                            nxt.append((s2, acc2, True, good))
                        else:
                            nxt.append((s2, {}, True, False))  # a mapping the interpreter knows nothing about
                cur = nxt
            if all(good for _, _, _, good in cur):
                return [(s, dict_av(acc, open_=open_)) for s, acc, open_, _ in cur], raises
            # otherwise: the generic treatment below (children evaluated, result composed by the rule - e.g. taint of the parts)
        if isinstance(node, ast.Dict) and all(isinstance(k, ast.Constant) for k in node.keys if k is not None) and None not in node.keys:
            cur, raises = [(st, {})], []
            for k, v in zip(node.keys, node.values):
                nxt = []
                for s, acc in cur:
                    vals, r = self.eval(s, v)
                    raises += r
                    nxt += [(s2, {**acc, k.value: av}) for s2, av in vals]
                cur = nxt
            return [(s, dict_av(acc, open_=False)) for s, acc in cur], raises
        if isinstance(node, ast.DictComp) and len(node.generators) == 1 and not node.generators[0].ifs and not node.generators[0].is_async \
                and isinstance(node.generators[0].target, ast.Name):
            # {k: f(k) for k in <a constant tuple / list of names>}: unrolled into a closed mapping
            g = node.generators[0]
            ivals, iraises = self.eval(st, g.iter)
            if len(ivals) == 1 and not iraises:
                s0, itv = ivals[0]
                elems = None
                if itv.kind == "const" and isinstance(itv.val, (tuple, list)) and all(isinstance(x, (str, int)) for x in itv.val):
                    elems = [const(x) for x in itv.val]
                elif itv.kind == "tuple" and all(x.kind == "const" for x in itv.val):
                    elems = list(itv.val)
                if elems is not None and len(elems) <= 64:
                    cur, raises, okc = [(s0, {})], [], True
                    tv_ = self.var(g.target.id)
                    for el in elems:
                        nxt = []
                        for s1, acc in cur:
                            s2 = s1.copy()
                            s2.env[tv_] = el
                            kvs, r1 = self.eval(s2, node.key)
                            raises += r1
                            for s3, kav in kvs:
                                vvs, r2 = self.eval(s3, node.value)
                                raises += r2
                                for s4, vav in vvs:
                                    if kav.kind != "const":
                                        okc = False
                                    else:
                                        nxt.append((s4, {**acc, kav.val: vav}))
                        cur = nxt
                    if okc and cur:
                        res = []
                        for s1, acc in cur:
                            s1.env.pop(tv_, None)
                            res.append((s1, dict_av(acc, open_=False)))
                        return res, raises
        if isinstance(node, (ast.Lambda, ast.ListComp, ast.SetComp, ast.DictComp, ast.GeneratorExp)):
            r = self.rule.comprehension(self, st, node)
            if r is not None:
                return r
            return [(st, AV("unk", none=False))], []
        # everything else: evaluate children for effects, result unknown (or composed by a term-building rule)
        cur, raises = [(st, [])], []
        for ch in ast.iter_child_nodes(node):
            if isinstance(ch, ast.expr):
                nxt = []
                for s, acc in cur:
                    vals, r = self.eval(s, ch.value if isinstance(ch, (ast.Starred, ast.FormattedValue)) else ch)
                    raises += r
                    nxt += [(s2, acc + [(ch, av)]) for s2, av in vals]
                cur = nxt
        if self.rule.wants_compose:
            out = []
            for s, acc in cur:
                r = self.rule.compose(self, s, node, acc)
                out.append((s, r if r is not None else UNK))
            return out, raises
        return [(s, UNK) for s, _ in cur], raises

    def eval_args(self, st, node: ast.Call):
        cur, raises = [(st, [], {})], []
        for a in node.args:
            nxt = []
            for s, pos, kw in cur:
                vals, r = self.eval(s, a.value if isinstance(a, ast.Starred) else a)
                raises += r
                if isinstance(a, ast.Starred):
                    # f(*t) with a tuple whose elements are known is f(t0, t1, ...)
                    nxt += [(s2, pos + list(av.val), kw) if (av.kind == "tuple" and "*" not in kw) else (s2, pos, {**kw, "*": av}) for s2, av in vals]
                else:
                    nxt += [(s2, pos + [av], kw) for s2, av in vals]
            cur = nxt
        for k in node.keywords:
            nxt = []
            for s, pos, kw in cur:
                vals, r = self.eval(s, k.value)
                raises += r
                for s2, av in vals:
                    if k.arg is None and av.kind == "dict" and not av.val[1] and "**" not in kw:
                        # f(**{"a": x, "b": y}) with a closed dictionary built earlier is f(a=x, b=y)
                        nxt.append((s2, pos, {**kw, **{kk: vv for kk, vv in dslots(av).items() if kk not in kw}}))
                    elif k.arg is None and av.kind == "dict" and av.val[1] and dslots(av) and all(isinstance(kk, str) for kk in dslots(av)) and "**" not in kw:
                        # an open mapping with known string keys: those are keyword arguments, the rest stays a splat
                        nxt.append((s2, pos, {**kw, **{kk: vv for kk, vv in dslots(av).items() if kk not in kw}, "**": dict_av({}, True, sym=av.sym)}))
                    else:
                        nxt.append((s2, pos, {**kw, (k.arg or "**"): av}))
            cur = nxt
        return cur, raises

    def _signature(self, node, recv, q):
        """positional-or-keyword parameter names of a repo callee (None when the callee is not a repo function)"""
        m = self.m
        f = node.func
        fi = None
        if isinstance(f, ast.Attribute):
            if recv is not None and recv.kind == "self" and self.self_cls:
                fi = m.find_method(self.self_cls, f.attr)
            elif isinstance(f.value, ast.Name) and f.value.id == "cls" and self.self_cls:
                fi = m.find_method(self.self_cls, f.attr)
            elif isinstance(f.value, ast.Call) and ast.unparse(f.value.func) == "super" and self.self_cls:
                for c in m.mro(self.self_cls)[1:]:
                    ci = m.classes.get(c)
                    if ci is not None and f.attr in ci.methods:
                        fi = ci.methods[f.attr]
                        break
            elif q and q in m.funcs:
                fi = m.funcs[q]
        elif isinstance(f, ast.Name) and q:
            if q in m.funcs:
                fi = m.funcs[q]
            elif q in m.classes:
                fi = m.find_method(q, "__init__")
                if fi is None or not fi.qual.startswith("urllib3."):
                    ci = m.classes[q]
                    names = [n.target.id for n in ci.node.body if isinstance(n, ast.AnnAssign) and isinstance(n.target, ast.Name)]
                    return names or None
        if fi is None or not fi.qual.startswith("urllib3."):
            return None
        a = fi.node.args
        names = [x.arg for x in a.posonlyargs + a.args]
        if fi.cls is not None and names and names[0] in ("self", "cls") and not any("staticmethod" in d for d in fi.decorators):
            names = names[1:]
        return names

    def canon_args(self, node, recv, pos, kw):
        """f(a, y=b) and f(a, b) are the same call when y is f's second parameter: keywords that continue the positional
        prefix of a repo callee's signature are moved into it."""
        if not kw or "*" in kw:
            return pos, kw
        try:
            names = self._signature(node, recv, self.resolve_callee(node, recv))
        except Exception:
            names = None
        if not names:
            return pos, kw
        pos, kw = list(pos), dict(kw)
        i = len(pos)
        while i < len(names) and names[i] in kw:
            pos.append(kw.pop(names[i]))
            i += 1
        return pos, kw

    def bind_args(self, node, recv, pos, kw):
        """parameter name -> value for a call of a repo callee (positional and keyword forms alike); {} when the callee's
        signature is not known.  Rules that look arguments up by name use this instead of `pos[i]` / `kw[name]`."""
        try:
            names = self._signature(node, recv, self.resolve_callee(node, recv))
        except Exception:
            names = None
        if not names:
            return {}
        out = {n: v for n, v in zip(names, pos)}
        for k, v in kw.items():
            if k not in ("*", "**"):
                out.setdefault(k, v)
        return out

    def eval_call(self, st: State, node: ast.Call):
        f = node.func
        if (isinstance(f, ast.Name) and f.id == "getattr" and len(node.args) == 2 and not node.keywords and isinstance(node.args[1], ast.Name)
                and self.var("getattr") not in st.env and self.var(node.args[1].id) in st.env):
            # getattr(x, name) where `name` holds a known constant identifier: the attribute access x.<name>
            nv = st.view(st.env[self.var(node.args[1].id)])
            if nv.kind == "const" and isinstance(nv.val, str) and nv.val.isidentifier():
                fake = ast.copy_location(ast.Attribute(value=node.args[0], attr=nv.val, ctx=ast.Load()), node)
                ast.fix_missing_locations(fake)
                return self.eval(st, fake)
        if (isinstance(f, ast.Name) and f.id == "getattr" and (len(node.args) == 2 or (len(node.args) == 3 and self.rule.getattr_default_transparent)) and not node.keywords and isinstance(node.args[1], ast.Constant)
                and isinstance(node.args[1].value, str) and node.args[1].value.isidentifier() and self.var("getattr") not in st.env):
            # getattr(x, "name"[, default]) where the rule knows attribute `name` of x: the attribute access x.name
            fake = ast.copy_location(ast.Attribute(value=node.args[0], attr=node.args[1].value, ctx=ast.Load()), node)
            bvals, braises = self.eval(st, node.args[0])
            if bvals and all(self.rule.getattr(self, s_, fake, b_) is not None for s_, b_ in bvals):
                return [(s_, s_.view(self.rule.getattr(self, s_, fake, b_))) for s_, b_ in bvals], braises
        recvs, raises = [(st, None)], []
        if isinstance(f, ast.Attribute):
            recvs, raises = self.eval(st, f.value)
        out = []
        for s, recv in recvs:
            argsets, r = self.eval_args(s, node)
            raises += r
            for s2, pos, kw in argsets:
                if (isinstance(f, ast.Name) and f.id == "dict" and not pos and kw and "**" not in kw and "*" not in kw
                        and self.var("dict") not in s2.env and (self.m.resolve_local(self.module, "dict") or "builtins.dict").startswith("builtins")):
                    # dict(a=x, b=y) is the display {"a": x, "b": y}
                    out.append((s2, dict_av(dict(kw), open_=False)))
                    continue
                if (isinstance(f, ast.Name) and f.id == "dict" and len(pos) == 1 and pos[0].kind == "dict" and "**" not in kw and "*" not in kw
                        and self.var("dict") not in s2.env and (self.m.resolve_local(self.module, "dict") or "builtins.dict").startswith("builtins")):
                    # dict(d) / dict(d, a=x) of a tracked dictionary: a shallow copy with the same slots (then the keyword stores)
                    sl = dslots(pos[0])
                    sl.update(kw)
                    out.append((s2, replace(pos[0], val=(tuple(sorted(sl.items(), key=lambda kv: str(kv[0]))), pos[0].val[1]))))
                    continue
                if (isinstance(f, ast.Name) and f.id == "dict" and len(pos) == 1 and not kw and pos[0].kind == "const" and isinstance(pos[0].val, tuple)
                        and all(isinstance(p_, tuple) and len(p_) == 2 and isinstance(p_[0], (str, bytes, int)) for p_ in pos[0].val)
                        and self.var("dict") not in s2.env and (self.m.resolve_local(self.module, "dict") or "builtins.dict").startswith("builtins")):
                    # dict((("a", 1), ("b", 2))) of a constant table is the display {"a": 1, "b": 2}
                    out.append((s2, dict_av({k_: const(v_) for k_, v_ in pos[0].val}, open_=False)))
                    continue
                if recv is not None and recv.kind == "dict" and isinstance(f, ast.Attribute) and isinstance(f.value, ast.Name) and self.var(f.value.id) in s2.env:
                    dk = self.var(f.value.id)
                    if f.attr == "update" and "*" not in kw and "**" not in kw and (not pos or (len(pos) == 1 and pos[0].kind == "dict" and not pos[0].val[1])):
                        # d.update(a=x, b=y) / d.update({...}) on a tracked dictionary is d["a"] = x; d["b"] = y
                        sl = dslots(recv)
                        if pos:
                            sl.update(dslots(pos[0]))
                        sl.update(kw)
                        s3 = s2.copy()
                        s3.env[dk] = replace(recv, val=(tuple(sorted(sl.items(), key=lambda kv: str(kv[0]))), recv.val[1]))
                        out.append((s3, const(None)))
                        continue
                    if f.attr == "update" and len(pos) == 1 and "*" not in kw and "**" not in kw and not (pos[0].kind == "dict" and not pos[0].val[1]):
                        # d.update(<a mapping the interpreter does not know>): every known slot may have been overridden by it
                        # (the slot keeps its own provenance and gains the argument's), further keys may exist
                        arg = pos[0]
                        def _over(v_):
                            base_ = v_.sym if v_.sym else (repr(v_.val) if v_.kind == "const" else "?")
                            return AV("unk", sym=f"over({base_},{arg.sym or '?'})", tags=frozenset(set(v_.tags) | set(arg.tags) | {"maybe-overridden"}))
                        sl = {k_: _over(v_) for k_, v_ in dslots(recv).items()}
                        sl.update(kw)
                        s3 = s2.copy()
                        s3.env[dk] = replace(recv, val=(tuple(sorted(sl.items(), key=lambda kv: str(kv[0]))), True), tags=frozenset(set(recv.tags) | set(arg.tags)))
                        out.append((s3, const(None)))
                        continue
                    if f.attr == "setdefault" and len(pos) == 2 and not kw and pos[0].kind == "const":
                        # d.setdefault(k, v) is `if k not in d: d[k] = v` followed by d[k]
                        key, sl = pos[0].val, dslots(recv)
                        if key in sl:
                            out.append((s2, s2.view(sl[key])))
                            continue
                        memo = ("cmp", repr(key), "in", recv.sym) if recv.sym else None
                        known = s2.ts.get(memo) if memo else None
                        for present in ((True, False) if (recv.val[1] and known is None) else ((known,) if recv.val[1] else (False,))):
                            s3 = s2.copy()
                            if memo and recv.val[1]:
                                s3.ts[memo] = present
                            if present:
                                out.append((s3, AV("unk", sym=f"{recv.sym or 'dict'}[{key!r}]@entry", tags=frozenset({"entry"}))))
                            else:
                                sl2 = dict(sl)
                                sl2[key] = pos[1]
                                s3.env[dk] = replace(recv, val=(tuple(sorted(sl2.items(), key=lambda kv: str(kv[0]))), recv.val[1]))
                                out.append((s3, pos[1]))
                        continue
                if self.rule.namedtuple_as_tuple and not self.rule.wants_subscript and isinstance(f, (ast.Name, ast.Attribute)) and "*" not in kw and "**" not in kw:
                    # Cls(a, b, ..) of a typing.NamedTuple of the repository (no __new__ of its own): the tuple of its fields
                    qn = self.m.resolve_name(self.module, f) if not (isinstance(f, ast.Name) and self.var(f.id) in s2.env) else None
                    flds = self.m.namedtuple_fields(qn) if qn else None
                    if flds and "__new__" not in self.m.classes[qn].methods and len(pos) <= len(flds) and all(k_ in flds for k_ in kw):
                        dflt = {n_.target.id: n_.value for n_ in self.m.classes[qn].node.body if isinstance(n_, ast.AnnAssign) and isinstance(n_.target, ast.Name) and n_.value is not None}
                        comps, okc = [], True
                        for i_, fl_ in enumerate(flds):
                            if i_ < len(pos):
                                comps.append(pos[i_])
                            elif fl_ in kw:
                                comps.append(kw[fl_])
                            elif fl_ in dflt and isinstance(dflt[fl_], ast.Constant):
                                comps.append(const(dflt[fl_].value))
                            else:
                                okc = False
                        if okc:
                            out.append((s2, AV("tuple", tuple(comps), truth=True, none=False, typ=qn)))
                            continue
                if len(pos) == 2 and not kw and ast.unparse(f) in ("typing.cast", "cast") and (self.m.resolve_name(self.module, f) or "").endswith("typing.cast"):
                    out.append((s2, pos[1]))  # typing.cast(T, x) is x
                    continue
                res = self.rule.call(self, s2, node, recv, pos, kw)
                if res is None:
                    res = self.default_call(s2, node, recv, pos, kw)
                if recv is not None and recv.kind == "list" and isinstance(f, ast.Attribute) and isinstance(f.value, ast.Name):
                    # a method call on a known-empty list may fill it: forget the emptiness (unless the rule re-bound the variable)
                    k = self.var(f.value.id)
                    for o in res:
                        if k in o.st.env and o.st.env[k].kind == "list":
                            o.st.env[k] = AV("unk", none=False)
                for o in res:
                    if o.kind == "normal":
                        # a result that carries a symbol is read through the facts already decided about that symbol on this path
                        out.append((o.st, o.st.view(o.val) if o.val is not None else UNK))
                    else:
                        raises.append(o)
        return out, raises

    def resolve_callee(self, node: ast.Call, recv: Optional[AV]):
        f = node.func
        if isinstance(f, ast.Name):
            return self.m.resolve_local(self.module, f.id)
        if isinstance(f, ast.Attribute) and recv is not None:
            cls = recv.typ if recv.kind in ("self", "obj", "unk") else None
            if cls:
                fi = self.m.find_method(cls, f.attr)
                if fi:
                    return fi.qual
            if isinstance(f.value, (ast.Name, ast.Attribute)) and recv.kind not in ("self", "obj"):
                return self.m.resolve_name(self.module, f)
        return None

    def default_call(self, st: State, node: ast.Call, recv, pos, kw, may_raise=True):
        f = node.func
        q = self.resolve_callee(node, recv)
        text = ast.unparse(f)
        if q and (q in self.m.classes or self.m.pyclass(q) is not None) and self.m.is_exception_class(q):
            return [Out("normal", st, AV("exc", self.m.norm(q), truth=True, none=False))]
        if isinstance(f, ast.Name) and f.id in NO_RAISE_BUILTINS:
            if f.id == "bool" and pos:
                return [Out("normal", st, AV("unk", truth=pos[0].truth, none=False, sym=pos[0].sym))]
            if f.id in ("str", "repr"):
                return [Out("normal", st, AV("unk", none=False, typ="builtins.str"))]
            return [Out("normal", st, UNK)]
        if isinstance(f, ast.Attribute) and recv is not None and (recv.typ == "builtins.str" or (recv.kind == "const" and isinstance(recv.val, str))) and f.attr in STR_TOTAL_METHODS:
            # total methods of a string (they cannot raise for string arguments): find / startswith / lower / ...
            return [Out("normal", st, AV("unk", none=False, typ="builtins.str" if f.attr in ("lower", "upper", "strip", "lstrip", "rstrip", "casefold", "title", "replace") else None))]
        if isinstance(f, ast.Attribute) and isinstance(f.value, ast.Name) and (f.value.id, f.attr) in NO_RAISE_ATTR_CALLS:
            return [Out("normal", st, UNK)]
        if q in self.m.funcs and q in self.inline and self.depth < self.max_depth:
            return self.inline_call(st, node, self.m.funcs[q], recv, pos, kw)
        outs = []
        s_ok = st.copy()
        s_ok.log(node, f"call {text} -> returns")
        ret_typ = None
        if q in self.m.funcs and getattr(self.m.funcs[q].node, "returns", None) is not None:
            ret_typ = self.m.resolve_name(self.m.funcs[q].module, self.m.funcs[q].node.returns)
        outs.append(Out("normal", s_ok, AV("unk", typ=ret_typ)))
        if may_raise:
            for ex in self.raise_set(q, node, recv):
                s_e = st.copy()
                s_e.log(node, f"call {text} -> raises {ex.val}")
                self.mark_fault(s_e, f"call {text}")
                outs.append(Out("raise", s_e, ex))
        return outs

    def raise_set(self, q, node, recv):
        res = [EXT_TOP, BASE_TOP]
        for c in sorted(self.summary(q)):
            res.append(AV("exc", c, truth=True, none=False))
        return res

    def summary(self, q, seen=None) -> set:
        """urllib3 exception classes a repo callee may raise (explicit raises, transitively)."""
        if q not in self.m.funcs:
            return set()
        cache = self.m.__dict__.setdefault("_summ_cache", {})
        key = (q, self.self_cls)
        if key in cache:
            return cache[key]
        seen = seen or set()
        if q in seen:
            return set()
        seen.add(q)
        fi = self.m.funcs[q]
        out = set()
        assigned = {}
        for n in ast.walk(fi.node):
            if isinstance(n, ast.Assign) and isinstance(n.value, ast.Call) and len(n.targets) == 1 and isinstance(n.targets[0], ast.Name):
                c = self.m.resolve_name(fi.module, n.value.func)
                if c in self.m.funcs and self.m.funcs[c].node.returns is not None:
                    c = self.m.resolve_name(self.m.funcs[c].module, self.m.funcs[c].node.returns)
                assigned.setdefault(n.targets[0].id, set()).add(c)
        for n in ast.walk(fi.node):
            if isinstance(n, ast.Raise) and n.exc is not None:
                e = n.exc.func if isinstance(n.exc, ast.Call) else n.exc
                c = self.m.resolve_name(fi.module, e)
                cands = {c}
                if isinstance(e, ast.Name) and e.id in assigned:
                    cands = assigned[e.id]
                if c and c.endswith(".reraise"):
                    cands = set()
                for c in cands:
                    if c and c in self.m.classes and self.m.issub(c, "builtins.BaseException"):
                        out.add(c)
            elif isinstance(n, ast.Call):
                c = None
                if isinstance(n.func, ast.Attribute) and isinstance(n.func.value, ast.Name) and n.func.value.id == "self" and fi.cls:
                    own = f"{fi.module}.{fi.cls}"
                    cls = self.self_cls if (self.self_cls and self.m.issub(self.self_cls, own)) else own
                    m2 = self.m.find_method(cls, n.func.attr)
                    c = m2.qual if m2 else None
                elif isinstance(n.func, (ast.Name, ast.Attribute)):
                    c = self.m.resolve_name(fi.module, n.func)
                if c in self.m.funcs and c.startswith("urllib3."):
                    out |= self.summary(c, seen)
        cache[key] = out
        return out

    def bind_params(self, sub, s, fi, recv, pos, kw):
        a = fi.node.args
        params = [x.arg for x in a.posonlyargs + a.args]
        if fi.cls is not None and params and params[0] in ("self", "cls") and not any(d == "staticmethod" for d in fi.decorators):
            params = params[1:]
        defaults = fi.defaults()
        bound = {}
        for p, v in zip(params, pos):
            bound[p] = v
        extra_kw = {}
        for k, v in kw.items():
            if k in ("**", "*"):
                continue
            if k in params or k in [x.arg for x in a.kwonlyargs]:
                bound[k] = v
            else:
                extra_kw[k] = v
        splat = kw.get("**")
        for p in params + [x.arg for x in a.kwonlyargs]:
            if p in bound:
                s.env[sub.var(p)] = bound[p]
            elif splat is not None and splat.kind == "dict" and p in dslots(splat):
                s.env[sub.var(p)] = dslots(splat)[p]
            elif p in defaults and not (splat is not None and splat.kind == "dict" and splat.val[1]):
                d = defaults[p]
                s.env[sub.var(p)] = const(d.value) if isinstance(d, ast.Constant) else (self.rule.default_value(self, fi, p, d) or UNK)
            elif p in defaults:
                # open **kw may or may not supply it
                d = defaults[p]
                s.env[sub.var(p)] = AV("unk", sym=f"{sub.frame}:param:{p}")
            else:
                s.env[sub.var(p)] = AV("unk", sym=f"{sub.frame}:param:{p}")
        if a.vararg:
            # *args: the positional arguments beyond the named parameters (unknown when the call passes a *splat it cannot see)
            if "*" in kw:
                s.env[sub.var(a.vararg.arg)] = AV("unk", sym=f"{sub.frame}:args", none=False)
            else:
                s.env[sub.var(a.vararg.arg)] = AV("tuple", tuple(pos[len(params):]), truth=bool(pos[len(params):]), none=False)
        if a.kwarg:
            sl = dict(extra_kw)
            open_ = False
            if splat is not None and splat.kind == "dict":
                for k, v in dslots(splat).items():
                    if k not in params:
                        sl.setdefault(k, v)
                open_ = splat.val[1]
            elif splat is not None:
                open_ = True
            s.env[sub.var(a.kwarg.arg)] = dict_av(sl, open_, sym=f"{sub.frame}:kw")

    def inline_call(self, st: State, node, fi, recv, pos, kw):
        sub = self.child(fi, f"{self.frame}/{fi.name}@{getattr(node, 'lineno', 0)}", is_method=fi.cls is not None)
        s = st.copy()
        s.log(node, f"enter {fi.qual}")
        self.bind_params(sub, s, fi, recv, pos, kw)
        if self._for_gen_node is node:
            # `for x in gen(...)` with an inlined generator: the body runs when the loop drives it (exec_for_gen)
            return [Out("normal", s, AV("gen", (fi.qual, sub.frame), truth=True, none=False))]
        outs = sub.exec_block(fi.node.body, [s])
        res = []
        for o in outs:
            o.st.env = {k: v for k, v in o.st.env.items() if not k.startswith(sub.frame + ":")}
            if o.kind in ("normal", "return"):
                o.st.log(node, f"leave {fi.name} (returns)")
                res.append(Out("normal", o.st, o.val if o.kind == "return" and o.val is not None else const(None)))
            elif o.kind == "raise":
                o.st.log(node, f"leave {fi.name} (raises {o.val.val})")
                res.append(o)
        return dedup(res)

    # ------------------------------------------------------------- statements
    def exec_block(self, stmts, states):
        outs, cur = [], states
        for stmt in stmts:
            nxt = []
            seen = set()
            for st in cur:
                for o in self.exec_stmt(stmt, st):
                    if o.kind == "normal":
                        k = o.st.key()
                        if k not in seen:
                            seen.add(k)
                            nxt.append(o.st)
                    else:
                        outs.append(o)
            cur = nxt
            if not cur:
                break
        return dedup(outs + [Out("normal", s) for s in cur])

    def _nt_fields(self, sym, n):
        """field names when `sym` is the term of a call of a repo function (or constructor) returning a NamedTuple of n fields"""
        head = sym.split("(", 1)[0] if "(" in sym and sym.endswith(")") else None
        if not head:
            return None
        name = head[4:] if head.startswith("new:") else head.rsplit(".", 1)[-1]
        for q in (f"{self.module}.{name}", self.m.resolve_local(self.module, name)):
            if not q:
                continue
            f = self.m.namedtuple_fields(q) if head.startswith("new:") or q in self.m.classes else self.m.returned_namedtuple_fields(q)
            if f and len(f) == n:
                return f
        return None

    def is_rel(self, name):
        return self.relevant is None or name in self.relevant

    def assign(self, st: State, target, av: AV):
        if isinstance(target, ast.Name):
            if self.is_rel(target.id):
                st.env[self.var(target.id)] = av
            else:
                st.env.pop(self.var(target.id), None)
        elif isinstance(target, ast.Attribute) and isinstance(target.value, ast.Name):
            base = st.env.get(self.var(target.value.id))
            key = self.heap_key(base, target.value.id, target.attr)
            if key:
                if self.is_rel(f"{target.value.id}.{target.attr}"):
                    st.heap[key] = av
                else:
                    st.heap.pop(key, None)
                st.facts.pop(f"field:{key[0]}.{key[1]}", None)
            self.rule.setattr(self, st, target, base, av)
        elif isinstance(target, (ast.Tuple, ast.List)) and any(isinstance(t, ast.Starred) for t in target.elts):
            # a, *rest = x   (term-building rules get element / slice terms; others lose the parts)
            n = len(target.elts)
            j = [i for i, t in enumerate(target.elts) if isinstance(t, ast.Starred)][0]
            for i, t in enumerate(target.elts):
                if not (self.rule.wants_subscript and av.sym):
                    self.assign(st, t.value if isinstance(t, ast.Starred) else t, UNK)
                elif i < j:
                    self.assign(st, t, AV("unk", sym=self.rule.term("idx", av.sym, str(i))))
                elif i == j:
                    hi = "" if j == n - 1 else str(-(n - 1 - j))
                    self.assign(st, t.value, AV("unk", sym=self.rule.term("slice", av.sym, str(j), hi, ""), none=False))
                else:
                    self.assign(st, t, AV("unk", sym=self.rule.term("idx", av.sym, str(-(n - i)))))
        elif isinstance(target, (ast.Tuple, ast.List)):
            custom = self.rule.unpack(self, st, av, len(target.elts))
            if custom is not None and len(custom) == len(target.elts):
                parts = custom
            elif av.kind == "tuple" and len(av.val) == len(target.elts):
                parts = av.val
            elif self.rule.wants_subscript and av.sym and self._nt_fields(av.sym, len(target.elts)):
                # a, b = f(...) where f returns a NamedTuple: the elements are its fields (same terms as attribute access)
                parts = [AV("unk", sym=f"{av.sym}.{fld}") for fld in self._nt_fields(av.sym, len(target.elts))]
            elif self.rule.wants_subscript and av.sym:
                parts = [AV("unk", sym=self.rule.term("idx", av.sym, str(i))) for i in range(len(target.elts))]  # term-building rules: element terms
            else:
                parts = [UNK] * len(target.elts)
            for t, p in zip(target.elts, parts):
                self.assign(st, t, p)
        elif isinstance(target, ast.Subscript):
            key = _NOKEY = object()
            if isinstance(target.value, ast.Name) and isinstance(target.slice, ast.Constant):
                key = target.slice.value
            elif isinstance(target.value, ast.Name) and isinstance(target.slice, ast.Name):
                kav = st.env.get(self.var(target.slice.id))
                if kav is not None and st.view(kav).kind == "const" and isinstance(st.view(kav).val, (str, int)):
                    key = st.view(kav).val  # d[k] = v with k a variable holding a known constant
            if key is not _NOKEY:
                k = self.var(target.value.id)
                d = st.env.get(k)
                if d is not None and d.kind == "dict":
                    sl = dslots(d)
                    sl[key] = av
                    st.env[k] = replace(d, val=(tuple(sorted(sl.items(), key=lambda kv: str(kv[0]))), d.val[1]))
            self.rule.setitem(self, st, target, av)

    def exec_stmt(self, stmt, st: State):
        self.budget.tick()
        if isinstance(stmt, (ast.Assign, ast.AnnAssign)):
            if stmt.value is None:
                return [Out("normal", st)]
            targets = stmt.targets if isinstance(stmt, ast.Assign) else [stmt.target]
            # tuple swap `a, self.x = self.x, None` evaluates the right side first
            vals, raises = self.eval(st, stmt.value)
            outs = list(raises)
            for s, av in vals:
                s = s.copy()
                for t in targets:
                    self.assign(s, t, av)
                self.rule.after_assign(self, s, stmt, av)
                outs.append(Out("normal", s))
            return outs
        if isinstance(stmt, ast.AugAssign):
            vals, raises = self.eval(st, stmt.value)
            outs = list(raises)
            for s, v in vals:
                s = s.copy()
                r = self.rule.augassign(self, s, stmt, v)
                self.assign(s, stmt.target, r if r is not None else UNK)
                outs.append(Out("normal", s))
            return outs
        if isinstance(stmt, ast.Expr) and isinstance(stmt.value, ast.YieldFrom):
            loop = self._yield_from_loop(stmt)
            if loop is not None:
                return self.exec_stmt(loop, st)
        if isinstance(stmt, ast.Expr) and isinstance(stmt.value, (ast.Yield, ast.YieldFrom)):
            return self._yield(stmt, stmt.value, st)
        if isinstance(stmt, ast.Expr):
            vals, raises = self.eval(st, stmt.value)
            return list(raises) + [Out("normal", s) for s, _ in vals]
        if isinstance(stmt, (ast.Pass, ast.Import, ast.ImportFrom, ast.Global, ast.Nonlocal)):
            return [Out("normal", st)]
        if isinstance(stmt, ast.Return):
            if stmt.value is None:
                return [Out("return", st, const(None))]
            vals, raises = self.eval(st, stmt.value)
            return list(raises) + [Out("return", s, av) for s, av in vals]
        if isinstance(stmt, ast.Raise):
            if stmt.exc is None:
                ex = st.handling[-1] if st.handling else EXT_TOP
                s = st.copy()
                s.log(stmt, f"re-raise {ex.val}")
                return [Out("raise", s, ex)]
            vals, raises = self.eval(st, stmt.exc)
            outs = list(raises)
            for s, av in vals:
                if av.kind != "exc":
                    q = self.exc_class(stmt.exc) if isinstance(stmt.exc, (ast.Name, ast.Attribute)) else None
                    if q and self.m.is_exception_class(q):
                        av = AV("exc", q, truth=True, none=False)
                    else:
                        av = self.rule.raise_value(self, s, stmt, av) or EXT_TOP
                s = s.copy()
                s.log(stmt, f"raise {av.val}")
                self.mark_fault(s, f"raise {str(av.val).rsplit('.', 1)[-1]}")
                outs.append(Out("raise", s, av))
            return outs
        if isinstance(stmt, ast.If):
            res, raises = self.truth_fork(st, stmt.test)
            outs = list(raises)
            for s, b in res:
                s = s.copy()
                s.log(stmt, f"if {ast.unparse(stmt.test)[:70]} -> {b}")
                outs += self.exec_block(stmt.body if b else stmt.orelse, [s])
            return dedup(outs)
        if isinstance(stmt, ast.Try):
            return self.exec_try(stmt, st)
        if isinstance(stmt, ast.With):
            tr = self._suppress_as_try(stmt)
            if tr is not None:
                return self.exec_try(tr, st)
            cm = self.contextmanager_target(stmt)
            if cm is not None:
                return self.exec_with_cm(stmt, st, cm)
            return self.rule.with_stmt(self, stmt, st)
        if isinstance(stmt, ast.For) and isinstance(stmt.iter, ast.Call) and self.inline:
            r = self.exec_for_gen(stmt, st)
            if r is not None:
                return r
        if isinstance(stmt, (ast.While, ast.For)):
            return self.exec_loop(stmt, st)
        if isinstance(stmt, ast.Assert):
            if not self.rule.model_asserts:
                return [Out("normal", st)]
            res, raises = self.truth_fork(st, stmt.test)
            outs = list(raises)
            for s, b in res:
                if b:
                    outs.append(Out("normal", s))
                else:
                    s = s.copy()
                    s.log(stmt, f"assert {ast.unparse(stmt.test)[:60]} fails")
                    outs.append(Out("raise", s, AV("exc", "builtins.AssertionError", truth=True, none=False)))
            return outs
        if isinstance(stmt, ast.Delete):
            s = st.copy()
            r = self.rule.delete(self, s, stmt)
            if r is not None:
                return r
            return [Out("normal", s)]
        if isinstance(stmt, ast.Break):
            return [Out("break", st)]
        if isinstance(stmt, ast.Continue):
            return [Out("continue", st)]
        if isinstance(stmt, (ast.FunctionDef, ast.ClassDef, ast.AsyncFunctionDef)):
            return [Out("normal", st)]
        raise AnalysisError(f"statement kind {type(stmt).__name__} not supported by the interpreter (line {stmt.lineno})")

    def _yield_from_loop(self, stmt):
        """`yield from (elt for t in it if c)` is `for t in it: if c: yield elt`; `yield from it` (statement form, result unused)
        is `for x in it: yield x`.  Synthesised once per statement so that state keys stay stable."""
        if hasattr(stmt, "_sa_loop"):
            return stmt._sa_loop
        v = stmt.value.value
        loop = None
        if isinstance(v, ast.GeneratorExp) and len(v.generators) == 1 and not v.generators[0].is_async:
            g = v.generators[0]
            body = [ast.Expr(ast.Yield(v.elt))]
            for c in reversed(g.ifs):
                body = [ast.If(c, body, [])]
            loop = ast.For(g.target, g.iter, body, [], None)
        elif isinstance(v, (ast.Name, ast.Attribute, ast.Subscript, ast.Tuple, ast.List)):
            nm = f"_yf{stmt.lineno}"
            loop = ast.For(ast.Name(nm, ast.Store()), v, [ast.Expr(ast.Yield(ast.Name(nm, ast.Load())))], [], None)
        if loop is not None:
            ast.copy_location(loop, stmt)
            ast.fix_missing_locations(loop)
        stmt._sa_loop = loop
        return loop

    def _suppress_as_try(self, stmt):
        """`with contextlib.suppress(E1, ..): body` is `try: body` / `except (E1, ..): pass`."""
        if hasattr(stmt, "_sa_try"):
            return stmt._sa_try
        tr = None
        if len(stmt.items) == 1 and stmt.items[0].optional_vars is None:
            e = stmt.items[0].context_expr
            args = []
            for a in (e.args if isinstance(e, ast.Call) else []):
                if isinstance(a, ast.Starred) and isinstance(a.value, ast.Name):
                    # suppress(*TABLE) with TABLE a module-level tuple of classes bound once: its elements
                    stmts = self.m.assigns.get(self.module, {}).get(a.value.id) or []
                    v = stmts[0].value if len(stmts) == 1 and isinstance(stmts[0], (ast.Assign, ast.AnnAssign)) else None
                    args += list(v.elts) if isinstance(v, (ast.Tuple, ast.List)) and not any(isinstance(x, ast.Starred) for x in v.elts) else [a]
                else:
                    args.append(a)
            if isinstance(e, ast.Call) and not e.keywords and args and not any(isinstance(a, ast.Starred) for a in args):
                q = self.m.resolve_name(self.module, e.func) if isinstance(e.func, (ast.Name, ast.Attribute)) else None
                if q == "contextlib.suppress":
                    typ = args[0] if len(args) == 1 else ast.Tuple(list(args), ast.Load())
                    tr = ast.Try(stmt.body, [ast.ExceptHandler(typ, None, [ast.Pass()])], [], [])
                    ast.copy_location(tr, stmt)
                    ast.fix_missing_locations(tr)
        stmt._sa_try = tr
        return tr

    def _yield(self, stmt, ynode, st):
        if self.yield_body is not None:
            return self.exec_yield(stmt, st)
        outs = []
        if ynode.value is not None:
            vals, raises = self.eval(st, ynode.value)
            outs += raises
        else:
            vals = [(st, const(None))]
        for s, av in vals:
            s1 = s.copy()
            s1.log(stmt, "yield -> resumed")
            s2 = s.copy()
            s2.log(stmt, "yield -> abandoned (GeneratorExit)")
            outs += self.rule.on_yield(self, stmt, av, [Out("normal", s1), Out("raise", s2, GEN_EXIT)])
        return outs

    # ---- @contextmanager inlining
    def contextmanager_target(self, stmt: ast.With):
        if len(stmt.items) != 1:
            return None
        e = stmt.items[0].context_expr
        if (isinstance(e, ast.Call) and isinstance(e.func, ast.Attribute) and isinstance(e.func.value, ast.Name)
                and e.func.value.id == "self" and self.frame_has_self and self.self_cls):
            fi = self.m.find_method(self.self_cls, e.func.attr)
            if fi and any("contextmanager" in d for d in fi.decorators):
                return fi
        return None

    def exec_with_cm(self, stmt: ast.With, st: State, fi):
        sub = self.child(fi, f"{self.frame}/cm:{fi.name}@{stmt.lineno}")
        sub.yield_body = (self, stmt.body)
        s = st.copy()
        s.log(stmt, f"enter contextmanager {fi.name}")
        outs = sub.exec_block(fi.node.body, [s])
        res = []
        for o in outs:
            pend = o.st.ts.pop(("pending", sub.frame), None)
            o.st.env = {k: v for k, v in o.st.env.items() if not k.startswith(sub.frame + ":")}
            if o.kind in ("normal", "return"):
                if pend is not None and pend[0] != "normal":
                    res.append(Out(pend[0], o.st, pend[1]))
                else:
                    res.append(Out("normal", o.st))
            else:
                res.append(o)
        return dedup(res)

    def is_generator(self, fi):
        from . import astq
        return any(isinstance(n, (ast.Yield, ast.YieldFrom)) for n in astq.walk_fn(fi.node))

    def exec_for_gen(self, stmt: ast.For, st: State):
        """`for T in g(...)` where g is an inlined repo generator: the generator body is interpreted and the loop body
        runs at each yield (so hoisting a loop into a generator helper, or inlining one, leaves the paths unchanged).
        None when the iterable is not such a call."""
        recv_free = stmt.iter.func
        q = None
        if isinstance(recv_free, ast.Name):
            q = self.m.resolve_local(self.module, recv_free.id)
        elif isinstance(recv_free, ast.Attribute) and isinstance(recv_free.value, ast.Name) and recv_free.value.id in ("self", "cls") and self.frame_has_self and self.self_cls:
            fi0 = self.m.find_method(self.self_cls, recv_free.attr)
            q = fi0.qual if fi0 else None
        if not q or q not in self.inline or q not in self.m.funcs or not self.is_generator(self.m.funcs[q]) or self.depth >= self.max_depth:
            return None
        prev = self._for_gen_node
        self._for_gen_node = stmt.iter
        try:
            vals, raises = self.eval(st, stmt.iter)
        finally:
            self._for_gen_node = prev
        if not vals or any(av.kind != "gen" for _, av in vals):
            return None
        outs = list(raises)
        for s0, gv in vals:
            qual, frame = gv.val
            fi = self.m.funcs[qual]
            sub = self.child(fi, frame, is_method=fi.cls is not None)
            sub.yield_body = ("for", self, stmt)
            for o in sub.exec_block(fi.node.body, [s0]):
                pend = o.st.ts.pop(("pending", sub.frame), None)
                o.st.env = {k: v for k, v in o.st.env.items() if not k.startswith(sub.frame + ":")}
                if o.kind in ("normal", "return"):
                    o.st.log(stmt, f"generator {fi.name} exhausted")
                    if stmt.orelse:
                        outs += self.exec_block(stmt.orelse, [o.st])
                    else:
                        outs.append(Out("normal", o.st))
                elif o.kind == "raise" and o.val.val == GEN_EXIT.val and pend is not None:
                    if pend[0] == "break":
                        self.rule.loop_break(self, stmt, o.st)
                        outs.append(Out("normal", o.st))
                    else:
                        outs.append(Out(pend[0], o.st, pend[1]))
                else:
                    outs.append(o)
        return dedup(outs)

    def exec_yield(self, stmt, st: State):
        if self.yield_body[0] == "for":
            _, outer, loop = self.yield_body
            ynode = stmt.value
            if isinstance(ynode, ast.YieldFrom):
                raise AnalysisError(f"`yield from` inside an inlined generator is not supported (line {stmt.lineno})")
            if ynode.value is not None:
                vals, raises = self.eval(st, ynode.value)
            else:
                vals, raises = [(st, const(None))], []
            outs = list(raises)
            for s, av in vals:
                s = s.copy()
                s.log(stmt, "yield -> loop body")
                outer.assign(s, loop.target, av)
                for o in outer.exec_block(loop.body, [s]):
                    if o.kind in ("normal", "continue"):
                        outs.append(Out("normal", o.st))
                    else:
                        o.st.ts[("pending", self.frame)] = (o.kind, o.val)
                        outs.append(Out("raise", o.st, GEN_EXIT))  # the consumer leaves the loop: the generator is closed at this yield
            return outs
        outer, body = self.yield_body
        outs = []
        for o in outer.exec_block(body, [st]):
            if o.kind == "raise":
                outs.append(o)  # thrown into the generator at the yield
            else:
                s = o.st
                s.ts[("pending", self.frame)] = (o.kind, o.val)
                outs.append(Out("normal", s))
        return outs

    def _unrolled_for(self, stmt, st: State):
        """`for x in <a short tuple of known constants>`: executed element by element (term-building rules only)."""
        if not (isinstance(stmt, ast.For) and not stmt.orelse and getattr(self.rule, "unroll_const_loops", False)):
            return None
        vals, raises = self.eval(st, stmt.iter)
        if len(vals) != 1 or raises:
            return None
        s0, itv = vals[0]
        if itv.kind == "tuple" and 0 < len(itv.val) <= 6 and all(x.kind == "const" for x in itv.val):
            elems = list(itv.val)
        elif itv.kind == "tuple" and 0 < len(itv.val) <= 6 and all(x.kind in ("const", "tuple") for x in itv.val) and any(x.kind == "tuple" for x in itv.val):
            elems = list(itv.val)  # a literal display of pairs written in the loop header: ((k1, v1), (k2, v2), ...)
        elif itv.kind == "const" and isinstance(itv.val, tuple) and 0 < len(itv.val) <= 6 and all(isinstance(x, (str, int, bytes)) for x in itv.val) and itv.sym is None:
            elems = [const(x) for x in itv.val]
        else:
            return None
        outs, cur, done = [], [s0], []
        for el in elems:
            nxt = []
            for s1 in cur:
                s2 = s1.copy()
                self.assign(s2, stmt.target, el)
                for o in self.exec_block(stmt.body, [s2]):
                    if o.kind in ("normal", "continue"):
                        nxt.append(o.st)
                    elif o.kind == "break":
                        done.append(o.st)
                    else:
                        outs.append(o)
            cur = nxt
        return dedup(outs + [Out("normal", e) for e in cur + done])

    def exec_loop(self, stmt, st: State):
        r_ = self._unrolled_for(stmt, st)
        if r_ is not None:
            return r_
        outs, exits = [], []
        seen, work = set(), [st]
        rounds = 0
        while work:
            rounds += 1
            if rounds > 400:
                raise AnalysisError(f"loop at line {stmt.lineno} did not reach a fixpoint in 400 rounds")
            s = work.pop()
            if s.key() in seen:
                continue
            seen.add(s.key())
            if isinstance(stmt, ast.While):
                if not self.rule.loop_enter(self, stmt, s):
                    continue
                res, raises = self.truth_fork(s, stmt.test)
                outs += raises
            else:
                vals, raises = self.eval(s, stmt.iter)
                outs += raises
                res = []
                for s2, itv in vals:
                    r = self.rule.for_iter(self, s2, stmt, itv)
                    if r is not None:
                        res += r
                        continue
                    if itv.kind == "list" and not itv.val:
                        res.append((s2.copy(), False))
                        continue
                    s3 = s2.copy()
                    self.assign(s3, stmt.target, UNK)
                    res.append((s3, True))
                    res.append((s2.copy(), False))
            for s2, b in res:
                if not b:
                    if stmt.orelse:
                        for o in self.exec_block(stmt.orelse, [s2]):
                            if o.kind == "normal":
                                exits.append(o.st)
                            else:
                                outs.append(o)
                    else:
                        exits.append(s2)
                    continue
                self._widen_accumulators(stmt, s2)
                for o in self.exec_block(stmt.body, [s2]):
                    if o.kind in ("normal", "continue"):
                        work.append(o.st)
                    elif o.kind == "break":
                        self.rule.loop_break(self, stmt, o.st)
                        exits.append(o.st)
                    else:
                        outs.append(o)
        outs += [Out("normal", e) for e in exits]
        return dedup(outs)

    def _widen_accumulators(self, stmt, st: State):
        """A loop body is interpreted for ONE generic iteration.  A numeric variable the body updates from its own value (a counter, a
        running sum) therefore holds an arbitrary value at the start of that iteration, not the literal it was initialised with:
        `n = 0; for x in xs: n += 1` leaves n unknown (0 only on the zero-iteration exit), never the constant 1."""
        names = getattr(stmt, "_sa_accs", None)
        if names is None:
            names = set()
            for b_ in stmt.body:
                for n_ in ast.walk(b_):
                    if isinstance(n_, ast.AugAssign) and isinstance(n_.target, ast.Name):
                        names.add(n_.target.id)
                    elif isinstance(n_, ast.Assign) and len(n_.targets) == 1 and isinstance(n_.targets[0], ast.Name) \
                            and any(isinstance(x_, ast.Name) and x_.id == n_.targets[0].id for x_ in ast.walk(n_.value)):
                        names.add(n_.targets[0].id)
            stmt._sa_accs = names
        for name in names:
            k = self.var(name)
            v = st.env.get(k)
            if v is not None and v.kind == "const" and isinstance(v.val, (int, float)) and not isinstance(v.val, bool):
                st.env[k] = AV("unk", sym=f"acc:{name}@{stmt.lineno}", none=False)

    def exec_try(self, stmt: ast.Try, st: State):
        body_outs = self.exec_block(stmt.body, [st])
        after = []
        for o in body_outs:
            if o.kind == "normal" and stmt.orelse:
                after += self.exec_block(stmt.orelse, [o.st])
            elif o.kind == "raise":
                after += self.dispatch(stmt, o)
            else:
                after.append(o)
        if not stmt.finalbody:
            return dedup(after)
        final = []
        for o in dedup(after):
            s = o.st.copy()
            s.log(stmt, f"finally (pending {o.kind}{' ' + str(o.val.val) if o.kind == 'raise' else ''})")
            for fo in self.exec_block(stmt.finalbody, [s]):
                if fo.kind == "normal":
                    final.append(Out(o.kind, fo.st, o.val))
                else:
                    final.append(fo)
        return dedup(final)

    def dispatch(self, stmt: ast.Try, o: Out):
        res, pending = [], [o.val]
        for h in stmt.handlers:
            classes = self.handler_classes(h)
            classes = self.rule.handler_classes(self, h, classes)
            nxt = []
            for ex in pending:
                for verdict, e2 in self.match(ex, classes):
                    if verdict == "caught":
                        s = o.st.copy()
                        s.log(h, f"caught {e2.val} by except {ast.unparse(h.type) if h.type else ''}"[:110])
                        if h.name and self.is_rel(h.name):
                            s.env[self.var(h.name)] = replace(e2, truth=True, none=False)
                        s.handling = s.handling + (e2,)
                        for ho in self.exec_block(h.body, [s]):
                            ho.st.handling = ho.st.handling[:-1] if ho.st.handling else ()
                            if h.name:
                                ho.st.env.pop(self.var(h.name), None)
                            res.append(ho)
                    else:
                        nxt.append(e2)
            pending = nxt
        for ex in pending:
            res.append(Out("raise", o.st, ex))
        return res


class BaseRule:
    namedtuple_as_tuple = True  # Cls(a, b) of a repository NamedTuple evaluates to the tuple of its fields (a rule that models the class itself turns it off)
    wants_subscript = False  # rule.subscript(it, st, node, base, parts, is_slice) composes non-dict subscripts
    model_asserts = False  # True: `assert t` is `if not t: raise AssertionError` (default: asserts are skipped)
    wants_compose = False  # rule.compose(it, st, node, [(child_node, av)...]) composes List/BinOp/JoinedStr/... values
    getattr_default_transparent = False  # True: getattr(x, "a", default) is x.a whenever the rule models attribute `a` of x (it is always present)

    def subscript(self, it, st, node, base, parts, is_slice):
        return None

    def compose(self, it, st, node, children):
        return None

    def term(self, op, *args):
        return f"{op}(" + ",".join(args) + ")"

    def global_value(self, it, name):
        return None

    def truth_as(self, it, st, node):
        """an expression whose truth is, by the object's protocol, the truth of `node` (None: no special meaning)"""
        return None

    def on_yield(self, it, stmt, av, outs):
        return outs

    def call(self, it, st, node, recv, pos, kw):
        return None

    def getattr(self, it, st, node, base):
        return None

    def getitem(self, it, st, node):
        return None

    def setattr(self, it, st, target, base, av):
        pass

    def setitem(self, it, st, target, av):
        pass

    def after_assign(self, it, st, stmt, av):
        pass

    def augassign(self, it, st, stmt, v):
        return None

    def delete(self, it, st, stmt):
        return None

    def compare(self, it, st, node, a, b):
        return None

    def isinstance(self, it, st, node, av, classes):
        return None

    def raise_value(self, it, st, stmt, av):
        return None

    def comprehension(self, it, st, node):
        return None

    def for_iter(self, it, st, stmt, itv):
        return None

    def loop_break(self, it, stmt, st):
        pass

    def unpack(self, it, st, av, n):
        """a, b = <value>: the n element values when the rule knows the structure of the value (e.g. a NamedTuple result it models
        as one object), else None"""
        return None

    def loop_enter(self, it, stmt, st):
        """called at the head of a `while` loop for each state reaching it; False abandons the path (bounded unrolling)"""
        return True

    def default_value(self, it, fi, p, d):
        return None

    def handler_classes(self, it, h, classes):
        return classes

    def atom_name(self, it, st, node):
        return ast.unparse(node)

    def with_stmt(self, it, stmt, st):
        cur, outs = [st], []
        for item in stmt.items:
            nxt = []
            for s in cur:
                vals, raises = it.eval(s, item.context_expr)
                outs += raises
                for s2, v in vals:
                    if item.optional_vars is not None:
                        s2 = s2.copy()
                        it.assign(s2, item.optional_vars, v)
                    nxt.append(s2)
            cur = nxt
        return outs + it.exec_block(stmt.body, cur)


def ok_out(st, node, val=UNK, log=None):
    s = st.copy()
    if log:
        s.log(node, log)
    return Out("normal", s, val)


def raise_out(st, node, ex, log=None):
    s = st.copy()
    s.log(node, log or f"raises {ex.val}")
    return Out("raise", s, ex)


def compute_relevant(funcs, is_event, obj_args=lambda call: []):
    """Names (locals 'x', attrs 'base.attr') whose value is correlated with rule events."""
    R = set()

    def names_in(expr):
        out = set()
        for n in ast.walk(expr):
            if isinstance(n, ast.Name):
                out.add(n.id)
            elif isinstance(n, ast.Attribute) and isinstance(n.value, ast.Name):
                out.add(f"{n.value.id}.{n.attr}")
        for n in ast.walk(expr):
            if isinstance(n, ast.Call):
                f = n.func
                if isinstance(f, ast.Name):
                    out.discard(f.id)
                elif isinstance(f, ast.Attribute) and isinstance(f.value, ast.Name):
                    out.discard(f"{f.value.id}.{f.attr}")
        out.discard("self")
        return out

    def tgt_names(t):
        if isinstance(t, ast.Name):
            return {t.id}
        if isinstance(t, ast.Attribute) and isinstance(t.value, ast.Name):
            return {f"{t.value.id}.{t.attr}"}
        if isinstance(t, (ast.Tuple, ast.List)):
            o = set()
            for e in t.elts:
                o |= tgt_names(e)
            return o
        return set()

    def region_hot(nodes):
        for r in nodes:
            for n in ast.walk(r):
                if isinstance(n, ast.Call) and is_event(n):
                    return True
                if isinstance(n, (ast.Assign, ast.AugAssign, ast.AnnAssign)):
                    ts = n.targets if isinstance(n, ast.Assign) else [n.target]
                    if any(tgt_names(t) & R for t in ts):
                        return True
        return False

    changed = True
    while changed:
        before = len(R)
        for fn in funcs:
            for n in ast.walk(fn):
                if isinstance(n, ast.Call) and is_event(n):
                    for a in obj_args(n):
                        R |= names_in(a)
                if isinstance(n, (ast.If, ast.While)) and region_hot(n.body + n.orelse):
                    R |= names_in(n.test)
                if isinstance(n, (ast.Assign, ast.AnnAssign)) and n.value is not None and any(tgt_names(t) & R for t in (n.targets if isinstance(n, ast.Assign) else [n.target])):
                    v = n.value
                    if isinstance(v, (ast.Name, ast.Attribute, ast.IfExp, ast.BoolOp, ast.UnaryOp, ast.Compare, ast.Tuple)):
                        R |= names_in(v)
                    elif isinstance(v, ast.Dict):
                        # a mapping display that is later splatted into an event call: its values are arguments of that call
                        for dv in v.values:
                            if isinstance(dv, (ast.Name, ast.Attribute, ast.IfExp, ast.BoolOp, ast.UnaryOp, ast.Compare)):
                                R |= names_in(dv)
                if isinstance(n, ast.Return) and n.value is not None and isinstance(n.value, (ast.BoolOp, ast.IfExp, ast.Name)):
                    R |= names_in(n.value)
        changed = len(R) != before
    return R
