"""E1 - program model.

Parses every module under <repo>/src/urllib3 (plus the running interpreter's
http/client.py as the "stdlib slice") into an index of modules, classes,
functions, imports and module-level assignments.  Nothing is imported or
executed from the repository: only `ast.parse` of its source text.
"""
from __future__ import annotations

import ast
import builtins
import importlib
import importlib.util
import os
import sys
from dataclasses import dataclass, field

PKG = "urllib3"


class AnalysisError(Exception):
    """An anchor vanished / an idiom is outside what a rule recognises.

    Never reported as a violation: the driver prints ANALYSIS-ERROR and exits 2.
    """


def repo_root() -> str:
    return os.environ.get("VERIF_REPO", "/repo")


@dataclass
class FuncInfo:
    qual: str  # module.Class.name or module.name
    module: str
    cls: str | None
    name: str
    node: ast.FunctionDef
    decorators: list = field(default_factory=list)

    @property
    def clsq(self):
        return f"{self.module}.{self.cls}" if self.cls else None

    def params(self, skip_self=True):
        a = self.node.args
        names = [x.arg for x in a.posonlyargs + a.args + a.kwonlyargs]
        if skip_self and self.cls and names and names[0] in ("self", "cls"):
            names = names[1:]
        return names

    def defaults(self):
        """param name -> default expr node"""
        a = self.node.args
        pos = a.posonlyargs + a.args
        out = {}
        if a.defaults:
            for p, d in zip(pos[-len(a.defaults):], a.defaults):
                out[p.arg] = d
        for p, d in zip(a.kwonlyargs, a.kw_defaults):
            if d is not None:
                out[p.arg] = d
        return out


@dataclass
class ClassInfo:
    qual: str
    module: str
    name: str
    node: ast.ClassDef
    bases: list
    methods: dict = field(default_factory=dict)
    attrs: dict = field(default_factory=dict)  # class-level assignments name -> stmt


def _normalise_idioms(tree, path):
    """Front-end normalisation of standard-library spellings that are *defined* as another call:
         q.put_nowait(x)  is  q.put(x, block=False)      (queue.Queue.put_nowait is `return self.put(item, block=False)`)
         q.get_nowait()   is  q.get(block=False)
    so that every rule sees one spelling.  Refused (analysis error) if the repository defines a method of that name itself."""
    for n in ast.walk(tree):
        if isinstance(n, (ast.FunctionDef, ast.AsyncFunctionDef)) and n.name in ("put_nowait", "get_nowait"):
            raise AnalysisError(f"{path}:{n.lineno}: the repository defines `{n.name}`; the put_nowait/get_nowait normalisation no longer applies")
        if (isinstance(n, ast.Call) and isinstance(n.func, ast.Attribute) and n.func.attr in ("put_nowait", "get_nowait")
                and not n.keywords and not any(isinstance(a, ast.Starred) for a in n.args)
                and len(n.args) == (1 if n.func.attr == "put_nowait" else 0)):
            n.func.attr = n.func.attr[:3]
            kw = ast.keyword("block", ast.Constant(False))
            ast.copy_location(kw, n)
            ast.copy_location(kw.value, n)
            kw.end_lineno = kw.value.end_lineno = getattr(n, "end_lineno", n.lineno)
            kw.end_col_offset = kw.value.end_col_offset = getattr(n, "end_col_offset", n.col_offset)
            n.keywords = [kw]


class Model:
    def __init__(self, repo: str | None = None, stdlib: bool = True):
        self.repo = repo or repo_root()
        self.modules: dict[str, ast.Module] = {}
        self.paths: dict[str, str] = {}
        self.sources: dict[str, str] = {}
        self.imports: dict[str, dict[str, str]] = {}
        self.assigns: dict[str, dict[str, list]] = {}  # module -> name -> [stmt, ...]
        self.classes: dict[str, ClassInfo] = {}
        self.funcs: dict[str, FuncInfo] = {}
        self.pruned: list = []
        self._load(stdlib)

    # ------------------------------------------------------------------ load
    def _add_module(self, name, path):
        with open(path, encoding="utf-8") as fh:
            src = fh.read()
        try:
            tree = ast.parse(src, path)
        except SyntaxError as e:  # a tree that does not compile is not analysable
            raise AnalysisError(f"cannot parse {path}: {e}")
        if name.split(".")[0] == PKG:
            _normalise_idioms(tree, path)
        for n in ast.walk(tree):
            for c in ast.iter_child_nodes(n):
                c._parent = n
        for n in ast.walk(tree):
            n._module = name
        self.modules[name] = tree
        self.paths[name] = path
        self.sources[name] = src

    def _load(self, stdlib):
        root = os.path.join(self.repo, "src", PKG)
        if not os.path.isdir(root):
            raise AnalysisError(f"no package at {root}")
        for dp, dn, fn in sorted(os.walk(root)):
            dn.sort()
            for f in sorted(fn):
                if not f.endswith(".py"):
                    continue
                p = os.path.join(dp, f)
                rel = os.path.relpath(p, os.path.join(self.repo, "src"))[:-3].replace(os.sep, ".")
                if rel.endswith(".__init__"):
                    rel = rel[:-9]
                self._add_module(rel, p)
        if stdlib:
            import http.client as _hc

            self._add_module("http.client", _hc.__file__)
        for m, tree in self.modules.items():
            self._index_module(m, tree)
        for c in self.classes.values():
            c.bases = [self.resolve_name(c.module, b) for b in c.node.bases]

    def _abs_import(self, module, level, name):
        if level == 0:
            return name
        parts = module.split(".")
        is_pkg = self.paths[module].endswith("__init__.py")
        base = parts if is_pkg else parts[:-1]
        base = base[: len(base) - (level - 1)]
        return ".".join(base + ([name] if name else []))

    def _index_module(self, m, tree):
        imp = self.imports.setdefault(m, {})
        asg = self.assigns.setdefault(m, {})

        def visit_body(body, cls=None):
            for n in body:
                if isinstance(n, ast.Import):
                    for a in n.names:
                        if a.asname:
                            imp[a.asname] = a.name
                        else:
                            imp[a.name.split(".")[0]] = a.name.split(".")[0]
                elif isinstance(n, ast.ImportFrom):
                    base = self._abs_import(m, n.level, n.module or "")
                    for a in n.names:
                        imp[a.asname or a.name] = f"{base}.{a.name}"
                elif isinstance(n, (ast.FunctionDef, ast.AsyncFunctionDef)):
                    q = f"{m}.{cls}.{n.name}" if cls else f"{m}.{n.name}"
                    fi = FuncInfo(q, m, cls, n.name, n, [ast.unparse(d) for d in n.decorator_list])
                    if any("overload" in d for d in fi.decorators):
                        continue
                    if any(d.endswith(".setter") for d in fi.decorators):
                        fi.qual = q + "@setter"
                        self.funcs[fi.qual] = fi
                        if cls:
                            self.classes[f"{m}.{cls}"].methods[n.name + "@setter"] = fi
                        continue
                    self.funcs[q] = fi
                    if cls:
                        self.classes[f"{m}.{cls}"].methods[n.name] = fi
                elif isinstance(n, ast.ClassDef) and cls is None:
                    ci = ClassInfo(f"{m}.{n.name}", m, n.name, n, [])
                    self.classes[ci.qual] = ci
                    visit_body(n.body, n.name)
                elif isinstance(n, (ast.Assign, ast.AnnAssign, ast.AugAssign)):
                    tgts = n.targets if isinstance(n, ast.Assign) else [n.target]
                    for t in tgts:
                        for nm in ([t] if isinstance(t, ast.Name) else (t.elts if isinstance(t, ast.Tuple) else [])):
                            if isinstance(nm, ast.Name):
                                if cls:
                                    self.classes[f"{m}.{cls}"].attrs[nm.id] = n
                                else:
                                    asg.setdefault(nm.id, []).append(n)
                elif isinstance(n, ast.If):
                    t = ast.unparse(n.test)
                    ok = None
                    if "sys.version_info" in t:
                        try:
                            ok = bool(eval(t, {"sys": sys, "__builtins__": {}}))
                        except Exception:
                            ok = None
                    elif t in ("typing.TYPE_CHECKING", "TYPE_CHECKING"):
                        # type-only imports are useful for name resolution; keep, but record
                        ok = None
                    if ok is True:
                        self.pruned.append((m, n.lineno, f"else-branch of `{t}` (true on this interpreter)"))
                        visit_body(n.body, cls)
                    elif ok is False:
                        self.pruned.append((m, n.lineno, f"body of `{t}` (false on this interpreter)"))
                        for s in n.body:
                            for w in ast.walk(s):
                                w._pruned = True
                        visit_body(n.orelse, cls)
                    else:
                        visit_body(n.body, cls)
                        visit_body(n.orelse, cls)
                elif isinstance(n, ast.Try):
                    visit_body(n.body, cls)
                    live = n.handlers
                    if n.handlers and all(
                        h.type is not None and "ImportError" in ast.unparse(h.type) for h in n.handlers
                    ):
                        mods = []
                        for s_ in n.body:
                            for w in ast.walk(s_):
                                if isinstance(w, ast.Import):
                                    mods += [a.name for a in w.names]
                                elif isinstance(w, ast.ImportFrom) and w.level == 0:
                                    mods.append(w.module)

                        def _ok(x):
                            try:
                                return importlib.util.find_spec(x) is not None
                            except Exception:
                                return False

                        only_imports = all(
                            isinstance(s_, (ast.Import, ast.ImportFrom))
                            or (isinstance(s_, ast.Assign) and isinstance(s_.value, (ast.Name, ast.Attribute)))
                            for s_ in n.body
                        )
                        if mods and only_imports and all(_ok(x) for x in mods):
                            live = []
                            self.pruned.append((m, n.lineno, "except ImportError (imports available)"))
                    for h in live:
                        visit_body(h.body, cls)
                    visit_body(n.orelse, cls)
                    visit_body(n.finalbody, cls)
                elif isinstance(n, (ast.With, ast.For, ast.While)):
                    visit_body(n.body, cls)

        visit_body(tree.body)

    # ---------------------------------------------------------- name resolution
    def namedtuple_fields(self, cls_q):
        """field names of a typing.NamedTuple class of the repository (None otherwise)"""
        ci = self.classes.get(cls_q or "")
        if ci is None:
            return None
        if not any("NamedTuple" in ast.unparse(b) for b in ci.node.bases):
            return None
        return [n.target.id for n in ci.node.body if isinstance(n, ast.AnnAssign) and isinstance(n.target, ast.Name)] or None

    def returned_namedtuple_fields(self, func_q):
        """fields of the NamedTuple class a repository function is annotated to return (None otherwise)"""
        fi = self.funcs.get(func_q or "")
        if fi is None or fi.node.returns is None:
            return None
        q = self.resolve_name(fi.module, fi.node.returns) if isinstance(fi.node.returns, (ast.Name, ast.Attribute)) else None
        return self.namedtuple_fields(q)

    def resolve_name(self, module, node):
        """Resolve Name / Attribute chain in module scope to a qualified name (or None)."""
        if isinstance(node, ast.Subscript):
            node = node.value
        if isinstance(node, ast.Name):
            return self.resolve_local(module, node.id)
        if isinstance(node, ast.Attribute):
            base = self.resolve_name(module, node.value)
            if base is None:
                return None
            return self.canon(f"{base}.{node.attr}")
        return None

    def resolve_local(self, module, name, _depth=0):
        if f"{module}.{name}" in self.classes or f"{module}.{name}" in self.funcs:
            return f"{module}.{name}"
        imp = self.imports.get(module, {})
        if name in imp and imp[name]:
            return self.canon(imp[name])
        assigns = self.assigns.get(module, {})
        if name in assigns and _depth < 6:
            v = getattr(assigns[name][-1], "value", None)
            if isinstance(v, (ast.Name, ast.Attribute)) and not (isinstance(v, ast.Name) and v.id == name):
                r = self.resolve_name(module, v)
                if r:
                    return r
            return f"{module}.{name}"
        if hasattr(builtins, name):
            return f"builtins.{name}"
        return None

    def canon(self, q, depth=0):
        """Follow re-exports: a.b.c where module a.b imports/aliases c from elsewhere."""
        if q in self.classes or q in self.funcs or depth > 6:
            return q
        mod, _, leaf = q.rpartition(".")
        if mod in self.modules:
            if leaf in self.imports.get(mod, {}) or leaf in self.assigns.get(mod, {}):
                r = self.resolve_local(mod, leaf, depth + 1)
                if r and r != q:
                    return self.canon(r, depth + 1)
        return q

    # ---------------------------------------------------------- class lattice
    def mro(self, q):
        out = [q]
        c = self.classes.get(q)
        if c:
            for b in c.bases:
                if b:
                    for x in self.mro(b):
                        if x not in out:
                            out.append(x)
        else:
            pc = self.pyclass(q)
            if pc is not None:
                for k in pc.__mro__[1:]:
                    out.append(f"{k.__module__}.{k.__qualname__}")
        return out

    _pyc: dict = {}

    def pyclass(self, q):
        """Platform class for an external (stdlib / builtins) qualified name."""
        if q is None or q.startswith(PKG + "."):
            return None
        if q in Model._pyc:
            return Model._pyc[q]
        mod, _, leaf = q.rpartition(".")
        k = None
        if mod in ("builtins", "socket", "ssl", "queue", "http.client", "zlib", "errno", "io", "threading", "select"):
            try:
                mm = importlib.import_module(mod)
                k = getattr(mm, leaf, None)
                if not isinstance(k, type):
                    k = None
            except Exception:
                k = None
        Model._pyc[q] = k
        return k

    def norm(self, q):
        pc = self.pyclass(q)
        if pc is not None:
            return f"{pc.__module__}.{pc.__qualname__}"
        return q

    def issub(self, a, b):
        if a is None or b is None:
            return False
        a, b = self.norm(a), self.norm(b)
        if a == b:
            return True
        return b in [self.norm(x) for x in self.mro(a)]

    def is_exception_class(self, q):
        if q in self.classes:
            return self.issub(q, "builtins.BaseException")
        pc = self.pyclass(q)
        return pc is not None and issubclass(pc, BaseException)

    def find_method(self, clsq, name):
        for k in self.mro(clsq):
            c = self.classes.get(k)
            if c and name in c.methods:
                return c.methods[name]
        return None

    def find_class_attr(self, clsq, name):
        for k in self.mro(clsq):
            c = self.classes.get(k)
            if c and name in c.attrs:
                return c, c.attrs[name]
        return None, None

    def subclasses(self, clsq):
        return [c for c in self.classes if self.issub(c, clsq)]

    # ---------------------------------------------------------- anchors
    def func(self, qual) -> FuncInfo:
        if qual not in self.funcs:
            raise AnalysisError(f"anchor function {qual} not found")
        return self.funcs[qual]

    def cls(self, qual) -> ClassInfo:
        if qual not in self.classes:
            raise AnalysisError(f"anchor class {qual} not found")
        return self.classes[qual]

    def method(self, clsq, name) -> FuncInfo:
        fi = self.find_method(clsq, name)
        if fi is None:
            raise AnalysisError(f"anchor method {clsq}.{name} not found")
        return fi

    def relpath(self, module):
        p = self.paths[module]
        if p.startswith(self.repo):
            return os.path.relpath(p, self.repo)
        return p

    def loc(self, node, module=None):
        module = module or getattr(node, "_module", None)
        return f"{self.relpath(module) if module else '?'}:{getattr(node, 'lineno', 0)}"

    def repo_modules(self):
        return [m for m in self.modules if m.startswith(PKG)]

    def repo_funcs(self):
        return [f for f in self.funcs.values() if f.module.startswith(PKG)]


def enclosing_function(node):
    n = getattr(node, "_parent", None)
    while n is not None and not isinstance(n, (ast.FunctionDef, ast.AsyncFunctionDef)):
        n = getattr(n, "_parent", None)
    return n


def norm_text(node) -> str:
    """Normalised statement/expression text: no line numbers, comments or layout."""
    try:
        return ast.unparse(node)
    except Exception:
        return type(node).__name__


if __name__ == "__main__":
    m = Model()
    print(len(m.modules), "modules", len(m.classes), "classes", len(m.funcs), "funcs")
    print(m.pruned)
    print(m.mro("urllib3.exceptions.ReadTimeoutError"))
    print(m.mro("urllib3.connection.HTTPSConnection")[:5])
    for t in ("BaseSSLError", "SocketTimeout", "queue.Empty", "HTTPException"):
        print(t, "->", m.resolve_name("urllib3.connectionpool", ast.parse(t).body[0].value))
