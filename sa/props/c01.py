"""C01 - a pool never loses, duplicates or leaks connection slots, whatever the outcome."""
from __future__ import annotations

import ast

from .. import astq
from ..interp import (AV, BASE_TOP, EXT_TOP, RESEND, UNK, BaseRule, Budget, Interp, Out, State, compute_relevant, const,
                      exc, ext_top_except, obj, ok_out, raise_out, unk)
from ..model import AnalysisError

CP = "urllib3.connectionpool"
RS = "urllib3.response"
CN = "urllib3.connection"


# --------------------------------------------------------------------------- discovery
def queue_field(m, cls=f"{CP}.HTTPConnectionPool"):
    """The self.<f> assigned from self.QueueCls(...) in the pool constructor."""
    init = m.method(cls, "__init__")
    for n in astq.walk_fn(init.node):
        if isinstance(n, (ast.Assign, ast.AnnAssign)) and n.value is not None and isinstance(n.value, ast.Call) \
                and astq.call_text(n.value) == "self.QueueCls":
            t = n.targets[0] if isinstance(n, ast.Assign) else n.target
            if astq.is_self_attr(t):
                return t.attr
    # built in a local first and stored afterwards
    locals_ = set(astq.assigned_from(init.node, lambda v: isinstance(v, ast.Call) and astq.call_text(v) == "self.QueueCls"))
    for n in astq.walk_fn(init.node):
        if isinstance(n, (ast.Assign, ast.AnnAssign)) and isinstance(n.value, ast.Name) and n.value.id in locals_:
            t = n.targets[0] if isinstance(n, ast.Assign) else n.target
            if astq.is_self_attr(t):
                return t.attr
    raise AnalysisError("queue field not found: no `self.<f> = self.QueueCls(...)` in the pool constructor")


def queue_aliases(fn_node, qf):
    """Local names bound to self.<qf> in this function."""
    out = set()
    for n in astq.walk_fn(fn_node):
        if isinstance(n, ast.Assign):
            for t in n.targets:
                if isinstance(t, ast.Name) and astq.is_self_attr(n.value, qf):
                    out.add(t.id)
                if isinstance(t, ast.Tuple) and isinstance(n.value, ast.Tuple) and len(t.elts) == len(n.value.elts):
                    for a, b in zip(t.elts, n.value.elts):
                        if isinstance(a, ast.Name) and astq.is_self_attr(b, qf):
                            out.add(a.id)
        # the other direction: a local that is stored into the field (`q = self.QueueCls(n); self.<qf> = q`) names the same object
        if isinstance(n, (ast.Assign, ast.AnnAssign)) and n.value is not None and isinstance(n.value, ast.Name):
            tg = n.targets if isinstance(n, ast.Assign) else [n.target]
            if any(astq.is_self_attr(t, qf) for t in tg):
                out.add(n.value.id)
    return out


def is_queue_call(call, qf, aliases, names=("get", "put")):
    f = call.func
    if not (isinstance(f, ast.Attribute) and f.attr in names):
        return False
    return astq.is_self_attr(f.value, qf) or (isinstance(f.value, ast.Name) and f.value.id in aliases)


# --------------------------------------------------------------------------- R1: lease typestate
class LeaseRule(BaseRule):
    def __init__(self, qf):
        self.qf = qf
        self.violations = []  # (rule, text, state, node)
        self.events = {"take": 0, "give": 0, "new": 0, "request": 0, "resend": 0}

    def viol(self, rule, st, node, text):
        self.violations.append((rule, text, st, node))

    def block_truth(self, it, st):
        v = st.heap.get(("self", "block"))
        if v is None:
            v = AV("unk", sym="field:self.block")
        return st.view(v).truth

    def getattr(self, it, st, node, base):
        if base.kind == "self" and node.attr == self.qf:
            v = st.heap.get(("self", self.qf))
            if v is not None:
                return v
            return AV("unk", sym="queue", tags=frozenset({"queue"}))
        return None

    def call(self, it, st, node, recv, pos, kw):
        f = node.func
        if isinstance(f, ast.Attribute) and recv is not None and "queue" in recv.tags and f.attr in ("get", "put", "qsize"):
            recv = st.view(recv)
            if recv.none is True:
                s = st.copy()
                s.log(node, f"queue.{f.attr} on None -> AttributeError")
                it.mark_fault(s, f"queue.{f.attr} on closed pool")
                if f.attr == "put":
                    x = pos[0] if pos else UNK
                    s.ts["lease"] = "pool-closed" if s.ts.get("lease", "none") == "taken" else s.ts.get("lease", "none")
                    s.ts["must_close"] = x.val if x.kind == "obj" else None
                return [Out("raise", s, exc("builtins.AttributeError"))]
            if f.attr == "qsize":
                # unguarded use of the shared field: a concurrent close() may have cleared it
                outs = [ok_out(st, node, UNK)]
                if recv.none is None and recv.sym == "queue" and st.facts.get("queue", (None, None))[1] is None:
                    outs.append(raise_out(st, node, exc("builtins.AttributeError"), "queue.qsize -> AttributeError (pool closed concurrently)"))
                return outs
            if f.attr == "get":
                self.events["take"] += 1
                outs = []
                s = st.copy()
                s.ts["lease"] = "taken"
                s.ts[("have", "pooled")] = True
                s.log(node, "TAKE ok")
                outs.append(Out("normal", s, AV("obj", "pooled", typ=f"{CN}.HTTPConnection", sym="obj:pooled")))
                s = st.copy()
                s.ts["lease"] = "empty"
                s.log(node, "TAKE raises queue.Empty")
                it.mark_fault(s, "TAKE raises queue.Empty")
                outs.append(Out("raise", s, exc("queue.Empty")))
                s = st.copy()
                s.heap[("self", self.qf)] = const(None)
                s.log(node, "TAKE raises AttributeError (pool closed)")
                it.mark_fault(s, "TAKE raises AttributeError")
                outs.append(Out("raise", s, exc("builtins.AttributeError")))
                s = st.copy()
                s.log(node, "TAKE interrupted")
                it.mark_fault(s, "TAKE interrupted or failed")
                outs.append(Out("raise", s, BASE_TOP))
                s = st.copy()
                s.log(node, "TAKE raises <external-exception>")
                it.mark_fault(s, "TAKE interrupted or failed")
                outs.append(Out("raise", s, ext_top_except("queue.Empty", "builtins.AttributeError")))
                return outs
            if f.attr == "put":
                self.events["give"] += 1
                x = st.view(pos[0]) if pos else UNK
                lease = st.ts.get("lease", "none")
                # a non-blocking pool that found the queue empty may legally offer its overflow
                # connection / a placeholder (the queue's maxsize bounds it); a blocking one may not
                if lease == "none" or (lease == "empty" and self.block_truth(it, st) is not False):
                    self.viol("C01-R1b", st, node, f"a placeholder/connection is put back although no slot was taken on this path (lease={lease})")
                if lease == "returned":
                    self.viol("C01-R1c", st, node, "second put on one path (slot returned twice)")
                if x.kind == "obj" and x.truth is not False:
                    cs = st.ts.get(("conn", x.val), "live")
                    if cs != "closed" and st.ts.get("exchange") != "ok":
                        self.viol("C01-R1d", st, node, f"live connection {x.val} returned to the pool without a cleanly completed exchange")
                outs = []
                s = st.copy()
                s.ts["lease"] = "returned"
                s.log(node, f"GIVE ok ({'None' if x.none else x.val})")
                if x.kind == "obj":
                    s.ts[("enq", x.val)] = True
                outs.append(Out("normal", s, const(None)))
                s = st.copy()
                s.ts["lease"] = "dropped"
                s.ts["must_close"] = x.val if x.kind == "obj" and x.truth is not False else None
                s.log(node, "GIVE raises queue.Full")
                it.mark_fault(s, "GIVE raises queue.Full")
                outs.append(Out("raise", s, exc("queue.Full")))
                s = st.copy()
                s.ts["lease"] = "pool-closed"
                s.ts["must_close"] = x.val if x.kind == "obj" and x.truth is not False else None
                s.heap[("self", self.qf)] = const(None)
                s.log(node, "GIVE raises AttributeError (pool closed)")
                it.mark_fault(s, "GIVE raises AttributeError")
                outs.append(Out("raise", s, exc("builtins.AttributeError")))
                return outs
        if isinstance(f, ast.Attribute) and f.attr == "close" and recv is not None and recv.kind == "obj":
            s = st.copy()
            s.ts[("conn", recv.val)] = "closed"
            s.log(node, f"close {recv.val}")
            return [Out("normal", s, const(None))]
        if isinstance(f, ast.Attribute) and recv is not None and recv.kind == "obj" and st.ts.get(("enq", recv.val)) \
                and recv.val in ("pooled", "fresh"):
            self.viol("C01-R1e", st, node, f"method {f.attr}() called on connection {recv.val} after it was given back to the pool")
        if isinstance(f, ast.Attribute) and f.attr == "_new_conn" and recv is not None and recv.kind == "self":
            self.events["new"] += 1
            outs = []
            s = st.copy()
            s.log(node, "_new_conn ok")
            s.ts[("have", "fresh")] = True
            lease = s.ts.get("lease", "none")
            if lease == "empty":
                s.ts["lease"] = "overflow"
                if self.block_truth(it, st) is not False:
                    self.viol("C01-R3", st, node, "a connection is created without a slot although block may be true")
            elif lease == "none":
                self.viol("C01-R3", st, node, "a connection is created on a path where the queue was never asked for a slot")
            outs.append(Out("normal", s, AV("obj", "fresh", truth=True, none=False, typ=f"{CN}.HTTPConnection")))
            for e in (EXT_TOP, BASE_TOP):
                s = st.copy()
                s.log(node, f"_new_conn raises {e.val}")
                it.mark_fault(s, "call self._new_conn")
                outs.append(Out("raise", s, e))
            return outs
        if isinstance(f, ast.Attribute) and f.attr == "urlopen" and recv is not None and recv.kind == "self":
            self.events["resend"] += 1
            s = st.copy()
            s.log(node, "RESEND (recursive urlopen)")
            return [Out("raise", s, RESEND)]
        if isinstance(f, ast.Attribute) and f.attr == "_make_request" and recv is not None and recv.kind == "self":
            self.events["request"] += 1
            outs = it.default_call(st, node, recv, pos, kw)
            for o in outs:
                if o.kind == "normal":
                    o.st.ts["exchange"] = "ok"
                    rc = kw.get("response_conn")
                    if rc is not None:
                        rc = o.st.view(rc)
                        if rc.kind == "obj":
                            o.st.ts["handed"] = rc.val
            return outs
        return None


def _hot_methods(m, cls, qf, roots=("urlopen",)):
    meths = {}
    for k in m.mro(cls):
        c = m.classes.get(k)
        if c and c.module.startswith("urllib3"):
            for n_, f_ in c.methods.items():
                meths.setdefault(n_, f_)

    def direct(fn):
        al = queue_aliases(fn, qf)
        if any(is_queue_call(c, qf, al) for c in astq.calls(fn)):
            return True
        # a helper that disposes of a connection it is given (`def _discard(conn): if conn: conn.close()`) carries a lease event too
        params = {a.arg for a in fn.args.posonlyargs + fn.args.args + fn.args.kwonlyargs} - {"self", "cls"}
        return fn.name.startswith("_") and not fn.name.startswith("__") and any(
            isinstance(c.func, ast.Attribute) and c.func.attr == "close" and isinstance(c.func.value, ast.Name) and c.func.value.id in params for c in astq.calls(fn))

    hot = {n_ for n_, f_ in meths.items() if direct(f_.node)}
    changed = True
    while changed:
        changed = False
        for n_, f_ in meths.items():
            if n_ in hot or n_ in roots:
                continue
            for c_ in astq.calls(f_.node):
                if isinstance(c_.func, ast.Attribute) and isinstance(c_.func.value, ast.Name) and c_.func.value.id == "self" and c_.func.attr in hot:
                    hot.add(n_)
                    changed = True
                    break
    hot -= {"__init__", "close", "__exit__"} | set(roots)
    # module-level helpers of the same kind (`def _close_if_set(conn): if conn: conn.close()`) are interpreted in place as well
    mods = {f_.module for f_ in meths.values()}
    _hot_methods.functions = {q_ for q_, f_ in m.funcs.items() if f_.cls is None and f_.module in mods and direct(f_.node)}
    return meths, hot


def lease_analysis(ctx, cls):
    m = ctx.model
    qf = queue_field(m)
    rule = LeaseRule(qf)
    fi = m.method(cls, "urlopen")
    meths, hot = _hot_methods(m, cls, qf)
    if not hot:
        raise AnalysisError("no method with a queue event is reachable from urlopen")
    inline = {meths[n_].qual for n_ in hot} | set(_hot_methods.functions)
    it = Interp(m, rule, cls, fi.module, inline, budget=Budget(1500000))
    it.func_qual = fi.qual
    it.track_faults = True
    fns = [fi.node] + [m.funcs[q].node for q in inline]
    aliases = set()
    for fn in fns:
        aliases |= queue_aliases(fn, qf)

    def is_event(n):
        f = n.func
        return isinstance(f, ast.Attribute) and (is_queue_call(n, qf, aliases) or f.attr in ({"close", "_new_conn", "_make_request"} | hot))

    def obj_args(n):
        f = n.func
        out = []
        if f.attr == "close":
            out.append(f.value)
        if is_queue_call(n, qf, aliases):
            out.append(f.value)
            out += n.args[:1]
        if f.attr in hot:
            out += n.args[:1]
        if f.attr == "_make_request":
            out += n.args[:1] + [k.value for k in n.keywords if k.arg == "response_conn" or k.arg is None]  # (a **mapping may carry response_conn)
        return out

    it.relevant = compute_relevant(fns, is_event, obj_args) | {"self.block"}
    st = State()
    for a in fi.node.args.args[1:] + fi.node.args.kwonlyargs:
        st.env[it.var(a.arg)] = AV("unk", sym=f"param:{a.arg}")
    outs = it.exec_block(fi.node.body, [st])
    ctx.states += it.budget.steps
    return rule, it, fi, outs, sorted(hot)


def _sig(path_events):
    """Rule-relevant signature of a witness path: the first fault and the give that went wrong."""
    faults = [e for e in path_events if " raises " in e or e.startswith(("raise ", "TAKE raises", "TAKE interrupted", "GIVE raises", "_new_conn raises")) or "AttributeError" in e]
    first = faults[0] if faults else "no-fault"
    # strip callee line noise
    return first.replace("-> ", "")


def run_lease(ctx, cls):
    R = "C01-R1"
    rule, it, fi, outs, hot = lease_analysis(ctx, cls)
    short = cls.rsplit(".", 1)[1]
    ctx.extra.setdefault("lease", {})[short] = {
        "exits": len(outs), "interpreter_steps": it.budget.steps, "inlined_by_event_reachability": hot,
        "relevant_names_discovered": sorted(it.relevant), "events": dict(rule.events)}
    for k, minimum in (("take", 1), ("give", 1), ("new", 1), ("request", 1), ("resend", 1)):
        if rule.events[k] < minimum:
            raise AnalysisError(f"C01-R1: no `{k}` event was met while interpreting {fi.qual} for {cls}")
    groups = {}
    for o in outs:
        lease = o.st.ts.get("lease", "none")
        kind = o.kind + (":" + str(o.val.val).rsplit(".", 1)[-1] if o.kind == "raise" else "")
        handed = o.st.ts.get("handed")
        v = []
        for L in ("pooled", "fresh"):
            if o.st.ts.get(("have", L)) and o.st.ts.get(("conn", L)) != "closed" and not o.st.ts.get(("enq", L)) and handed != L:
                t = o.st.facts.get("obj:pooled", (None, None))[0] if L == "pooled" else True
                if t is not False:
                    v.append(("C01-R1f", f"exit {kind}: connection {L} is neither enqueued, closed nor handed to a response"))
        if handed is not None and (o.st.ts.get(("enq", handed)) or lease in ("returned", "dropped", "pool-closed")):
            v.append(("C01-R1g", f"exit {kind}: connection {handed} was given back to the pool and is also handed to the response (it would be released twice / used by two requests)"))
        mc = o.st.ts.get("must_close")
        if lease in ("dropped", "pool-closed") and mc and o.st.ts.get(("conn", mc)) != "closed":
            v.append(("C01-R2", f"exit {kind}: connection {mc} was refused by the queue and never closed"))
        if lease == "taken" and handed is None:
            v.append(("C01-R1a", f"exit {kind}: slot taken and neither returned nor handed to a response"))
        for r, text in v:
            rule.violations.append((r, text, o.st, fi.node))
        groups.setdefault((kind, lease, handed is not None), []).append(o)
    # obligations: one per exit class
    vio_by_state = {}
    for r, text, st, node in rule.violations:
        vio_by_state.setdefault(id(st), []).append((r, text))
    for (kind, lease, handed), lst in sorted(groups.items(), key=str):
        ctx.ob(R, fi.qual, f"[{short}] exit class kind={kind} lease={lease} handed={handed}", True,
               f"{len(lst)} abstract exits; slot accounting consistent", nontrivial=True)
    # violations grouped by signature
    sigs = {}
    for r, text, st, node in rule.violations:
        sig = st.ts.get("fault0", "no-fault")
        sigs.setdefault((r, sig), []).append((text, st, node))
    for (r, sig), lst in sorted(sigs.items()):
        text, st, node = min(lst, key=lambda x: len(x[1].path()))
        ctx.ob(r, fi.qual, f"path[{sig}]", False, f"[self is {short}] {text} ({len(lst)} abstract paths)", witness=st.witness(), node=node)
    return rule


# --------------------------------------------------------------------------- main
def run(ctx):
    m = ctx.model
    ctx.assume("A1", "A2", "A3", "A4", "A5")
    ctx.decline("restoration of N slots after a *sequence* of requests follows by induction from the per-request rule (stated, not checked)")
    ctx.decline("socket-level 'closed' is taken to be close() having been called")
    ctx.rule("C01-R1", "lease typestate on every path of urlopen incl. every exceptional edge: no leak (a), no duplicate (b), no double give (c), clean-or-closed at give (d), no use after give (e), no abandoned socket (f)", "E4 abstract interpretation with helpers inlined by event reachability")
    ctx.rule("C01-R1a", "no exit keeps a slot that was neither returned nor handed to the response", "E4")
    ctx.rule("C01-R1b", "nothing is put into the queue on a path that took no slot", "E4")
    ctx.rule("C01-R1c", "no path gives twice", "E4")
    ctx.rule("C01-R1d", "a live connection re-enters the queue only after a cleanly completed exchange", "E4")
    ctx.rule("C01-R1e", "no method call on a connection after it was given back", "E4")
    ctx.rule("C01-R1f", "every connection obtained on a path is enqueued, closed or handed over at exit", "E4")
    ctx.rule("C01-R1g", "a connection is never both given back and handed to the response", "E4")
    ctx.rule("C01-R2", "a connection refused by the queue (Full / closed pool) is closed", "E4")
    ctx.rule("C01-R3", "a connection is created without a slot only when block is false", "E4")
    classes = [f"{CP}.HTTPConnectionPool", f"{CP}.HTTPSConnectionPool"]
    for cls in classes:
        run_lease(ctx, cls)
    from . import c01_more

    c01_more.run(ctx)


def run_thorough(ctx):
    """Thorough tier: the lease automaton for every other concrete pool class in the package (SOCKS pools, ...)."""
    m = ctx.model
    done = {f"{CP}.HTTPConnectionPool", f"{CP}.HTTPSConnectionPool"}
    for c in m.subclasses(f"{CP}.HTTPConnectionPool"):
        if c not in done:
            run_lease(ctx, c)
