"""C01 rules R4-R11 (response side, translation coverage, interrupts, close)."""
from __future__ import annotations

import ast

from .. import astq
from ..events import EventRule, evs, outcome_name, run_function
from ..interp import AV, BASE_TOP, EXT_TOP, RESEND, UNK, BaseRule, Out, const, exc, obj, ok_out, raise_out, unk
from ..model import AnalysisError
from ..rows import helper_closure

CP = "urllib3.connectionpool"
RS = "urllib3.response"
CN = "urllib3.connection"
HTTPERR = "urllib3.exceptions.HTTPError"

# low-level roots a request step can raise (frozen from reading, one reason each)
ROOTS = {
    "builtins.OSError": "socket errors incl. ConnectionError, socket.timeout (an OSError since 3.10)",
    "ssl.SSLError": "TLS handshake / record errors (an OSError subclass, listed for the dedicated SSLError translation)",
    "urllib3.util.ssl_match_hostname.CertificateError": "hostname mismatch raised by urllib3's matcher (a ValueError)",
    "http.client.HTTPException": "protocol-state and parse errors of http.client (BadStatusLine, IncompleteRead, ...)",
    "socket.timeout": "explicit timeout class still named in handlers",
}


def urlopen_translation(ctx):
    """For each low-level root raised by the request step of HTTPConnectionPool.urlopen: the outcomes that let it escape
    untranslated, and the classes of the errors handed to Retry.increment(error=...) with the state of the path.
    Shared by C01-R8 and C04-R13; computed once per check."""
    cache = ctx.__dict__.setdefault("_urlopen_translation", {})
    if "table" in cache:
        return cache["fi"], cache["table"]
    m = ctx.model
    from .c01 import LeaseRule, queue_field, _hot_methods
    from ..interp import Budget, Interp, State, compute_relevant

    class TransRule(LeaseRule):
        def __init__(self, qf, root):
            super().__init__(qf)
            self.root = root
            self.errors = []

        def call(self, it, st, node, recv, pos, kw):
            t = ast.unparse(node.func)
            if t == "self._make_request":
                s = st.copy()
                s.log(node, f"_make_request raises {self.root}")
                s.ts["rootfault"] = True
                outs = [Out("raise", s, exc(self.root))]
                s2 = st.copy()
                s2.ts["exchange"] = "ok"
                outs.append(Out("normal", s2, AV("obj", "response", truth=True, none=False)))
                return outs
            if t.endswith(".increment") and "error" in kw:
                self.errors.append((st.view(kw["error"]), st))
                s = st.copy()
                return [Out("normal", s, AV("unk", truth=True, none=False)), Out("raise", st.copy(), exc("urllib3.exceptions.MaxRetryError"))]
            if t in ("self._get_conn",):
                return [Out("normal", st, AV("obj", "fresh", truth=True, none=False, typ=f"{CN}.HTTPConnection"))]
            q = it.resolve_callee(node, recv)
            if q and it.m.is_exception_class(q):
                return [Out("normal", st, AV("exc", it.m.norm(q), truth=True, none=False))]
            if t == "_wrap_proxy_error":
                return [Out("normal", st, AV("exc", "urllib3.exceptions.ProxyError", truth=True, none=False))]
            if t == "self.urlopen":
                return super().call(it, st, node, recv, pos, kw)
            if q in it.inline:
                return None  # an unmodelled private helper of the pool (e.g. an extracted error-translation step): interpreted in place
            return [Out("normal", st, UNK)]

    qf = queue_field(m)
    modelled_r8 = {"_make_request", "_get_conn", "_put_conn", "_new_conn", "_prepare_proxy", "_validate_conn", "_get_timeout", "_raise_timeout", "urlopen", "_close_pool_connections"}
    helpers_r8 = set()
    for c_ in m.mro(f"{CP}.HTTPConnectionPool"):
        ci_ = m.classes.get(c_)
        if ci_ is None or not c_.startswith("urllib3."):
            continue
        for n_, f_ in ci_.methods.items():
            if n_.startswith("_") and not n_.startswith("__") and n_ not in modelled_r8:
                helpers_r8.add(f_.qual)
    for f_ in m.repo_funcs():
        if f_.module == CP and f_.cls is None and f_.name.startswith("_") and f_.name not in modelled_r8:
            helpers_r8.add(f_.qual)
    cls_q = f"{CP}.HTTPConnectionPool"
    fi = m.method(cls_q, "urlopen")
    table = []
    for root, reason in ROOTS.items():
        rule = TransRule(qf, m.norm(root))
        it = Interp(m, rule, cls_q, fi.module, frozenset(helpers_r8), budget=Budget(400000))
        it.relevant = None  # track everything: local names are not part of the rule
        st = State()
        for a in fi.node.args.args[1:] + fi.node.args.kwonlyargs:
            st.env[it.var(a.arg)] = AV("unk", sym=f"param:{a.arg}")
        outs = it.exec_block(fi.node.body, [st])
        ctx.states += it.budget.steps
        escaped = [o for o in outs if o.kind == "raise" and o.st.ts.get("rootfault") and o.val.val == m.norm(root)]
        errs = [((av.val if av.kind == "exc" else av.typ), s_) for av, s_ in rule.errors]
        table.append((root, escaped, errs))
    cache["fi"], cache["table"] = fi, table
    return fi, table


def _resp_seeds():
    return {
        ("self", "_pool"): AV("unk", sym="f:_pool"),
        ("self", "_connection"): AV("unk", sym="f:_connection"),
        ("self", "_original_response"): AV("unk", sym="f:_orig"),
        ("self", "_fp"): AV("obj", "fp", truth=True, none=False),
    }


def _role(av):
    """Which of the response's collaborators a value is (by identity of the seeded field, so a local alias keeps its role)."""
    if av is None:
        return None
    for tag, role in (("f:_connection", "conn"), ("f:_pool", "pool"), ("f:_orig", "orig")):
        if av.sym == tag:
            return role
    if av.kind == "obj" and av.val in ("conn", "pool", "orig", "fp"):
        return av.val
    return None


class RespRule(BaseRule):
    """Events of the response's connection hand-back protocol."""

    model_read = False

    def __init__(self, fp_raises=()):
        self.fp_raises = fp_raises
        self.viol = []

    def call(self, it, st, node, recv, pos, kw):
        t = ast.unparse(node.func)

        def ok(av=UNK, log=None):
            s = st.copy()
            s.log(node, log or f"call {t}")
            return Out("normal", s, av)

        role = _role(recv)
        leaf = node.func.attr if isinstance(node.func, ast.Attribute) else None
        if (role == "pool" and leaf == "_put_conn") or t == "self._pool._put_conn":
            s = st.copy()
            s.ts["put"] = s.ts.get("put", 0) + 1
            conn = st.view(st.heap.get(("self", "_connection"), UNK))
            s.ts["ev"] = s.ts.get("ev", ()) + ("put",)
            if conn.truth is not True:
                self.viol.append(("put-without-connection", st))
            if pos and _role(pos[0]) != "conn" and ast.unparse(node.args[0]) != "self._connection":
                self.viol.append(("put-of-something-else", st))
            s.log(node, "PUT to pool")
            return [Out("normal", s, const(None))]
        if (role == "conn" and leaf == "close") or t == "self._connection.close":
            s = st.copy()
            s.ts["ev"] = s.ts.get("ev", ()) + ("conn_close",)
            s.log(node, "close connection")
            return [Out("normal", s, const(None))]
        if (role in ("orig", "fp") and leaf == "close") or t in ("self._original_response.close", "self._fp.close", "io.IOBase.close"):
            s = st.copy()
            s.ts["ev"] = s.ts.get("ev", ()) + ("fp_close",)
            s.ts["fp_closed"] = True
            s.log(node, t)
            return [Out("normal", s, const(None))]
        if (role in ("orig", "fp") and leaf == "isclosed") or t in ("self._original_response.isclosed", "self._fp.isclosed"):
            if st.ts.get("fp_closed"):
                return [ok(const(True))]
            return [ok(AV("unk", sym="fp-exhausted"))]
        if t == "self._fp_read":
            outs = [ok(AV("unk", sym="data"))]
            for e in self.fp_raises:
                s = st.copy()
                s.log(node, f"_fp_read raises {e.val}")
                s.ts["fault"] = e.val
                outs.append(Out("raise", s, e))
            return outs
        if t == "str":
            return [ok(AV("unk", none=False, typ="builtins.str"))]
        if t in ("getattr", "hasattr", "len", "is_fp_closed", "self._init_decoder", "log.debug", "is_response_to_head"):
            return [ok()]
        if t == "self.read" and self.model_read:
            # the body reader as a whole (its own release behaviour is C01-R6): attempted, then returns or fails
            s = st.copy()
            s.ts["ev"] = s.ts.get("ev", ()) + ("read-to-eof" if (not node.args and not any(k.arg == "amt" for k in node.keywords)) else "read-partial",)
            s.log(node, "READ body through the error catcher")
            outs = [Out("normal", s, AV("unk", sym="data"))]
            for e in (exc("urllib3.exceptions.ProtocolError"), exc("urllib3.exceptions.DecodeError"), exc("builtins.OSError"), exc("http.client.HTTPException"), BASE_TOP):
                s2 = s.copy()
                s2.log(node, f"read raises {e.val}")
                outs.append(Out("raise", s2, e))
            return outs
        return None


def run(ctx):
    m = ctx.model
    HR = f"{RS}.HTTPResponse"

    # ------------------------------------------------------------------ R4
    R4 = ctx.rule("C01-R4", "HTTPResponse.release_conn gives the connection back at most once: the put is guarded by the back-reference and clears it", "E4")
    fi = m.method(HR, "release_conn")
    for label, conn_seed in (("back-reference set", AV("unk", sym="f:_connection")), ("already released", const(None))):
        rule = RespRule()
        seeds = _resp_seeds()
        seeds[("self", "_connection")] = conn_seed
        outs, it = run_function(m, fi, rule, HR, inline=set(helper_closure(m, [fi])), seeds=seeds)
        ctx.states += it.budget.steps
        puts = [o for o in outs if o.st.ts.get("put", 0)]
        if label == "back-reference set":
            ctx.sites(R4, len(puts), 1, "paths of release_conn reaching _put_conn")
            for o in outs:
                if o.kind == "raise":
                    continue
                n = o.st.ts.get("put", 0)
                conn_after = o.st.view(o.st.heap.get(("self", "_connection"), UNK))
                ok = n <= 1 and (n == 0 or conn_after.none is True)
                ctx.ob(R4, fi.qual, f"[{label}] exit {outcome_name(o)} puts={n}", ok,
                       "" if ok else "the back-reference is still set after the put: a second release would return the slot twice", witness=o.st.witness(), node=fi.node)
            for what, st in rule.viol:
                ctx.ob(R4, fi.qual, "put guarded by the back-reference", False, what, witness=st.witness(), node=fi.node)
            if not rule.viol:
                ctx.ob(R4, fi.qual, "put guarded by the back-reference", True)
        else:
            ok = not puts
            ctx.ob(R4, fi.qual, f"[{label}] no put", ok, "" if ok else "release_conn puts although the connection was already handed back")

    # ------------------------------------------------------------------ R5
    R5 = ctx.rule("C01-R5", "every read on the wrapped stdlib response happens inside `with self._error_catcher()` (lexically, or in a helper all of whose callers are)", "E8 region + who-may-call")
    cls = m.cls(HR)
    body_reads = ("read", "read1", "_safe_read", "readline", "readinto", "readinto1")

    def is_fp_read(c):
        f = c.func
        if not (isinstance(f, ast.Attribute) and f.attr in body_reads):
            return False
        base = astq.text(f.value)
        return base in ("self._fp", "self._fp.fp")

    def in_catcher(node):
        return astq.inside_with(node, lambda e: isinstance(e, ast.Call) and astq.call_text(e) == "self._error_catcher") is not None

    memo = {}

    def covered(meth, stack=()):
        """all call sites of self.<meth> inside the class are inside a catcher region or in covered methods"""
        if meth in memo:
            return memo[meth]
        if meth in stack:
            return True
        sites = []
        for name, f in cls.methods.items():
            for c in astq.calls(f.node):
                if astq.call_text(c) == f"self.{meth}":
                    sites.append((name, c))
        if not sites:
            memo[meth] = False
            return False
        ok = all(in_catcher(c) or covered(name, stack + (meth,)) for name, c in sites)
        memo[meth] = ok
        return ok

    nsites = 0
    for name, f in sorted(cls.methods.items()):
        for c in astq.calls(f.node):
            if is_fp_read(c):
                nsites += 1
                ok = in_catcher(c) or covered(name)
                ctx.ob(R5, f.qual, f"read `{astq.text(c)[:60]}`", ok,
                       "inside the error catcher" if ok else "a raw stdlib read outside the error catcher: its errors reach the caller untranslated and the connection is not discarded", node=c)
    ctx.sites(R5, nsites, 5, "stdlib-response read sites")

    # ------------------------------------------------------------------ R6
    R6 = ctx.rule("C01-R6", "_error_catcher: every low-level error from the body becomes a urllib3 HTTPError; on an unclean exit the stdlib response AND the connection are closed before the slot is returned, and it is returned exactly once; interrupts pass unchanged", "E4 with the @contextmanager inlined around _raw_read's body")
    fi = m.method(HR, "_raw_read")
    roots = [exc("socket.timeout"), exc("ssl.SSLError"), exc("http.client.IncompleteRead"), exc("http.client.HTTPException"),
             exc("builtins.OSError"), BASE_TOP]
    rule = RespRule(fp_raises=roots)
    inline = set(helper_closure(m, [m.method(HR, "release_conn"), m.method(HR, "_error_catcher")]))
    seeds = _resp_seeds()
    seeds[("self", "_connection")] = AV("obj", "conn", truth=True, none=False)
    seeds[("self", "_pool")] = AV("obj", "pool", truth=True, none=False)
    seeds[("self", "_original_response")] = AV("obj", "orig", truth=True, none=False)
    outs, it = run_function(m, fi, rule, HR, inline=inline, seeds=seeds)
    ctx.states += it.budget.steps
    faulted = [o for o in outs if o.st.ts.get("fault")]
    ctx.sites(R6, len(faulted), len(roots), "exceptional exits of _raw_read")
    by = {}
    for o in faulted:
        by.setdefault(o.st.ts["fault"], []).append(o)
    for root, lst in sorted(by.items()):
        short = root.rsplit(".", 1)[-1]
        for o in lst:
            seq = evs(o)
            name = outcome_name(o)
            if root == BASE_TOP.val:
                ok_tr = o.kind == "raise" and o.val.val == BASE_TOP.val
                why = "interrupt must propagate unchanged"
            else:
                ok_tr = o.kind == "raise" and o.val.val not in (EXT_TOP.val,) and m.issub(o.val.val, HTTPERR)
                why = "a low-level error leaves the catcher untranslated"
            ctx.ob(R6, fi.qual, f"fault {short} -> {name}", ok_tr, "" if ok_tr else why, witness=o.st.witness(), node=fi.node)
            closed_first = "conn_close" in seq and ("put" not in seq or seq.index("conn_close") < seq.index("put"))
            ctx.ob(R6, fi.qual, f"fault {short}: connection closed before any release", closed_first,
                   "" if closed_first else f"events {seq}: the connection is not closed (or released first) on an unclean exit", witness=o.st.witness(), node=fi.node)
            ctx.ob(R6, fi.qual, f"fault {short}: at most one release", seq.count("put") <= 1, f"events {seq}", witness=o.st.witness())
            # the stdlib response itself must be closed: when the server said `Connection: close` (or sent no length) http.client
            # has already detached the socket from the connection and handed it to the response, so closing the connection
            # alone leaves the descriptor open and the response never reports closed
            fpc = "fp_close" in seq
            ctx.ob(R6, fi.qual, f"fault {short}: the stdlib response is closed", fpc,
                   "" if fpc else f"events {seq}: only the connection is closed on this unclean exit; a close-delimited response owns the socket itself (http.client passes it over), so the socket stays open and the slot is never returned",
                   witness=o.st.witness(), node=fi.node)
            rel = "put" in seq
            ctx.ob(R6, fi.qual, f"fault {short}: the slot is returned", rel,
                   "" if rel else f"events {seq}: after an unclean exit nobody returns the slot (drain_conn swallows the error, so urlopen's resend path would lose it for good)",
                   witness=o.st.witness(), node=fi.node)
    # the chunked reader is a generator: a consumer that stops iterating throws GeneratorExit in at the yield, inside the
    # catcher. The rest of the body is still on the wire, so this is an unclean exit like any other.
    rc = m.method(HR, "read_chunked")
    rule_c = RespRule(fp_raises=())
    seeds_c = _resp_seeds()
    seeds_c[("self", "_connection")] = AV("obj", "conn", truth=True, none=False)
    seeds_c[("self", "_pool")] = AV("obj", "pool", truth=True, none=False)
    seeds_c[("self", "_original_response")] = AV("obj", "orig", truth=True, none=False)
    seeds_c[("self", "chunked")] = const(True)
    outs_c, it_c = run_function(m, rc, rule_c, HR, inline=inline, seeds=seeds_c, budget=600000)
    ctx.states += it_c.budget.steps
    aband = [o for o in outs_c if o.kind == "raise" and o.val.val == "builtins.GeneratorExit"]
    swallowed = [o for o in outs_c if any("abandoned (GeneratorExit)" in t for _, t in o.st.path()) and not (o.kind == "raise" and o.val.val == "builtins.GeneratorExit")]
    ctx.sites(R6, len(aband) + len(swallowed), 1, "exits of read_chunked after the consumer abandoned the generator")
    seen_c = set()
    for o in aband + swallowed:
        seq = evs(o)
        k = (o.kind, str(o.val.val) if o.kind == "raise" else "", seq)
        if k in seen_c:
            continue
        seen_c.add(k)
        ok_tr = o.kind == "raise" and o.val.val == "builtins.GeneratorExit"
        ctx.ob(R6, rc.qual, f"abandoned chunked stream -> {outcome_name(o)}", ok_tr, "" if ok_tr else "GeneratorExit must propagate out of the generator", witness=o.st.witness(), node=rc.node)
        closed_first = "conn_close" in seq and ("put" not in seq or seq.index("conn_close") < seq.index("put"))
        ctx.ob(R6, rc.qual, "abandoned chunked stream: connection closed before any release", closed_first,
               "" if closed_first else f"events {seq}: the unread rest of the body is still on the wire, yet the live connection goes back to the pool - the next request on it is answered with this response's bytes",
               witness=o.st.witness(), node=rc.node)
        ctx.ob(R6, rc.qual, "abandoned chunked stream: at most one release", seq.count("put") <= 1, f"events {seq}", witness=o.st.witness())
    # normal exits: released iff the stdlib response reports closed
    n_norm = 0
    for o in outs:
        if o.st.ts.get("fault") or o.kind == "raise":
            continue
        ex = o.st.facts.get("fp-exhausted", (None, None))[0]
        closed = o.st.ts.get("fp_closed") or ex is True
        seq = evs(o)
        if ("fp-exhausted" in o.st.facts) or o.st.ts.get("fp_closed"):
            n_norm += 1
            ok = (("put" in seq) == bool(closed)) and seq.count("put") <= 1
            ctx.ob(R6, fi.qual, f"normal exit, response closed={bool(closed)}: released={('put' in seq)}", ok,
                   "" if ok else "release does not follow the stdlib response's closed state", witness=o.st.witness())
    ctx.sites(R6, n_norm, 2, "normal exits of _raw_read through the catcher")

    # ------------------------------------------------------------------ R7
    R7 = ctx.rule("C01-R7", "every disposal API of a response returns the slot: release_conn (R4), read-to-EOF / drain_conn through the catcher (R6), close()", "E4 + call graph")
    fi = m.method(HR, "drain_conn")
    reads = [c for c in astq.calls(fi.node) if astq.call_text(c) == "self.read"]
    ctx.sites(R7, len(reads), 1, "read call in drain_conn")
    for c in reads:
        to_eof = not c.args and not any(k.arg == "amt" for k in c.keywords)
        ctx.ob(R7, fi.qual, "drain reads to EOF", to_eof, f"args={astq.text(c)}", node=c)
    # (that transport / urllib3 errors are swallowed is decided on paths below: no ProtocolError / OSError / HTTPException escapes)
    # every path of drain_conn on which the response still holds a connection goes through the reader (whose catcher
    # returns the slot, R6): a shortcut that skips the read skips the only release there is
    rule = RespRule()
    rule.model_read = True
    seeds = _resp_seeds()
    seeds[("self", "_connection")] = AV("obj", "conn", truth=True, none=False)
    seeds[("self", "_pool")] = AV("obj", "pool", truth=True, none=False)
    outs, it = run_function(m, fi, rule, HR, inline=set(helper_closure(m, [m.method(HR, "release_conn"), m.method(HR, "_error_catcher")])), seeds=seeds)
    ctx.states += it.budget.steps
    dn = [o for o in outs if o.kind != "raise"]
    ctx.sites(R7, len(dn), 1, "normal exits of drain_conn")
    seen_d = set()
    for o in dn:
        seq = evs(o)
        ok = "read-to-eof" in seq or "put" in seq
        k = (ok, seq)
        if k in seen_d:
            continue
        seen_d.add(k)
        ctx.ob(R7, fi.qual, f"drain_conn exit with events {seq}: the body reader ran (or the slot was returned directly)", ok,
               "" if ok else "drain_conn returns without reading although the response still holds its connection: nothing returns the slot (urlopen drops the response after draining)",
               witness=o.st.witness(), node=fi.node)
    for o in outs:
        if o.kind == "raise" and o.val.val not in (BASE_TOP.val,) and "read-to-eof" in evs(o):
            ctx.ob(R7, fi.qual, f"drain_conn lets {o.val.val} escape", False, "errors while discarding the body must not fail the request that follows", witness=o.st.witness(), node=fi.node)
    fi = m.method(HR, "close")
    rule = RespRule()
    seeds = _resp_seeds()
    seeds[("self", "_connection")] = AV("obj", "conn", truth=True, none=False)
    seeds[("self", "_pool")] = AV("obj", "pool", truth=True, none=False)
    outs, it = run_function(m, fi, rule, HR, inline=set(helper_closure(m, [m.method(HR, "release_conn"), m.method(HR, "_error_catcher")])), seeds=seeds)
    normal = [o for o in outs if o.kind != "raise"]
    ctx.sites(R7, len(normal), 1, "normal exits of close()")
    released = [o for o in normal if o.st.ts.get("put")]
    if released and len(released) == len(normal):
        ctx.ob(R7, fi.qual, "close() returns the slot on every normal path", True)
    elif not released:
        ctx.ob(R7, fi.qual, "no release_conn/_put_conn on any path", False,
               "HTTPResponse.close() closes the socket but never returns the pool slot", witness=normal[0].st.witness(), node=fi.node)
    else:
        o = [o for o in normal if not o.st.ts.get("put")][0]
        ctx.ob(R7, fi.qual, "some paths of close() do not return the slot", False, "", witness=o.st.witness(), node=fi.node)

    # ------------------------------------------------------------------ R8
    R8 = ctx.rule("C01-R8", "translation coverage in urlopen: every low-level root raised by a request step is caught and what reaches Retry.increment(error=...) is a urllib3 HTTPError", "E1 lattice + E4 on the handlers")
    fi, table = urlopen_translation(ctx)
    for root, escaped, errs in table:
        short = root.rsplit(".", 1)[-1]
        ctx.ob(R8, fi.qual, f"root {short} is caught by a handler around the request", not escaped,
               "" if not escaped else f"a raw {short} from a request step leaves urlopen untranslated", witness=escaped[0].st.witness() if escaped else None, node=fi.node)
        if not errs:
            ctx.ob(R8, fi.qual, f"root {short} reaches Retry.increment(error=...)", False, "no increment(error=...) call was reached with this root", node=fi.node)
        seen = set()
        for q, s in errs:
            if q in seen:
                continue
            seen.add(q)
            ok = q is not None and m.issub(q, HTTPERR)
            ctx.ob(R8, fi.qual, f"root {short} -> increment(error={str(q).rsplit('.', 1)[-1]})", ok,
                   "" if ok else "the error handed to the retry policy (and re-raised / wrapped by it) is not a urllib3 exception", witness=s.witness(), node=fi.node)

    # ------------------------------------------------------------------ R9
    R9 = ctx.rule("C01-R9", "every handler whose type admits KeyboardInterrupt (bare / BaseException) re-raises on all its paths", "E8")
    n = 0
    for f in m.repo_funcs():
        if "emscripten" in f.module:
            continue
        for node in astq.walk_fn(f.node):
            if isinstance(node, ast.ExceptHandler):
                names = astq.handler_type_names(node)
                if "<bare>" in names or "BaseException" in names:
                    n += 1
                    ok = astq.all_paths_end_in(node.body, lambda s: isinstance(s, ast.Raise) and s.exc is None)
                    ctx.ob(R9, f.qual, f"handler `except {', '.join(names)}`", ok,
                           "" if ok else "an interrupt caught here does not propagate on every path", node=node)
    ctx.sites(R9, n, 3, "BaseException/bare handlers")

    # ------------------------------------------------------------------ R10
    R10 = ctx.rule("C01-R10", "closing the pool closes every queued connection: each non-None item taken from the queue is closed and the drain loop ends only on queue.Empty", "E4")
    fi = m.func(f"{CP}._close_pool_connections")
    qparam = fi.params()[0]

    class DrainRule(BaseRule):
        def __init__(self):
            self.viol = []
            self.gets = 0

        def call(self, it, st, node, recv, pos, kw):
            t = ast.unparse(node.func)
            if recv is not None and recv.sym == f"p:{qparam}" and isinstance(node.func, ast.Attribute) and node.func.attr in ("get", "get_nowait"):
                self.gets += 1
                if st.ts.get("open_item"):
                    self.viol.append(("an item taken from the queue is dropped unclosed before the next get", st))
                s = st.copy()
                s.ts["open_item"] = True
                s.facts.pop("item", None)
                s.log(node, "queue.get -> item")
                s2 = st.copy()
                s2.log(node, "queue.get -> Empty")
                s2.ts["empty"] = True
                return [Out("normal", s, AV("unk", sym="item")), Out("raise", s2, exc("queue.Empty"))]
            if t.endswith(".close") and recv is not None and recv.sym == "item":
                s = st.copy()
                s.ts["open_item"] = False
                s.log(node, "item.close()")
                return [Out("normal", s, const(None))]
            return None

    rule = DrainRule()
    outs, it = run_function(m, fi, rule, inline=set(helper_closure(m, [fi])) - {fi.qual})
    if rule.gets == 0:
        # the drain is written in a way the interpreter does not follow (e.g. iter(callable, sentinel) through filter()): decide
        # what can be decided without it (DESIGN 13.2) - the queue parameter is read with get(), what is taken is closed,
        # and queue.Empty is what ends it
        src = ast.unparse(fi.node)
        takes = any(isinstance(c, ast.Call) and isinstance(c.func, ast.Attribute) and c.func.attr in ("get", "get_nowait") and ast.unparse(c.func.value) == qparam for c in ast.walk(fi.node))
        closes = any(isinstance(c, ast.Call) and isinstance(c.func, ast.Attribute) and c.func.attr == "close" for c in ast.walk(fi.node))
        ends = any(isinstance(h, ast.ExceptHandler) and h.type is not None and "Empty" in ast.unparse(h.type) for h in ast.walk(fi.node))
        ctx.ob(R10, fi.qual, "drain idiom not recognised: the queue is read with get(), taken items are closed, queue.Empty ends the drain (provenance only)", takes and closes and ends,
               f"get on the queue: {takes}; close(): {closes}; except queue.Empty: {ends}", node=fi.node)
        fi2 = m.method(f"{CP}.HTTPConnectionPool", "close")
        drains2 = [c for c in astq.calls(fi2.node) if astq.call_text(c) == "_close_pool_connections"]
        ctx.ob(R10, fi2.qual, "close() drains the queue", bool(drains2), node=fi2.node)
        outs = []
        rule.viol = []
    else:
        ctx.sites(R10, rule.gets, 1, "queue get in the drain loop")
    # an item known falsy (None placeholder) needs no close
    real = [(w, s) for w, s in rule.viol if s.facts.get("item", (None, None))[0] is not False]
    ctx.ob(R10, fi.qual, "each truthy item is closed before the next get", not real, real[0][0] if real else "", witness=real[0][1].witness() if real else None, node=fi.node)
    for o in outs:
        if o.kind == "raise" and o.val.val in (EXT_TOP.val, BASE_TOP.val):
            continue
        if o.st.facts.get(f"p:{qparam}", (None, None))[1] is True and not o.st.ts.get("open_item"):
            continue  # called without a queue (an already closed pool): nothing to drain
        ok = bool(o.st.ts.get("empty")) and o.kind in ("normal", "return")
        leftover = o.st.ts.get("open_item") and o.st.facts.get("item", (None, None))[0] is not False
        ctx.ob(R10, fi.qual, f"exit {outcome_name(o)} only after queue.Empty", ok and not leftover,
               "" if ok else "the drain loop can end while the queue may still hold connections", witness=o.st.witness(), node=fi.node)
    # HTTPConnectionPool.close drains the swapped-out queue
    fi = m.method(f"{CP}.HTTPConnectionPool", "close")
    drains = [c for c in astq.calls(fi.node) if astq.call_text(c) == "_close_pool_connections"]
    ctx.ob(R10, fi.qual, "close() drains the queue", bool(drains), node=fi.node)

    # ------------------------------------------------------------------ R11
    R11 = ctx.rule("C01-R11", "HTTPConnection.close delegates to the stdlib close on every path and clears self.sock even if that raises", "E4")
    fi = m.method(f"{CN}.HTTPConnection", "close")

    class CloseRule(BaseRule):
        def call(self, it, st, node, recv, pos, kw):
            if ast.unparse(node.func) == "super().close":
                s = st.copy()
                s.ts["ev"] = s.ts.get("ev", ()) + ("super_close",)
                s2 = st.copy()
                s2.ts["ev"] = s2.ts.get("ev", ()) + ("super_close!",)
                return [Out("normal", s, const(None)), Out("raise", s2, EXT_TOP), Out("raise", s2.copy(), BASE_TOP)]
            if ast.unparse(node.func) == "super":
                return [Out("normal", st, UNK)]
            return None

    outs, it = run_function(m, fi, CloseRule(), f"{CN}.HTTPConnection", inline=set(helper_closure(m, [fi])) - {fi.qual})
    ctx.sites(R11, len(outs), 2, "exits of HTTPConnection.close")
    for o in outs:
        seq = evs(o)
        sock = o.st.heap.get(("self", "sock"))
        ok = any(e.startswith("super_close") for e in seq) and sock is not None and sock.kind == "const" and sock.val is None
        ctx.ob(R11, fi.qual, f"exit {outcome_name(o)}: stdlib close attempted and self.sock cleared", ok,
               "" if ok else f"events={seq} sock={sock}", witness=o.st.witness(), node=fi.node)
    # stdlib fact (read from source): http.client.HTTPConnection.close closes the socket and the pending response
    hc = m.find_method("http.client.HTTPConnection", "close")
    if hc is None:
        raise AnalysisError("stdlib http.client.HTTPConnection.close not found")
    txt = astq.text(hc.node)
    ctx.ob(R11, hc.qual, "stdlib close() closes the socket and the pending response (source fact)", "sock.close()" in txt and "response.close()" in txt)


    # ------------------------------------------------------------------ R12 sockets created by urllib3 itself
    R12 = ctx.rule("C01-R12", "a socket urllib3 creates is closed on every path on which it is not handed to the caller: in every function that calls socket.socket(), each exceptional exit and each further loop iteration happens with the socket closed, and a normal return leaves open only the socket it returns (helpers that configure the socket are interpreted in place)", "E4 typestate")
    creators = []
    for f_ in m.repo_funcs():
        if "emscripten" in f_.module or "contrib" in f_.module:
            continue
        for c_ in astq.calls(f_.node):
            if m.resolve_name(f_.module, c_.func) == "socket.socket":
                creators.append(f_)
                break
    ctx.sites(R12, len(creators), 1, "functions that create a socket")

    class SockRule(BaseRule):
        def __init__(self):
            self.leaks = []

        def call(self, it, st, node, recv, pos, kw):
            f = node.func
            q = it.m.resolve_name(it.module, f) if isinstance(f, (ast.Name, ast.Attribute)) and recv is None or (recv is not None and recv.kind != "obj") else None
            if q == "socket.socket":
                sid = f"sock@{node.lineno}"
                opened = st.ts.get("open", frozenset())
                if sid in opened:
                    self.leaks.append((st, node, f"a new socket is created at line {node.lineno} while the one created there before is still open"))
                s = st.copy()
                s.ts["open"] = opened | {sid}
                s.ts["made"] = True
                s.log(node, f"socket created ({sid})")
                s2 = st.copy()
                s2.log(node, "socket() raises OSError")
                return [Out("normal", s, AV("obj", sid, truth=True, none=False, sym=f"obj:{sid}")), Out("raise", s2, exc("builtins.OSError"))]
            if recv is not None and recv.kind == "obj" and isinstance(recv.val, str) and recv.val.startswith("sock@") and isinstance(f, ast.Attribute):
                if f.attr == "close":
                    s = st.copy()
                    s.ts["open"] = s.ts.get("open", frozenset()) - {recv.val}
                    s.log(node, f"{recv.val} closed")
                    return [Out("normal", s, const(None))]  # A3: close() used as cleanup does not raise
                s = st.copy()
                s2 = st.copy()
                s2.log(node, f"{recv.val}.{f.attr} raises OSError")
                return [Out("normal", s, UNK), Out("raise", s2, exc("builtins.OSError"))]
            if it.resolve_callee(node, recv) in it.inline:
                return None
            if isinstance(f, ast.Attribute) and f.attr == "getaddrinfo":
                s2 = st.copy()
                s2.log(node, "getaddrinfo raises")
                return [Out("normal", st, UNK), Out("raise", s2, exc("builtins.OSError"))]
            return [Out("normal", st, UNK)]

    for f_ in creators:
        rule = SockRule()
        inl = set(helper_closure(m, [f_])) - {f_.qual}
        outs, it = run_function(m, f_, rule, f_.clsq if f_.cls else None, inline=inl)
        ctx.states += it.budget.steps
        made = [o for o in outs if o.st.ts.get("made")]
        ctx.sites(R12, len(made), 1, f"exits of {f_.name} after a socket was created")
        seen12 = set()
        for st_, node_, why_ in rule.leaks:
            if why_ in seen12:
                continue
            seen12.add(why_)
            ctx.ob(R12, f_.qual, "the socket of one attempt is closed before the next attempt", False, why_, witness=st_.witness(), node=node_)
        for o in outs:
            opened = set(o.st.ts.get("open", frozenset()))
            if o.kind == "return" and o.val is not None and o.val.kind == "obj":
                opened.discard(o.val.val)
            k_ = (o.kind, tuple(sorted(opened)))
            if k_ in seen12:
                continue
            seen12.add(k_)
            ok = not opened
            ctx.ob(R12, f_.qual, f"exit {outcome_name(o)}: no socket created here is left open (other than the one returned)", ok,
                   "" if ok else f"{sorted(opened)} is still open when the function is left by {outcome_name(o)}: the descriptor stays open for as long as the exception (or nothing at all) references it", witness=o.st.witness(), node=f_.node)
