def run(ctx):
    pass
