"""C02 - concurrent requests never share a connection, exceed maxsize, or deadlock."""
from __future__ import annotations

import ast

from .. import astq
from ..events import EventRule, evs, outcome_name, run_function
from ..interp import AV, BASE_TOP, EXT_TOP, UNK, BaseRule, Out, const, exc, compute_relevant
from ..model import AnalysisError
from ..rows import helper_closure
from .c01 import is_queue_call, queue_aliases, queue_field, run_lease

CP = "urllib3.connectionpool"
CN = "urllib3.connection"
POOL = f"{CP}.HTTPConnectionPool"


def _reachable_methods(m, cls, root="urlopen"):
    meths = {}
    for k in m.mro(cls):
        c = m.classes.get(k)
        if c and c.module.startswith("urllib3"):
            for n_, f_ in c.methods.items():
                meths.setdefault(n_, f_)
    seen, work = set(), [root]
    while work:
        n = work.pop()
        if n in seen or n not in meths:
            continue
        seen.add(n)
        for c in astq.calls(meths[n].node):
            f = c.func
            if isinstance(f, ast.Attribute) and isinstance(f.value, ast.Name) and f.value.id == "self":
                work.append(f.attr)
            if isinstance(f, ast.Attribute) and astq.text(f.value) == "super()":
                work.append(f.attr)
    return {n: meths[n] for n in seen}


def run(ctx):
    m, fold = ctx.model, ctx.fold
    ctx.assume("A1", "A2", "A3", "A4", "A5")
    ctx.decline("fairness / eventual completion under all schedules and real-time bounds: the scheduler is queue.LifoQueue (trusted, A1); what is decided is that nothing else is shared")
    ctx.decline("'receives the response to its own request' follows from exclusivity plus C03, not decided here")
    qf = queue_field(m)

    # shared obligations from the lease automaton: these are what bound the number of slots and make a lease exclusive
    shared = ("C01-R1a", "C01-R1b", "C01-R1c", "C01-R1e", "C01-R1g", "C01-R3")
    before = len(ctx.obs)
    for cls in (POOL, f"{CP}.HTTPSConnectionPool"):
        run_lease(ctx, cls)
    ctx.obs[before:] = [o for o in ctx.obs[before:] if o.ok or o.rule in shared]
    for r in list(ctx.rules):
        if r.startswith("C01-") and r not in shared and r != "C01-R1":
            ctx.rules.pop(r)
    ctx.rules["C01-R1"]["decides"] = ("(shared with C01) lease typestate on every path of urlopen: no lost slot (a), no duplicated slot (b), "
                                      "no double give (c), no use after give (e), never both given back and handed to a response (g), "
                                      "block=True never connects without a slot (R3)")
    ctx.rules["C01-R1"]["engine"] = "E4"

    # ------------------------------------------------------------------ R1 confinement
    R1 = ctx.rule("C02-R1", "confinement: on the request path the pool object writes no shared field except the debug counters; the queue field is written only by __init__ and close", "E8 write sets over the methods reachable from urlopen")
    counters = {"num_connections", "num_requests"}
    n = 0
    for cls in (POOL, f"{CP}.HTTPSConnectionPool"):
        for name, fi in sorted(_reachable_methods(m, cls).items()):
            for attr, node in astq.self_stores(fi.node):
                n += 1
                ok = attr in counters
                ctx.ob(R1, fi.qual, f"store self.{attr}", ok,
                       "debug counter" if ok else "a request-path method writes pool state shared between threads", node=node)
    ctx.sites(R1, n, 2, "self-stores on the request path")
    writers = []
    for fi in m.repo_funcs():
        if fi.cls and m.issub(fi.clsq, POOL):
            for attr, node in astq.self_stores(fi.node):
                if attr == qf:
                    writers.append((fi, node))
    ctx.sites(R1, len(writers), 2, "writers of the queue field")
    for fi, node in writers:
        ok = fi.name in ("__init__", "close")
        ctx.ob(R1, fi.qual, f"writes self.{qf}", ok, "" if ok else "the queue field is re-bound outside __init__/close", node=node)
    # nobody outside the pool classes touches pool.<qf>
    n = 0
    for fi in m.repo_funcs():
        if fi.cls and m.issub(fi.clsq, POOL):
            continue
        for node in astq.walk_fn(fi.node):
            if isinstance(node, ast.Attribute) and node.attr == qf and not astq.is_self_attr(node) and isinstance(node.value, ast.Name) \
                    and fi.module in (CP, "urllib3.response", "urllib3.poolmanager"):
                n += 1
                ctx.ob(R1, fi.qual, f"foreign access {astq.text(node)}", False, "code outside the pool reaches into its queue", node=node)

    # ------------------------------------------------------------------ R2 linearity / no escape
    R2 = ctx.rule("C02-R2", "a leased connection never escapes into shared state: it flows only to locals, to the pool's own helpers, to the queue give and to the response back-reference", "E6 taint over urlopen and the helpers it reaches")
    sources = ("self._get_conn", "self._new_conn")
    nsrc = 0
    for cls in (POOL,):
        for name, fi in sorted(_reachable_methods(m, cls).items()):
            aliases = queue_aliases(fi.node, qf)
            tainted = set()
            changed = True
            while changed:
                changed = False
                for node in astq.walk_fn(fi.node):
                    if isinstance(node, ast.Assign):
                        v = node.value
                        is_src = (isinstance(v, ast.Call) and (astq.call_text(v) in sources or (is_queue_call(v, qf, aliases, ("get",)))))
                        is_src = is_src or (isinstance(v, ast.Call) and astq.call_text(v) == "self.ConnectionCls")
                        uses = astq.names_in(v) & tainted if not isinstance(v, ast.Call) else set()
                        if isinstance(v, ast.BoolOp):
                            for x in v.values:
                                if isinstance(x, ast.Call) and astq.call_text(x) in sources:
                                    is_src = True
                        if is_src or uses:
                            for t in node.targets:
                                if isinstance(t, ast.Name) and t.id not in tainted:
                                    tainted.add(t.id)
                                    changed = True
                                    if is_src:
                                        nsrc += 1
            if name in ("_put_conn", "_make_request", "_validate_conn", "_prepare_proxy"):
                # parameter named conn carries the lease
                p = fi.params()
                if p:
                    tainted.add(p[0])
            if not tainted:
                continue
            for node in astq.walk_fn(fi.node):
                bad = None
                if isinstance(node, ast.Assign):
                    vt = astq.names_in(node.value) & tainted if not isinstance(node.value, ast.Call) else set()
                    for t in node.targets:
                        if vt and isinstance(t, ast.Attribute):
                            base = astq.text(t.value)
                            if base == "self":
                                bad = f"stored into self.{t.attr}"
                            elif not (base == "response" and t.attr == "_connection") and base not in tainted:
                                bad = f"stored into {astq.text(t)}"
                        if vt and isinstance(t, ast.Subscript):
                            bad = f"stored into container {astq.text(t.value)}"
                if isinstance(node, ast.Call) and isinstance(node.func, ast.Attribute) and node.func.attr in ("append", "add", "insert", "extend", "setdefault", "update", "appendleft"):
                    if any(astq.names_in(a) & tainted for a in node.args) and not is_queue_call(node, qf, aliases):
                        bad = f"added to container {astq.text(node.func.value)}"
                if isinstance(node, (ast.Global, ast.Nonlocal)) and set(node.names) & tainted:
                    bad = "declared global/nonlocal"
                if isinstance(node, (ast.Lambda, ast.FunctionDef)) and node is not fi.node and astq.names_in(node) & tainted:
                    bad = "captured by a closure"
                if bad:
                    ctx.ob(R2, fi.qual, f"`{astq.text(astq.stmt_of(node))[:80]}`", False, f"the leased connection is {bad}: another request could reach it", node=node)
            ctx.ob(R2, fi.qual, f"connection-carrying locals {sorted(tainted)} stay local", True)
    ctx.sites(R2, nsrc, 2, "connection sources (lease / creation sites)")

    # ------------------------------------------------------------------ R3 close-race-safe dereference
    R3 = ctx.rule("C02-R3", "every dereference of the queue field outside __init__ tolerates a concurrent close(): it is inside a try that catches AttributeError, or goes through a local snapshot tested for None", "E3 + E8")
    # Decided by interpretation: every read of the queue field yields a fresh maybe-None value (a concurrent close() may have
    # run just before it); a method call on such a value raises AttributeError unless a None test has refined it; no such
    # AttributeError may leave the method.  A local snapshot keeps its refinement, a second read of the field does not.
    class QRule(BaseRule):
        def __init__(self, writer):
            self.sites = {}
            self.writer = writer

        def getattr(self, it, st, node, base):
            if base.kind == "self" and node.attr == qf and isinstance(node.ctx, ast.Load):
                if self.writer:
                    # the property's schedules have at most one thread in close(); the writers of the field (R1: __init__ and
                    # close only) therefore read a stable value
                    if ("self", qf) in st.heap:
                        return None
                    return AV("unk", sym="q@stable")
                return AV("unk", sym=f"q@{node.lineno}.{node.col_offset}")
            return None

        def call(self, it, st, node, recv, pos, kw):
            if recv is None or not (recv.sym or "").startswith("q@") or not isinstance(node.func, ast.Attribute):
                return None
            v = st.view(recv)
            key = (node.lineno, node.col_offset)
            self.sites.setdefault(key, (node, True))
            outs = []
            s = st.copy()
            s.log(node, f"{ast.unparse(node.func)}() on the queue")
            outs.append(Out("normal", s, AV("unk", sym=f"item@{node.lineno}")))
            leaf = node.func.attr
            if leaf in ("get", "get_nowait"):
                outs.append(Out("raise", st.copy(), exc("queue.Empty")))
            if leaf in ("put", "put_nowait"):
                outs.append(Out("raise", st.copy(), exc("queue.Full")))
            if v.none is not False:
                s2 = st.copy()
                s2.log(node, f"{ast.unparse(node.func)}: the queue field was set to None by a concurrent close() -> AttributeError")
                s2.ts["noneref"] = ast.unparse(node.func)
                outs.append(Out("raise", s2, exc("builtins.AttributeError")))
                if v.none is True:
                    outs = outs[-1:]
            return outs

    n = 0
    for fi in m.repo_funcs():
        if not (fi.cls and m.issub(fi.clsq, POOL)) or fi.name == "__init__":
            continue
        if not any(isinstance(x, ast.Attribute) and astq.is_self_attr(x, qf) for x in astq.walk_fn(fi.node)):
            continue
        qr = QRule(writer=any(a_ == qf for a_, _ in astq.self_stores(fi.node)))
        helpers = set(helper_closure(m, [fi], stop=("_get_conn", "_put_conn", "_new_conn", "_make_request", "_prepare_proxy", "_validate_conn"))) - {fi.qual}
        outs, it = run_function(m, fi, qr, fi.clsq, inline=helpers, budget=400000)
        ctx.states += it.budget.steps
        n += len(qr.sites)
        bad = [o for o in outs if o.kind == "raise" and o.val.val == "builtins.AttributeError" and o.st.ts.get("noneref")]
        seen3 = set()
        for o in bad:
            k_ = o.st.ts["noneref"]
            if k_ in seen3:
                continue
            seen3.add(k_)
            ctx.ob(R3, fi.qual, f"`{k_}()` tolerates a concurrent close()", False,
                   "the queue field may be None here if close() runs concurrently and the AttributeError reaches the caller (no None test on a snapshot, no handler)", witness=o.st.witness(), node=fi.node)
        if not bad:
            ctx.ob(R3, fi.qual, f"{len(qr.sites)} queue method call(s): no AttributeError from a None queue leaves the method", True)
        # non-call attribute loads on the field itself (self.<q>.<attr> without a call) are not modelled: flag them
        for node in astq.walk_fn(fi.node):
            if isinstance(node, ast.Attribute) and astq.is_self_attr(node.value, qf) and not (isinstance(astq.parent(node), ast.Call) and astq.parent(node).func is node):
                tries = astq.enclosing_tries(astq.stmt_of(node))
                guarded = any("AttributeError" in astq.handler_type_names(h) for t in tries for h in t.handlers)
                ctx.ob(R3, fi.qual, f"attribute load `{astq.text(node)}`", guarded, "" if guarded else "self.%s may be None here" % qf, node=node)
    ctx.sites(R3, n, 2, "queue dereferences outside __init__")

    # ------------------------------------------------------------------ R4 swap then drain
    R4 = ctx.rule("C02-R4", "close() detaches the queue from the pool before draining it and drains the detached object only", "E6")
    fi = m.method(POOL, "close")
    from ..rows import GenRule, effect_rows
    from ..terms import destruct, subterms
    QT = f"self.{qf}"  # in a row, the value the field held when the method was entered (a later read after `self.<qf> = None` is the constant None)

    def mentions_queue(e_):
        if e_[0] == "call" and isinstance(e_[1], str) and (e_[1].startswith(QT + ".") or f"({QT}" in e_[1] or f",{QT}" in e_[1]):
            return True
        return any(isinstance(a_, str) and QT in set(subterms(a_.split("=", 1)[-1])) for a_ in e_[2:] if isinstance(a_, str))
    r4rows = [r for r in effect_rows(ctx, fi, GenRule(ctx, fi.module), POOL) if r.returns]
    ctx.sites(R4, len(r4rows), 2, "returning rows of close()")
    n_drain = 0
    for r in r4rows:
        evl = list(r.ev)
        st_i = [i for i, e_ in enumerate(evl) if e_[0] == "store" and e_[1] == "self" and e_[2] == qf]
        q_i = [i for i, e_ in enumerate(evl) if mentions_queue(e_)]
        if not st_i:
            closed = r.is_none(QT) is True
            ctx.ob(R4, fi.qual, "a path of close() that leaves the queue attached is the already-closed one and touches nothing", closed and not q_i,
                   "" if closed and not q_i else f"close() returns with the queue still attached (events {evl})", witness=r.witness(), node=fi.node)
            continue
        cleared = evl[st_i[0]][3] == "None"
        ctx.ob(R4, fi.qual, "queue field swapped for None before draining", cleared and all(i > st_i[0] for i in q_i),
               "" if cleared and all(i > st_i[0] for i in q_i) else f"the live queue is drained before (or without) being detached: events {evl}; racing requests take connections that are being closed", witness=r.witness(), node=fi.node)
        ctx.ob(R4, fi.qual, "the detached queue is drained after the swap", bool(q_i),
               "" if q_i else f"after the swap nothing is done with the detached queue (events {evl}): its connections stay open", witness=r.witness(), node=fi.node)
        n_drain += bool(q_i)
    ctx.sites(R4, n_drain, 1, "drain of the detached queue in close()")

    # ------------------------------------------------------------------ R5 finalizer
    R5 = ctx.rule("C02-R5", "the pool's finalizer does not keep the pool alive: weakref.finalize gets a module-level function and values that do not reach self", "E6")
    init = m.method(POOL, "__init__")
    from ..rows import GenRule, effect_rows
    from ..terms import subterms
    r5rule = GenRule(ctx, init.module, events=lambda t_, n_: "finalize" if t_ in ("weakref.finalize", "finalize") else None)
    r5rows = [r for r in effect_rows(ctx, init, r5rule, POOL, budget=600000) if r.returns]
    ctx.sites(R5, len(r5rows), 1, "returning rows of the pool constructor")
    seen5 = set()
    for r in r5rows:
        fin = r.events("finalize")
        stored = [e_[3] for e_ in r.events("store") if e_[1] == "self" and e_[2] == qf]
        k_ = (tuple(fin), tuple(stored))
        if k_ in seen5:
            continue
        seen5.add(k_)
        if not fin:
            ctx.ob(R5, init.qual, "a finalizer is registered on every constructed pool", False, "no weakref.finalize on this path: sockets queued in a dropped pool stay open", witness=r.witness(), node=init.node)
            continue
        for e_ in fin:
            args = [a_ for a_ in e_[1:] if isinstance(a_, str)]
            cbq = args[1][3:] if len(args) > 1 and args[1].startswith("fn:") else None
            ok_cb = args[:1] == ["self"] and cbq in m.funcs and m.funcs[cbq].cls is None
            rest = args[2:]
            meths = {n_ for c_ in m.mro(POOL) if c_ in m.classes for n_ in m.classes[c_].methods}
            bad = [a_ for a_ in rest if any(x == "self" or (x.startswith("self.") and x[5:] in meths) for x in subterms(a_))]
            q_ok = bool(rest) and bool(stored) and all(a_ == stored[-1].split("=")[-1] for a_ in rest)
            ctx.ob(R5, init.qual, "finalize callback is a module-level function", bool(ok_cb), str(e_), witness=r.witness(), node=init.node)
            ctx.ob(R5, init.qual, "finalize arguments do not reference self", not bad, f"captures {bad}" if bad else "", witness=r.witness(), node=init.node)
            ctx.ob(R5, init.qual, "finalize closes the pool's own queue", bool(q_ok), f"finalize args {rest}, queue field holds {stored}", witness=r.witness(), node=init.node)

    # ------------------------------------------------------------------ R6 probe lock pairing + lock order
    R6 = ctx.rule("C02-R6", "the HTTP/2 probe lock taken by acquire_and_get (returns None => held) is released exactly once on every path out of HTTPSConnection.connect; lock regions are acyclic and contain no blocking pool operation", "E4 + E8")
    fi = m.method(f"{CN}.HTTPSConnection", "connect")

    def is_acq(t, node, recv, pos, kw, st):
        return t.endswith("acquire_and_get")

    def is_rel(t, node, recv, pos, kw, st):
        return t.endswith("set_and_release")

    rule = EventRule(events=[
        ("acquire", is_acq, {"ret": lambda s, *a: AV("unk", sym="probe"), "raises": [BASE_TOP]}),
        ("release", is_rel, {"raises": []}),
    ], quiet=["threading.get_ident", "self._connect_callback", "datetime.date.today", "warnings.warn", "typing.cast", "bool",
              # no-raise table: pure accessor on an established TLS socket; it does not block, so it cannot observe an interrupt (A2)
              lambda t, n: t.endswith(".selected_alpn_protocol")],
        fields={"self._connect_callback": const(None)})

    def is_event(c):
        t = astq.call_text(c)
        return t.endswith("acquire_and_get") or t.endswith("set_and_release")

    # private helpers of the connection (an extracted probe-origin / callback / transport step) are interpreted in place
    inl6 = frozenset(q_ for q_ in helper_closure(m, [fi], stop=("_connect_tls_proxy", "_tunnel", "_new_conn")) - {fi.qual})
    fns6 = [fi.node] + [m.funcs[q_].node for q_ in inl6]
    rel = compute_relevant(fns6, is_event)
    probe_names = {n_.id for f_ in fns6 for n_ in ast.walk(f_) if isinstance(n_, ast.Name) and "http2" in n_.id}
    # locals that hold the (default: absent) test-only connect callback
    probe_names |= {t_.id for f_ in fns6 for n_ in ast.walk(f_) if isinstance(n_, ast.Assign) and astq.text(n_.value) == "self._connect_callback"
                    for t_ in n_.targets if isinstance(t_, ast.Name)}
    outs, it = run_function(m, fi, rule, f"{CN}.HTTPSConnection", inline=inl6, relevant=rel | {"target_supports_http2"} | probe_names, track_faults=True)
    ctx.states += it.budget.steps
    if not rule.seen.get("acquire") or not rule.seen.get("release"):
        raise AnalysisError("C02-R6: acquire_and_get / set_and_release events not met in HTTPSConnection.connect")
    groups = {}
    for o in outs:
        seq = evs(o)
        held = "acquire" in seq and o.st.facts.get("probe", (None, None))[1]
        nrel = seq.count("release")
        probe_none = o.st.facts.get("probe", (None, None))[1]
        if "acquire" not in seq:
            want = 0
        elif probe_none is True:
            want = 1
        elif probe_none is False:
            want = 0
        else:
            want = None  # never tested on this path: cannot be a normal completion
        ok = (want is not None and nrel == want) or (want is None and nrel == 0 and "acquire!" in seq)
        if want is None and "acquire" in seq:
            ok = False
        key = (outcome_name(o) if o.kind != "raise" else "raise", "acquire" in seq, probe_none, nrel)
        groups.setdefault(key, [True, o])
        if not ok:
            groups[key][0] = False
    for (kind, acq, pn, nrel), (ok, o) in sorted(groups.items(), key=str):
        ctx.ob(R6, fi.qual, f"exit {kind}: acquired={acq} probe-is-None={pn} releases={nrel}", ok,
               "" if ok else "the per-origin probe lock is not released exactly once on this path: other threads connecting to this origin block forever", witness=o.st.witness(), node=fi.node)
    # lock regions
    locks = {}
    for f in m.repo_funcs():
        for node in astq.walk_fn(f.node):
            if isinstance(node, ast.With):
                for item in node.items:
                    t = astq.text(item.context_expr)
                    if t.endswith("lock") or t.endswith("_lock") or t == "key_lock":
                        locks.setdefault(t, []).append((f, node))
    ctx.sites(R6, sum(len(v) for v in locks.values()), 5, "lock regions")
    blocking = ("urlopen", "_get_conn", "_make_request", "connect", "sleep", "getresponse", "request", "acquire")
    for t, regions in sorted(locks.items()):
        for f, node in regions:
            inner = []
            for c in astq.calls(ast.Module(body=node.body, type_ignores=[])):
                ct = astq.call_text(c)
                if isinstance(c.func, ast.Attribute) and c.func.attr in blocking:
                    inner.append(ct)
                if is_queue_call(c, qf, set(), ("get",)):
                    inner.append(ct)
            for w in ast.walk(ast.Module(body=node.body, type_ignores=[])):
                if isinstance(w, ast.With):
                    for item in w.items:
                        t2 = astq.text(item.context_expr)
                        if (t2.endswith("lock") or t2 == "key_lock") and t2 != t:
                            inner.append(f"nested lock {t2}")
            ctx.ob(R6, f.qual, f"region `with {t}` holds no blocking call / foreign lock", not inner,
                   "" if not inner else f"inside the region: {inner}", node=node)

    # ------------------------------------------------------------------ R7
    R7 = ctx.rule("C02-R7", "the slot scheduler is a stdlib thread-safe queue: ConnectionPool.QueueCls is a queue.Queue subclass", "E2 + lattice")
    c, stmt = m.find_class_attr(POOL, "QueueCls")
    if stmt is None:
        raise AnalysisError("QueueCls not found")
    q = m.resolve_name(c.module, stmt.value)
    ok = q is not None and m.issub(q, "queue.Queue")
    ctx.ob(R7, c.qual, f"QueueCls = {astq.text(stmt.value)}", ok, "" if ok else f"{q} is not a queue.Queue subclass", node=stmt)
    # blocking mode of every take / give on the queue, read off the effect rows (aliases, keyword / positional / **dict forms and
    # private helpers are all the same call there):  Queue.get(block, timeout), Queue.put(item, block, timeout)
    def arg(args, i, name):
        for a_ in args:
            if a_.startswith(name + "="):
                return a_[len(name) + 1:]
        pos_ = [a_ for a_ in args if "=" not in a_.split("(", 1)[0]]
        return pos_[i] if i < len(pos_) else None
    gets, puts = [], []
    for fi2 in m.repo_funcs():
        if not (fi2.cls and m.issub(fi2.clsq, POOL)) or fi2.name == "__init__":
            continue
        if not any(isinstance(n_, ast.Attribute) and n_.attr == qf for n_ in ast.walk(fi2.node)):
            continue
        inl = helper_closure(m, [fi2]) - {fi2.qual}
        for r in effect_rows(ctx, fi2, GenRule(ctx, fi2.module, inline=frozenset(inl)), fi2.clsq, budget=600000):
            texts = [r.out] + [a_ for e_ in r.ev for a_ in e_ if isinstance(a_, str)] + [k_ for k_ in r.st.facts if isinstance(k_, str)]
            for t_ in texts:
                for sub_ in set(subterms(t_.split(":", 1)[-1] if t_.startswith(("return:", "raise:")) else t_)):
                    op_, as_ = destruct(sub_)
                    if op_ == "get" and as_ and as_[0] == QT:
                        gets.append((fi2, arg(list(as_[1:]), 0, "block"), sub_))
            for e_ in r.ev:
                if e_[0] == "call" and e_[1] == f"{QT}.put":
                    as_ = [a_ for a_ in e_[2:] if isinstance(a_, str)]
                    puts.append((fi2, arg(as_, 1, "block"), f"{e_[1]}({', '.join(as_)})"))
                if e_[0] == "call" and e_[1] == f"{QT}.get":
                    as_ = [a_ for a_ in e_[2:] if isinstance(a_, str)]
                    gets.append((fi2, arg(as_, 0, "block"), f"{e_[1]}({', '.join(as_)})"))
    gets = list({(x[0].qual, x[1], x[2]): x for x in gets}.values())
    puts = list({(x[0].qual, x[1], x[2]): x for x in puts}.values())
    ctx.sites(R7, len(gets), 1, "queue get sites")
    ctx.sites(R7, len(puts), 1, "queue put sites")
    for fi2, b, txt in gets:
        ok = b == "self.block"
        ctx.ob(R7, fi2.qual, f"`{txt}` blocks iff the pool is a blocking pool", ok, "" if ok else "blocking mode of the take does not follow self.block", node=fi2.node)
    for fi2, b, txt in puts:
        ok = b == "False"
        ctx.ob(R7, fi2.qual, f"`{txt}` never blocks (a full queue discards instead of deadlocking)", ok, "" if ok else "a blocking put on a full queue deadlocks the releasing thread", node=fi2.node)

    # ------------------------------------------------------------------ R8 the response-side half of the lease (shared with C01)
    R8 = ctx.rule("C02-R8", "no lost slot on the response side (shared with C01): a response gives its connection back at most once (C01-R4), an unclean body read closes response and connection and returns the slot exactly once (C01-R6), and every disposal path - read to EOF, drain_conn, release_conn - reaches the give (C01-R7); a slot lost here blocks every later request of a block=True pool", "E4 (shared with C01)")
    from .c01_more import run as _c01more

    before = len(ctx.obs)
    rules_before = dict(ctx.rules)
    _c01more(ctx)
    keep_rules = ("C01-R4", "C01-R6", "C01-R7")
    ctx.obs[before:] = [o for o in ctx.obs[before:] if o.rule in keep_rules]
    for r in list(ctx.rules):
        if r.startswith("C01-") and r not in keep_rules and r not in rules_before:
            ctx.rules.pop(r)
    bad = [o for o in ctx.obs[before:] if not o.ok]
    ctx.ob(R8, "urllib3.response.HTTPResponse", f"{len(ctx.obs) - before} shared obligations (C01-R4, C01-R6, C01-R7)", True)


# ---------------------------------------------------------------------------- R10 no lost wake-up at close() (F29)
_run_base02 = run


def run(ctx):  # noqa: F811
    _run_base02(ctx)
    from ..rows import GenRule, effect_rows, helper_closure
    from .c01 import queue_field
    m = ctx.model
    qf = queue_field(m)
    R10 = ctx.rule("C02-R10", "no lost wake-up at close(): a request that waits for a slot without a bound (block=True, pool_timeout=None) is woken when the pool is closed - close() (or the give-back on a closed pool) "
                   "feeds the detached queue so that every waiter returns from get(), and the waiter then finds the pool closed - or no wait on the queue is unbounded", "E10 effect rows of close() / _get_conn (wake-up tokens into the detached queue, closed-state re-check after the take)")
    gc = m.method(POOL, "_get_conn")
    cl = m.method(POOL, "close")
    QT = f"self.{qf}"
    # (a) can the wait be unbounded?  the timeout handed to get() is the caller's pool_timeout (None = wait for ever)
    grow = effect_rows(ctx, gc, GenRule(ctx, gc.module, inline=set(helper_closure(m, [gc], stop=("_new_conn",))) - {gc.qual}, raising={"get": "queue.Empty"}), POOL)
    unbounded = False
    n_get = 0
    from ..terms import destruct as _d, subterms as _st
    def takes(r):
        out = []
        texts = [r.out.split(":", 1)[-1]] + [a_ for e in r.ev for a_ in e[1:] if isinstance(a_, str)] + [k_ for k_ in r.st.facts if isinstance(k_, str)]
        for t_ in texts:
            for x_ in _st(t_):
                o_, a_ = _d(x_)
                if o_ == "get" and a_ and a_[0] == QT and x_ not in out:
                    out.append(x_)
        for e in r.events("call"):
            if e[1] == f"{QT}.get":
                out.append("get(" + ",".join([QT] + [a_ for a_ in e[2:] if isinstance(a_, str)]) + ")")
        return out
    for r in grow:
        for x_ in takes(r):
            n_get += 1
            args_ = list(_d(x_)[1][1:]) if _d(x_)[0] == "get" else []
            tmo = next((a_.split("=", 1)[1] for a_ in args_ if a_.startswith("timeout=")), args_[1] if len(args_) > 1 and "=" not in args_[1].split("(", 1)[0] else None)
            if tmo is None or tmo.startswith("p:") or tmo == "None":
                unbounded = True
    ctx.sites(R10, n_get, 1, "queue takes on rows of _get_conn")
    # (b) does close() (or anything it calls) put into the detached queue?
    crow = [r for r in effect_rows(ctx, cl, GenRule(ctx, cl.module), POOL) if r.returns]
    feeds = any(e[0] == "call" and isinstance(e[1], str) and e[1].rsplit(".", 1)[-1] in ("put", "put_nowait") and QT in e[1] for r in crow for e in r.ev)
    # (c) does the waiter look at the closed state again once get() returned?
    # (decided on the syntax tree: a sequential interpreter considers the field unchanged across the blocking call, which is
    # exactly what a concurrent close() falsifies)
    rechecks = False
    for q_ in [gc.qual] + sorted(set(helper_closure(m, [gc], stop=("_new_conn",))) - {gc.qual}):
        f_ = m.funcs.get(q_)
        if f_ is None:
            continue
        take_lines = [c.lineno for c in astq.calls(f_.node) if isinstance(c.func, ast.Attribute) and c.func.attr in ("get", "get_nowait") and astq.text(c.func.value) in (QT, "pool", "idle_conns", "queue_")]
        for n_ in astq.walk_fn(f_.node):
            if isinstance(n_, ast.Compare) and len(n_.ops) == 1 and isinstance(n_.ops[0], (ast.Is, ast.IsNot)) and astq.text(n_.left) == QT \
                    and isinstance(n_.comparators[0], ast.Constant) and n_.comparators[0].value is None and any(n_.lineno > l_ for l_ in take_lines):
                rechecks = True
    ok = (not unbounded) or (feeds and rechecks)
    ctx.ob(R10, cl.qual, "a request waiting for a slot without a bound is woken by close() and then fails with ClosedPoolError", ok,
           "" if ok else f"the wait can be unbounded (timeout = the caller's pool_timeout, None by default), close() feeds the detached queue: {feeds}, _get_conn re-checks the closed state after the take: {rechecks}. "
           "With maxsize=1, block=True: thread A holds the connection, thread B waits in get(), thread C calls close() (drains, detaches), A gives back - _put_conn sees the pool closed and closes the connection instead - "
           "and B waits on the orphaned queue for ever", node=cl.node)
