"""C03 - a response only ever contains bytes sent in reply to its own request."""
from __future__ import annotations

import ast

from .. import astq
from ..events import evs, outcome_name, run_function
from ..interp import AV, BASE_TOP, EXT_TOP, UNK, BaseRule, Out, const, exc, ext_top_except
from ..model import AnalysisError
from .c01 import is_queue_call, queue_aliases, queue_field, run_lease

CP = "urllib3.connectionpool"
CN = "urllib3.connection"
RS = "urllib3.response"
POOL = f"{CP}.HTTPConnectionPool"


def run(ctx):
    m, fold = ctx.model, ctx.fold
    ctx.assume("A1", "A2", "A3", "A4", "A5")
    ctx.decline("byte-level pairing of request and response on the stream (needs the bytes); stray bytes arriving after checkout are handled by http.client's own state machine (trusted, A1)")
    qf = queue_field(m)

    # ------------------------------------------------------------------ R1 checkout liveness gate
    R1 = ctx.rule("C03-R1", "checkout liveness gate: every connection taken from the queue is probed with is_connection_dropped before it is returned, and a dropped one is closed first", "E4 on _get_conn")
    fi = m.method(POOL, "_get_conn")

    class GateRule(BaseRule):
        def __init__(self):
            self.takes = 0

        def getattr(self, it, st, node, base):
            if base.kind == "self" and node.attr == qf:
                return AV("unk", sym="queue", tags=frozenset({"queue"}), none=False)
            return None

        def call(self, it, st, node, recv, pos, kw):
            t = ast.unparse(node.func)
            f = node.func
            if isinstance(f, ast.Attribute) and f.attr == "get" and recv is not None and "queue" in recv.tags:
                self.takes += 1
                s = st.copy()
                s.log(node, "TAKE ok")
                return [Out("normal", s, AV("obj", "pooled", typ=f"{CN}.HTTPConnection", sym="obj:pooled", truth=None, none=None)),
                        Out("raise", st.copy(), exc("queue.Empty")), Out("raise", st.copy(), exc("builtins.AttributeError"))]
            if t == "is_connection_dropped" or t.endswith(".is_connection_dropped"):
                s = st.copy()
                a = pos[0] if pos else UNK
                s.ts["probed"] = a.val if a.kind == "obj" else "?"
                s.log(node, "PROBE is_connection_dropped")
                return [Out("normal", s, AV("unk", sym="dropped"))]
            if t.endswith(".close") and recv is not None and recv.kind == "obj":
                s = st.copy()
                s.ts["closed"] = recv.val
                s.log(node, f"close {recv.val}")
                return [Out("normal", s, const(None))]
            if t == "self._new_conn":
                return [Out("normal", st, AV("obj", "fresh", truth=True, none=False))]
            if t in ("log.debug",):
                return [Out("normal", st, UNK)]
            return None

    rule = GateRule()
    outs, it = run_function(m, fi, rule, POOL, inline=None)
    ctx.states += it.budget.steps
    ctx.sites(R1, rule.takes, 1, "queue take in _get_conn")
    n = 0
    for o in outs:
        if o.kind != "return":
            continue
        v = o.st.view(o.val)
        if not (v.kind == "obj" and v.val == "pooled"):
            continue
        n += 1
        probed = o.st.ts.get("probed") == "pooled"
        dropped = o.st.facts.get("dropped", (None, None))[0]
        closed = o.st.ts.get("closed") == "pooled"
        ok = probed and (dropped is False or closed)
        why = "" if ok else ("a pooled connection is handed out without the liveness probe" if not probed else
                             "a connection reported dropped (EOF / unsolicited bytes pending) is handed out without being closed")
        ctx.ob(R1, fi.qual, f"return pooled connection: probed={probed} dropped={dropped} closed={closed}", ok, why, witness=o.st.witness(), node=fi.node)
    ctx.sites(R1, n, 2, "paths returning a pooled connection")

    # ------------------------------------------------------------------ R2 dropped <=> closed or readable
    R2 = ctx.rule("C03-R2", "dropped means: socket gone, or readable right now (unsolicited bytes or EOF) - decision table over is_connection_dropped and HTTPConnection.is_connected, with a zero-timeout (non-blocking) probe", "E5")
    from ..rows import GenRule, effect_rows, helper_closure
    from ..terms import T, destruct
    fd = m.func("urllib3.util.connection.is_connection_dropped")
    p0 = fd.params()[0]
    ISC = f"p:{p0}.is_connected"
    rows_d = [r for r in effect_rows(ctx, fd, GenRule(ctx, fd.module)) if r.returns]
    ctx.sites(R2, len(rows_d), 2, "rows of is_connection_dropped")
    for r in rows_d:
        t_ = r.truth(ISC)
        val = r.o.st.view(r.o.val) if r.o.kind == "return" else None
        v = (val.val if val.kind == "const" else val.truth) if val is not None else None
        if v is None and r.ret == T("not", ISC):
            v, t_ = True, False  # the negation itself is returned
        ok = t_ is not None and v is not None and bool(v) == (not t_)
        ctx.ob(R2, fd.qual, f"row is_connected={t_} -> dropped={v}", ok, "" if ok else "is_connection_dropped(conn) must be `not conn.is_connected`", witness=r.witness(), node=fd.node)
    fc = m.method(f"{CN}.HTTPConnection", "is_connected")
    if not any("property" in d for d in fc.decorators):
        raise AnalysisError("is_connected is no longer a property")
    rows_c = [r for r in effect_rows(ctx, fc, GenRule(ctx, fc.module), f"{CN}.HTTPConnection") if r.returns]
    ctx.sites(R2, len(rows_c), 3, "rows of is_connected")
    nprobe = 0
    table = set()
    for r in rows_c:
        probes = [e_ for e_ in r.events("call") if e_[1] == "wait_for_read"]
        sock_none = r.is_none("self.sock")
        readable = None
        for e_ in probes:
            nprobe += 1
            args = [a_ for a_ in e_[2:] if isinstance(a_, str)]
            to = [a_.split("=", 1)[1] for a_ in args if a_.startswith("timeout=")] or args[1:2]
            okt = bool(to) and destruct(to[0])[0] == "const" and destruct(to[0])[1] in (0, 0.0) and not isinstance(destruct(to[0])[1], bool)
            ctx.ob(R2, fc.qual, "probe uses a zero timeout (never blocks, never waits for data)", okt, f"timeout={to[0] if to else 'missing'}", witness=r.witness(), node=fc.node)
            ctx.ob(R2, fc.qual, "probe waits on this connection's socket", args[:1] == ["self.sock"], f"waits on {args[:1]}", witness=r.witness(), node=fc.node)
            readable = r.truth(T("wait_for_read", *args))
        val = r.o.st.view(r.o.val) if r.o.kind == "return" else None
        v = (val.val if val.kind == "const" else val.truth) if val is not None else None
        if sock_none is None and r.truth("self.sock") is False:
            sock_none = True  # `if not self.sock` form
        table.add((sock_none, readable, v))
        want_v = (sock_none is False) and (readable is False)
        decided = sock_none is True or (sock_none is False and readable is not None)
        ok = decided and v is not None and bool(v) == want_v
        ctx.ob(R2, fc.qual, f"row sock-is-None={sock_none} readable={readable} -> is_connected={v}", ok,
               "" if ok else "a closed or readable (EOF / stray bytes pending) connection would be reported alive", witness=r.witness(), node=fc.node)
    ctx.sites(R2, nprobe, 1, "wait_for_read probes on rows")

    # ------------------------------------------------------------------ R3 = C01-R1d shared
    before = len(ctx.obs)
    for cls in (POOL, f"{CP}.HTTPSConnectionPool"):
        run_lease(ctx, cls)
    ctx.obs[before:] = [o for o in ctx.obs[before:] if o.ok or o.rule in ("C01-R1d", "C01-R1e", "C01-R1g")]
    for r in list(ctx.rules):
        if r.startswith("C01-") and r not in ("C01-R1", "C01-R1d", "C01-R1e", "C01-R1g"):
            ctx.rules.pop(r)
    ctx.rules["C01-R1"]["decides"] = "(shared with C01; reported here as C03-R3) a live connection re-enters the queue only after a cleanly completed exchange, otherwise closed or replaced by a placeholder; never used after give; never both queued and owned by a response"
    ctx.rules["C01-R1"]["engine"] = "E4"

    # ------------------------------------------------------------------ R4 who feeds the queue
    R4 = ctx.rule("C03-R4", "only _put_conn (and the constructor's placeholders) feed the queue; _put_conn is called only from urlopen's cleanup and HTTPResponse.release_conn; release_conn is called internally only once the stdlib response is closed", "E8 who-may-call")
    feeders = []
    for f in m.repo_funcs():
        if "emscripten" in f.module:
            continue
        al = queue_aliases(f.node, qf)
        for c in astq.calls(f.node):
            if is_queue_call(c, qf, al, ("put", "put_nowait")):
                feeders.append((f, c))
            # foreign:  <x>.pool.put(...)
            elif isinstance(c.func, ast.Attribute) and c.func.attr in ("put", "put_nowait") and isinstance(c.func.value, ast.Attribute) and c.func.value.attr == qf:
                feeders.append((f, c))
    ctx.sites(R4, len(feeders), 2, "queue put sites")
    for f, c in feeders:
        ok = f.cls is not None and m.issub(f.clsq, POOL) and f.name in ("__init__", "_put_conn")
        if f.name == "__init__":
            a0 = c.args[0] if c.args else None
            if isinstance(a0, ast.Name):
                # a local that only ever holds None (`placeholder = None`)
                vals = [n_.value for n_ in astq.walk_fn(f.node) if isinstance(n_, (ast.Assign, ast.AnnAssign)) and n_.value is not None
                        and any(isinstance(t_, ast.Name) and t_.id == a0.id for t_ in (n_.targets if isinstance(n_, ast.Assign) else [n_.target]))]
                def nones(e_):
                    """an iterable display that can only yield None: [None] * n, (None,) * n, [None, None]"""
                    if isinstance(e_, ast.BinOp) and isinstance(e_.op, ast.Mult):
                        return nones(e_.left) or nones(e_.right)
                    return isinstance(e_, (ast.List, ast.Tuple)) and bool(e_.elts) and all(isinstance(x_, ast.Constant) and x_.value is None for x_ in e_.elts)
                loops = [n_ for n_ in astq.walk_fn(f.node) if isinstance(n_, ast.For) and isinstance(n_.target, ast.Name) and n_.target.id == a0.id]
                only_none = all(isinstance(v_, ast.Constant) and v_.value is None for v_ in vals) and all(nones(l_.iter) for l_ in loops)
                ok = ok and bool(vals or loops) and only_none
            else:
                ok = ok and isinstance(a0, ast.Constant) and a0.value is None
        ctx.ob(R4, f.qual, f"`{astq.text(c)}`", ok, "" if ok else "a second door into the queue bypasses the clean-or-closed discipline", node=c)
    callers = [(f, c) for f, c in astq.func_callers(m, "_put_conn") if "emscripten" not in f.module]
    ctx.sites(R4, len(callers), 2, "_put_conn call sites")
    from ..rows import helper_closure as _hc4
    # urlopen itself, or a private helper of the pool that only urlopen's own closure reaches (the exchange step moved into a method)
    uo_ = m.method(POOL, "urlopen")
    uo_closure = {q_ for q_ in _hc4(m, [uo_], stop=("_put_conn", "_get_conn", "_new_conn", "_make_request")) if q_ in m.funcs and m.funcs[q_].cls is not None and m.issub(m.funcs[q_].clsq, POOL)}
    for f, c in callers:
        in_urlopen = f.qual == f"{POOL}.urlopen" or (f.qual in uo_closure and f.name.startswith("_") and not f.name.startswith("__"))
        ok = (in_urlopen and astq.call_text(c) == "self._put_conn") or (f.qual == f"{RS}.HTTPResponse.release_conn")
        if in_urlopen:
            # must be in the finally of the try that made the request
            t = astq.enclosing(c, ast.Try)
            ok = ok and t is not None and astq.in_body_of(c, t, "finalbody") and any(astq.call_text(c2) == "self._make_request" for s2 in t.body for c2 in astq.calls(s2))
        ctx.ob(R4, f.qual, f"`{astq.text(c)}`", ok, "" if ok else "unexpected caller of _put_conn", node=c)
    # internal hand-backs: every path of a body read (error catcher inlined, release_conn inlined) that gives the connection back
    # has the stdlib response closed / nothing left, or closed the connection first
    from .c01_more import RespRule as _RR, _resp_seeds as _rs
    from ..events import evs as _evs
    rr = m.method(f"{RS}.HTTPResponse", "_raw_read")
    seeds4 = _rs()
    seeds4[("self", "_connection")] = AV("obj", "conn", truth=True, none=False)
    seeds4[("self", "_pool")] = AV("obj", "pool", truth=True, none=False)
    seeds4[("self", "_original_response")] = AV("obj", "orig", truth=True, none=False)
    roots4 = [exc("builtins.OSError"), exc("http.client.HTTPException"), BASE_TOP]
    outs4, it4 = run_function(m, rr, _RR(fp_raises=roots4), f"{RS}.HTTPResponse", inline=set(helper_closure(m, [m.method(f"{RS}.HTTPResponse", "release_conn"), m.method(f"{RS}.HTTPResponse", "_error_catcher")])), seeds=seeds4)
    ctx.states += it4.budget.steps
    gives4 = [o for o in outs4 if "put" in _evs(o)]
    ctx.sites(R4, len(gives4), 2, "paths of a body read that hand the connection back")
    seen4 = set()
    for o in gives4:
        seq = _evs(o)
        closed_first = "conn_close" in seq and seq.index("conn_close") < seq.index("put")
        exhausted = o.st.facts.get("fp-exhausted", (None, None))[0] is True or bool(o.st.ts.get("fp_closed"))
        nothing_left = o.st.ts.get(("cmp", "field:self.length_remaining", "==", "0")) is True
        k = (closed_first, exhausted, nothing_left, bool(o.st.ts.get("fault")))
        if k in seen4:
            continue
        seen4.add(k)
        ok = closed_first or exhausted or nothing_left
        ctx.ob(R4, rr.qual, f"hand-back during a body read: closed-first={closed_first} response-closed={exhausted} nothing-left={nothing_left} after-fault={k[3]}", ok,
               "" if ok else "the connection is handed back while the stdlib response may still have unread bytes on it", witness=o.st.witness(), node=rr.node)

    # ------------------------------------------------------------------ R5 protocol-state errors take the discard path
    R5 = ctx.rule("C03-R5", "http.client's protocol-state errors (ResponseNotReady, CannotSendRequest, BadStatusLine, RemoteDisconnected, IncompleteRead, ...) are subclasses of a root urlopen's discard handler catches", "E1 lattice")
    fi = m.method(POOL, "urlopen")
    # (i) lattice, read from the stdlib source: each protocol-state error is an HTTPException (or an OSError)
    ROOTS5 = ("http.client.HTTPException", "builtins.OSError")
    for name in ("ResponseNotReady", "CannotSendRequest", "CannotSendHeader", "BadStatusLine", "RemoteDisconnected", "IncompleteRead", "LineTooLong", "ImproperConnectionState"):
        q = f"http.client.{name}"
        ok = any(m.issub(q, c) for c in ROOTS5)
        ctx.ob(R5, "http.client", f"{name} is an HTTPException / OSError", ok, "" if ok else "not under a root the discard handler is checked for")
    # (ii) those roots, raised by the request step, never leave urlopen raw and reach the retry policy: decided by interpreting
    # urlopen with the request step raising the root (whatever the spelling of the handler's class list); (iii) that such an
    # exit closes the connection before the slot goes back is the shared lease rule C01-R1d above
    from .c01_more import urlopen_translation
    ufi, table = urlopen_translation(ctx)
    seen5 = 0
    for root, escaped, errs in table:
        if root not in ROOTS5:
            continue
        seen5 += 1
        short = root.rsplit(".", 1)[-1]
        ok = not escaped and bool(errs)
        ctx.ob(R5, ufi.qual, f"{short} from the request step is caught by the discard handler", ok,
               "" if ok else "a connection left in a broken protocol state would be returned to the pool as clean", witness=escaped[0].st.witness() if escaped else None, node=ufi.node)
    ctx.sites(R5, seen5, 2, "protocol-state roots interpreted through urlopen")

    # ------------------------------------------------------------------ R6 body-less responses have length 0
    R6 = ctx.rule("C03-R6", "responses that carry no body (HEAD, 1xx, 204, 304) get length 0, so nothing on the connection is mistaken for their body", "E5 on _init_length")
    fi = m.method(f"{RS}.HTTPResponse", "_init_length")

    from ..rows import consistent
    rows6 = [r for r in effect_rows(ctx, fi, GenRule(ctx, fi.module), f"{RS}.HTTPResponse", budget=600000) if r.returns]
    n6 = 0
    cases = [(s_, mth) for s_ in (100, 101, 150, 199, 204, 304) for mth in ("GET", "HEAD")] + [(200, "HEAD"), (404, "HEAD"), (0, "HEAD")]
    for s_, mth in cases:
        assign = {"int(self.status)": s_, "self.status": s_, "p:request_method": mth, "upper(p:request_method)": mth}
        hit = []
        for r in rows6:
            ok_, dec_ = consistent(r, assign)
            if ok_ and dec_:
                hit.append(r)
        n6 += len(hit)
        bad = [r for r in hit if r.ret != "0"]
        ctx.ob(R6, fi.qual, f"status {s_}, method {mth}: every row that reaches the body-less test returns length 0 ({len(hit)} rows)", bool(hit) and not bad,
               "" if hit and not bad else (f"returns {bad[0].ret[:60]}: a body-less response keeps a non-zero expected length: bytes of the next response would be read as its body" if bad else "no row decides this case"),
               witness=bad[0].witness() if bad else None, node=fi.node)
    ctx.sites(R6, n6, 10, "body-less rows of _init_length")
    # non-vacuity of the evaluation: an ordinary response keeps its length
    assign = {"int(self.status)": 200, "self.status": 200, "p:request_method": "GET", "upper(p:request_method)": "GET"}
    plain = [r for r in rows6 if consistent(r, assign) == (True, consistent(r, assign)[1]) and consistent(r, assign)[1] and r.ret not in ("0", "None")]
    ctx.ob(R6, fi.qual, "a 200 response to GET keeps its Content-Length", bool(plain), "" if plain else "no row returns the parsed length for an ordinary response", node=fi.node)

    # ------------------------------------------------------------------ R7 response-side: an unclean body read never recycles the connection (shared with C01)
    R7 = ctx.rule("C03-R7", "a connection whose response body was not read cleanly to its end never goes back to the pool alive (shared with C01): every stdlib read happens inside the error catcher (C01-R5) and every unclean exit of the catcher - transport error, interrupt, or a consumer abandoning a chunked stream half-way (GeneratorExit) - closes the connection before the slot is returned (C01-R6): otherwise the unread rest of the body answers the next request", "E4 (shared with C01)")
    from .c01_more import run as _c01more

    before = len(ctx.obs)
    rules_before = dict(ctx.rules)
    _c01more(ctx)
    keep_rules = ("C01-R5", "C01-R6")
    ctx.obs[before:] = [o for o in ctx.obs[before:] if o.rule in keep_rules]
    for r in list(ctx.rules):
        if r.startswith("C01-") and r not in keep_rules and r not in rules_before:
            ctx.rules.pop(r)
    ctx.ob(R7, "urllib3.response.HTTPResponse", f"{len(ctx.obs) - before} shared obligations (C01-R5, C01-R6)", True)

    rule_r8(ctx)


def rule_r8(ctx):
    """C03-R8 (shared with C13): an early release never recycles a connection with an unread body."""
    m = ctx.model
    # ------------------------------------------------------------------ R8 an early release never recycles a connection with an unread body (F15)
    R8 = ctx.rule("C03-R8", "released early: on every path of HTTPResponse.release_conn that gives the connection back, the body is known to be complete (the stdlib response reports closed, or nothing is left to read, or there is no wrapped response) - or the connection was closed first; otherwise the rest of a partially read body answers the next request on that connection", "E4 on release_conn")
    from .c01_more import RespRule, _resp_seeds
    from ..events import evs

    rfi = m.method(f"{RS}.HTTPResponse", "release_conn")
    rrule = RespRule()
    seeds = _resp_seeds()
    seeds[("self", "_connection")] = AV("obj", "conn", truth=True, none=False)
    seeds[("self", "_pool")] = AV("obj", "pool", truth=True, none=False)
    from ..rows import helper_closure
    outs, it = run_function(m, rfi, rrule, f"{RS}.HTTPResponse", inline=set(helper_closure(m, [rfi])), seeds=seeds)
    ctx.states += it.budget.steps
    gives = [o for o in outs if "put" in evs(o)]
    ctx.sites(R8, len(gives), 1, "paths of release_conn that give the connection back")
    seen8 = set()
    for o in gives:
        seq = evs(o)
        closed_first = "conn_close" in seq and seq.index("conn_close") < seq.index("put")
        exhausted = o.st.facts.get("fp-exhausted", (None, None))[0] is True or bool(o.st.ts.get("fp_closed"))
        nothing_left = o.st.ts.get(("cmp", "field:self.length_remaining", "==", "0")) is True
        orig = o.st.facts.get("f:_orig", (None, None))
        no_wrapped = orig[0] is False or orig[1] is True
        k = (closed_first, exhausted, nothing_left, no_wrapped)
        if k in seen8:
            continue
        seen8.add(k)
        ok = closed_first or exhausted or nothing_left or no_wrapped
        ctx.ob(R8, rfi.qual, f"give with closed-first={closed_first} response-closed={exhausted} nothing-left={nothing_left} no-wrapped-response={no_wrapped}", ok,
               "" if ok else "a live connection goes back to the pool although its response body may be unread: read(n); release_conn(); then the next request on the pool is answered with the rest of this body",
               witness=o.st.witness(), node=rfi.node)
