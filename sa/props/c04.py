"""C04 - retries respect every budget, spare non-idempotent requests, and terminate."""
from __future__ import annotations

import ast
import itertools

from .. import astq
from ..events import outcome_name, run_function
from ..interp import AV, BASE_TOP, EXT_TOP, UNK, BaseRule, Out, const, exc
from ..model import AnalysisError
from ..rows import GenRule, effect_rows, helper_closure
from ..terms import K, T, destruct, norm, subterms
from . import resend

RT = "urllib3.util.retry"
RETRY = f"{RT}.Retry"
CP = "urllib3.connectionpool"
PM = "urllib3.poolmanager"
CN = "urllib3.connection"


def _bounds(e, hi_name="self.backoff_max"):
    """(lo>=0 proven, hi<=backoff_max proven) for a min/max expression."""
    if isinstance(e, ast.Call) and astq.call_text(e) == "float" and len(e.args) == 1:
        return _bounds(e.args[0], hi_name)
    if isinstance(e, ast.Constant) and isinstance(e.value, (int, float)) and not isinstance(e.value, bool):
        return (e.value >= 0, e.value <= 0)
    if isinstance(e, ast.Call) and astq.call_text(e) in ("max", "min") and len(e.args) >= 2 and not e.keywords:
        bs = [_bounds(a, hi_name) for a in e.args]
        if astq.call_text(e) == "max":
            return (any(b[0] for b in bs), all(b[1] for b in bs))
        return (all(b[0] for b in bs), any(b[1] for b in bs))
    if astq.text(e) == hi_name:
        return (False, True)
    return (False, False)


def run(ctx):
    m, fold = ctx.model, ctx.fold
    ctx.assume("A1", "A5")
    ctx.decline("the arithmetic of the counters (< vs <=, exact attempt counts) and of the back-off formula - numerical; only that every resend consumed an increment, that every branch spends its budget, and the clamp shape are decided")
    cls = m.cls(RETRY)

    # ------------------------------------------------------------------ R1 frozen
    R1 = ctx.rule("C04-R1", "the caller's Retry object is never mutated: no Retry method other than __init__ stores to self, and the request drivers never store to an attribute of a policy object", "E8 write sets")
    n = 0
    for name, fi in sorted(cls.methods.items()):
        if name == "__init__":
            continue
        n += 1
        st = astq.self_stores(fi.node)
        aug = [x for x in astq.walk_fn(fi.node) if isinstance(x, ast.AugAssign) and astq.is_self_attr(x.target)]
        ok = not st and not aug
        ctx.ob(R1, fi.qual, "no store to self.*", ok, "" if ok else f"mutates self.{(st or [(astq.text(aug[0].target), 0)])[0][0]}: a policy object shared between requests (pool default, caller's object) changes under them", node=fi.node)
        for c in astq.calls(fi.node):
            if astq.call_text(c) in ("setattr", "object.__setattr__") and c.args and astq.text(c.args[0]) == "self":
                ctx.ob(R1, fi.qual, f"`{astq.text(c)[:50]}`", False, "mutates self via setattr", node=c)
    ctx.sites(R1, n, 8, "Retry methods")
    for mod in (CP, PM):
        for fi in m.repo_funcs():
            if fi.module != mod:
                continue
            for node in astq.walk_fn(fi.node):
                if isinstance(node, ast.Attribute) and isinstance(node.ctx, (ast.Store, ast.Del)) and isinstance(node.value, ast.Name) and "retries" in node.value.id:
                    ctx.ob(R1, fi.qual, f"store `{astq.text(astq.stmt_of(node))[:60]}`", False, "a request driver mutates the retry policy in place", node=node)
                if isinstance(node, ast.AugAssign) and isinstance(node.target, ast.Attribute) and "retries" in astq.text(node.target.value):
                    ctx.ob(R1, fi.qual, f"store `{astq.text(node)[:60]}`", False, "a request driver mutates the retry policy in place", node=node)
    # the policy is immutable by value too: remove_headers_on_redirect frozen, history a tuple
    init = m.method(RETRY, "__init__")
    irows = [r for r in effect_rows(ctx, init, GenRule(ctx, init.module, inline=helper_closure(m, [init]) - {init.qual}), RETRY) if r.returns]
    from ..terms import destruct as _destruct
    vals_rm = {e[3] for r in irows for e in r.events("store") if e[1] == "self" and e[2] == "remove_headers_on_redirect"}
    vals_h = {e[3] for r in irows for e in r.events("store") if e[1] == "self" and e[2] == "history"}
    ok_rm = bool(vals_rm) and all(_destruct(v_)[0] in ("frozenset", "tuple") for v_ in vals_rm)
    # history: the caller's tuple, or the empty tuple
    ok_h = bool(vals_h) and all(v_ in ("p:history", "()", "tuple()") or _destruct(v_)[0] in ("tuple", "or") for v_ in vals_h)
    ctx.ob(R1, init.qual, "collections held by the policy are immutable copies (frozenset / tuple)", ok_rm and ok_h, f"remove_headers_on_redirect in {sorted(vals_rm)}, history in {sorted(vals_h)}")

    # ------------------------------------------------------------------ R2 resend => increment
    R2 = ctx.rule("C04-R2", "every resend consumed an increment: the retries argument of each self-recursive urlopen call derives from <policy>.increment(...) executed after the attempt being retried, on every path", "E6 provenance via E4")
    for which in ("pool", "manager"):
        rule, fi, outs = resend.analyse(ctx, which)
        sites = [s for s in rule.sites if s.kind == "resend"]
        ctx.sites(R2, len({resend.resend_kind(s) for s in sites}), 3 if which == "pool" else 1, f"kinds of resend (redirect / status retry / error retry) in {fi.qual}")
        seen = set()
        for s in sites:
            r = s.args.get("retries")
            tags = r.tags if r is not None else frozenset()
            key = (astq.text(s.node)[:40], s.node.lineno, tuple(sorted(t for t in tags if not t.startswith(("of:", "default:")))))
            if key in seen:
                continue
            seen.add(key)
            inc = "incremented" in tags
            how = [t for t in tags if t.startswith("inc:")]
            ctx.ob(R2, fi.qual, f"resend #{sorted({x.node.lineno for x in sites}).index(s.node.lineno) + 1} retries provenance {sorted(t for t in tags if t.startswith(('inc', 'entry', 'from_int')))}",
                   inc, "" if inc else "a path reaches this resend with a policy that was not incremented: the attempt is not counted against any budget and the loop need not terminate", witness=s.st.witness(), node=s.node)
        # an increment on the error path must be followed by that very object being resent (not the old one)
        for s in sites:
            incs = s.st.ts.get("increments", 0)
            if incs != 1:
                ctx.ob(R2, fi.qual, f"exactly one increment per attempt before resend (got {incs})", False, "", witness=s.st.witness(), node=s.node)
                break
        else:
            ctx.ob(R2, fi.qual, "exactly one increment per attempt before each resend", True)

    # ------------------------------------------------------------------ R3 new() complete
    R3 = ctx.rule("C04-R3", "Retry.new() carries every constructor parameter over, each from the field of the same name", "E8")
    newf = m.method(RETRY, "new")
    ctor = set(init.params())
    # decided on the effect rows of new(): the object returned is type(self)(...) and every constructor parameter is passed, each
    # defaulting to the field of the same name (overridable only by the keyword arguments given to new())
    nrows = [r for r in effect_rows(ctx, newf, GenRule(ctx, newf.module, inline=helper_closure(m, [newf]) - {newf.qual}), RETRY) if r.returns]
    ctx.sites(R3, len(nrows), 1, "returning rows of Retry.new")
    KWN = "p:**" + (newf.node.args.kwarg.arg if newf.node.args.kwarg else "kw")
    seen3 = set()
    for r in nrows:
        if r.ret in seen3:
            continue
        seen3.add(r.ret)
        op_, args_ = destruct(r.ret)
        fresh = op_ in ("new:type(self)", "new:self.__class__", "new:Retry", "new:cls")
        ctx.ob(R3, newf.qual, "new() builds a fresh object of the same class", bool(fresh), "" if fresh else f"returns {r.ret[:80]}", witness=r.witness(), node=newf.node)
        if not fresh:
            continue
        from ..rows import bind as _bind3
        pairs = _bind3(init.params(), list(args_))
        for p in sorted(ctor):
            v_ = pairs.get(p)
            ok = v_ in (f"self.{p}", T("over", f"self.{p}", KWN))
            ctx.ob(R3, newf.qual, f"parameter {p} carried over from self.{p}", ok,
                   "" if ok else (f"`{p}` is not copied by new(): after the first increment it silently falls back to its default" if v_ is None else f"copied from {v_}"), witness=r.witness(), node=newf.node)
        for p in sorted(k_ for k_ in pairs if k_ not in ctor and not k_.startswith(("#", "**"))):
            ctx.ob(R3, newf.qual, f"entry {p} is a constructor parameter", False, "new() passes a keyword the constructor does not take", node=newf.node)

    # ------------------------------------------------------------------ R4 back-off clamp
    R4 = ctx.rule("C04-R4", "every sleep lies in [0, backoff_max] or is a non-negative Retry-After: get_backoff_time returns 0 or max(0, min(backoff_max, e)); parse_retry_after clamps at 0; only these values reach time.sleep", "E6 min/max algebra")
    def _tb(t):
        """(lo>=0 proven, hi<=backoff_max proven) for a min/max term."""
        op, args = destruct(t)
        if op == "const":
            v = args
            return (isinstance(v, (int, float)) and not isinstance(v, bool) and v >= 0, isinstance(v, (int, float)) and not isinstance(v, bool) and v <= 0)
        if op in ("float", "abs") and len(args) == 1:
            lo, hi = _tb(args[0])
            return (lo or op == "abs", hi and op == "float")
        if op in ("max", "min") and len(args) >= 2:
            bs = [_tb(x) for x in args]
            if op == "max":
                return (any(b_[0] for b_ in bs), all(b_[1] for b_ in bs))
            return (all(b_[0] for b_ in bs), any(b_[1] for b_ in bs))
        if t == "self.backoff_max":
            return (False, True)
        return (False, False)

    def sleep_rows(fi):
        rule4 = GenRule(ctx, fi.module, events=lambda t_, n_: "sleep" if t_ in ("time.sleep", "sleep") else None)
        return effect_rows(ctx, fi, rule4, RETRY, budget=400000)

    gb = m.method(RETRY, "get_backoff_time")
    rws = [r for r in sleep_rows(gb) if r.returns]
    ctx.sites(R4, len(rws), 2, "returning rows of get_backoff_time")
    def _dec_bounds(r, t_):
        """bounds established by the decisions of the row (an explicit clamp spelt with comparisons instead of min/max)"""
        op_, a_ = destruct(t_)
        v_ = a_[0] if op_ == "float" and len(a_) == 1 else t_
        lo_ = hi_ = False
        BM = "self.backoff_max"
        for k_, val in r.st.ts.items():
            if not (isinstance(k_, tuple) and len(k_) == 4 and k_[0] == "cmp"):
                continue
            a1, o1, b1 = k_[1], k_[2], str(k_[3])
            if a1 == v_ and b1 == "0":
                lo_ = lo_ or (o1 == "<" and val is False) or (o1 == ">=" and val is True) or (o1 == ">" and val is True) or (o1 == "<=" and val is False)
            if a1 == "0" and b1 == v_:
                lo_ = lo_ or (o1 == ">" and val is False) or (o1 == "<=" and val is True) or (o1 == "<" and val is True)
            if a1 == v_ and b1 == BM:
                hi_ = hi_ or (o1 == ">" and val is False) or (o1 == "<=" and val is True) or (o1 == "<" and val is True)
            if a1 == BM and b1 == v_:
                hi_ = hi_ or (o1 == "<" and val is False) or (o1 == ">=" and val is True) or (o1 == ">" and val is True)
        if v_ == BM:
            hi_ = True
            # backoff_max itself is returned because the value exceeded it; it is the caller's configuration (non-negative by contract)
            lo_ = lo_ or any(isinstance(k_, tuple) and len(k_) == 4 and k_[0] == "cmp" and BM in (k_[1], str(k_[3])) for k_ in r.st.ts)
        if destruct(v_)[0] == "const" and isinstance(destruct(v_)[1], (int, float)) and not isinstance(destruct(v_)[1], bool):
            lo_, hi_ = lo_ or destruct(v_)[1] >= 0, hi_ or destruct(v_)[1] <= 0
        return lo_, hi_

    for r in rws:
        lo, hi = _tb(r.ret)
        if not (lo and hi):
            lo2, hi2 = _dec_bounds(r, r.ret)
            lo, hi = lo or lo2, hi or hi2
        ctx.ob(R4, gb.qual, f"`{r.ret[:90]}` within [0, backoff_max]", lo and hi,
               "" if lo and hi else f"lower bound proven={lo}, upper bound proven={hi}: the sleep can be negative or exceed backoff_max", witness=r.witness(), node=gb.node)
    pr = m.method(RETRY, "parse_retry_after")
    rws = [r for r in sleep_rows(pr) if r.returns]
    ctx.sites(R4, len(rws), 2, "returning rows of parse_retry_after")
    for r in rws:
        lo = _tb(r.ret)[0]
        ctx.ob(R4, pr.qual, f"`{r.ret[:90]}` is clamped at 0", bool(lo), "" if lo else "a Retry-After date in the past yields a negative sleep", witness=r.witness(), node=pr.node)
    GBT, GRA = T("self.get_backoff_time"), T("self.get_retry_after", "p:response")
    nsl = 0
    for name, fi in sorted(cls.methods.items()):
        if not any(astq.call_text(c).endswith("sleep") and astq.call_text(c) not in ("self.sleep", "retries.sleep") and not astq.call_text(c).startswith("self.") for c in astq.calls(fi.node)):
            continue
        for r in sleep_rows(fi):
            for e_ in r.events("sleep"):
                nsl += 1
                ok = len(e_) >= 2 and e_[1] in (GBT, GRA)
                ctx.ob(R4, fi.qual, f"sleeps `{e_[1] if len(e_) > 1 else ''}`: a clamped value", ok, "" if ok else "the value slept is not get_backoff_time() / get_retry_after(response)", witness=r.witness(), node=fi.node)
    ctx.sites(R4, nsl, 2, "time.sleep events")
    gra = m.method(RETRY, "get_retry_after")
    rws = [r for r in sleep_rows(gra) if r.returns]
    ctx.sites(R4, len(rws), 2, "rows of get_retry_after")
    for r in rws:
        op, args = destruct(r.ret)
        ok = r.ret == "None" or op == "self.parse_retry_after"
        ctx.ob(R4, gra.qual, f"Retry-After value `{r.ret[:80]}` comes from parse_retry_after", bool(ok), witness=r.witness(), node=gra.node)

    # ------------------------------------------------------------------ R5 is_retry decision table
    R5 = ctx.rule("C04-R5", "is_retry == method allowed and (status forced or (total and respect_retry_after_header and has_retry_after and status in {413,429,503}))", "E5 decision table")
    ra = fold.need_class(RETRY, "RETRY_AFTER_STATUS_CODES")
    ctx.ob(R5, RETRY, f"RETRY_AFTER_STATUS_CODES == {{413, 429, 503}}", set(ra) == {413, 429, 503}, f"folds to {sorted(ra)}")
    ir = m.method(RETRY, "is_retry")
    mr = m.method(RETRY, "_is_method_retryable")
    from ..rows import GenRule as _GR, effect_rows as _er

    def _r5_rows(fi):
        rule5 = _GR(ctx, fi.module, inline={mr.qual})
        return _er(ctx, fi, rule5, RETRY, budget=400000)

    def _r5_env(r):
        env = {"allowlist": r.truth("self.allowed_methods"), "forcelist": r.truth("self.status_forcelist"), "total": r.truth("self.total"),
               "respect": r.truth("self.respect_retry_after_header"), "has": r.truth("p:has_retry_after"), "inallow": None, "inforce": None, "inra": None}
        bad = []
        for k_, v_ in r.st.ts.items():
            if not (isinstance(k_, tuple) and len(k_) == 4 and k_[0] == "cmp" and k_[2] == "in"):
                continue
            if k_[3] == "self.allowed_methods":
                env["inallow"] = v_
                if k_[1] != T("upper", "p:method"):
                    bad.append(f"`{k_[1]}` (not the upper-cased method) is looked up in allowed_methods")
            elif k_[3] == "self.status_forcelist":
                env["inforce"] = v_
                if k_[1] != "p:status_code":
                    bad.append(f"`{k_[1]}` is looked up in status_forcelist")
            elif k_[3] in ("self.RETRY_AFTER_STATUS_CODES", "g:Retry.RETRY_AFTER_STATUS_CODES") or k_[3] == repr(ra):
                env["inra"] = v_
                if k_[1] != "p:status_code":
                    bad.append(f"`{k_[1]}` is looked up in RETRY_AFTER_STATUS_CODES")
            else:
                bad.append(f"membership in `{k_[3]}` decides")
        return env, bad

    def _r5_check(fi, rows_, spec, what):
        for r in rows_:
            if not r.returns:
                ctx.ob(R5, fi.qual, f"row -> {r.out}", False, "the decision raises", witness=r.witness(), node=fi.node)
                continue
            v = r.o.st.view(r.o.val) if r.o.kind == "return" else const(None)
            val = v.val if v.kind == "const" else v.truth
            env, bad = _r5_env(r)
            names = list(env)
            outs_spec = set()
            for combo in itertools.product([True, False], repeat=len(names)):
                e_ = dict(zip(names, combo))
                if any(env[k] is not None and env[k] != e_[k] for k in names):
                    continue
                outs_spec.add(bool(spec(e_)))
            ok = outs_spec == {bool(val)} and val is not None and not bad
            desc = ", ".join(f"{k}={v}" for k, v in env.items() if v is not None)
            ctx.ob(R5, fi.qual, f"{what} row [{desc}] -> {val}", ok,
                   "" if ok else ("; ".join(bad) if bad else f"specification gives {sorted(outs_spec)} on this row"), witness=r.witness(), node=fi.node)

    def _allowed(e_):
        return (not e_["allowlist"]) or e_["inallow"]

    rows5 = _r5_rows(ir)
    ctx.sites(R5, len(rows5), 4, "rows of is_retry")
    _r5_check(ir, rows5, lambda e_: _allowed(e_) and ((e_["forcelist"] and e_["inforce"]) or (e_["total"] and e_["respect"] and e_["has"] and e_["inra"])), "is_retry")
    rows5m = _r5_rows(mr)
    ctx.sites(R5, len(rows5m), 2, "rows of _is_method_retryable")
    _r5_check(mr, rows5m, _allowed, "method allow-list (consulted upper-cased, only when configured)")

    # ------------------------------------------------------------------ increment: R6, R9, R10 (effect rows)
    R6 = ctx.rule("C04-R6", "retries=False re-raises the original error at once: total is False and error => raise before any counter is touched", "E10 effect rows of increment")
    R9 = ctx.rule("C04-R9", "every branch of increment spends budget: the total handed to new() is the decremented one whenever it is not None; in the connect/read/other/redirect/status branch the matching counter is decremented whenever it is not None; the new object is the one tested for exhaustion and returned", "E10 effect rows (decrement = the term <field> - 1)")
    R10 = ctx.rule("C04-R10", "method gate: a read error with read=False, an unknown method or a method outside allowed_methods is re-raised, never retried", "E10 effect rows of increment")
    inc = m.method(RETRY, "increment")

    class IncRule(GenRule):
        def call_hook(self, it, st, node, recv, pos, kw):
            t = ast.unparse(node.func)
            if t == "reraise":
                s = st.copy()
                s.ts["reraised"] = True
                s.log(node, "RERAISE original error")
                return [Out("raise", s, AV("exc", "<original-error>", truth=True, none=False))]
            if t in ("RequestHistory", "type") or t.startswith("ResponseError"):
                return [Out("normal", st, AV("unk", none=False, truth=True))]
            return super().call_hook(it, st, node, recv, pos, kw)

    fields = ("total", "connect", "read", "redirect", "status", "other")
    PRED9 = ("_is_connection_error", "_is_read_error", "_is_method_retryable")
    inl9 = frozenset(q_ for q_ in helper_closure(m, [inc], stop=PRED9) - {inc.qual} if q_.rsplit(".", 1)[-1] not in PRED9)
    rule = IncRule(ctx, inc.module, inline=inl9, pure_self=PRED9 + ("new",))
    rows = effect_rows(ctx, inc, rule, RETRY, budget=900000)
    PE, PR, PM_ = "p:error", "p:response", "p:method"
    CONN, READ, RETRYABLE, LOC = T("self._is_connection_error", PE), T("self._is_read_error", PE), T("self._is_method_retryable", PM_), T(f"{PR}.get_redirect_location")

    def new_call(r):
        """kwargs (name -> term) of the self.new(...) term this row builds, and the term itself"""
        cands = set()
        for t_ in [r.ret or ""] + [k for k in r.st.facts]:
            for x in subterms(t_):
                if destruct(x)[0] == "self.new":
                    cands.add(x)
        for k_ in r.st.facts:
            if k_.startswith("self.new(") and k_.endswith(").is_exhausted()"):
                cands.add(k_[:-len(".is_exhausted()")])
        if not cands:
            return None, None
        t_ = sorted(cands, key=len)[0]
        kw = {}
        for a_ in destruct(t_)[1]:
            k_, _, v_ = a_.partition("=")
            kw[k_] = v_
        return kw, t_

    # R6
    n6 = 0
    for r in rows:
        if r.cmp("self.total", "is", "False") is True and r.truth(PE) is True:
            n6 += 1
            kw, nt = new_call(r)
            ok = r.out == "raise:<original-error>" and nt is None
            ctx.ob(R6, inc.qual, f"total is False and error -> {r.out}", bool(ok),
                   "" if ok else "with retries disabled the error is not re-raised immediately", witness=r.witness(), node=inc.node)
    ctx.sites(R6, n6, 1, "rows with total is False and an error")
    # R9
    seen = set()
    n9 = 0
    for r in rows:
        kw, nt = new_call(r)
        if nt is None:
            continue
        n9 += 1
        err, conn_e, read_e, loc, resp = r.truth(PE), r.truth(CONN), r.truth(READ), r.truth(LOC), r.truth(PR)
        if err and conn_e:
            br = "connect"
        elif err and read_e:
            br = "read"
        elif err:
            br = "other"
        elif resp and loc:
            br = "redirect"
        else:
            br = "status"

        def spent(name):
            v = kw.get(name)
            if v is None:
                return None
            fld = f"self.{name}"
            if v in (T("sub", fld, "1"), T("add", fld, "-1")):
                return True
            if r.is_none(fld) is True or v == "None":
                return "none"
            return False

        has_status = bool(resp) and r.truth(f"{PR}.status") is True
        t_sp = spent("total")
        key = (br, str(t_sp), str(spent(br)), has_status)
        if key in seen:
            continue
        seen.add(key)
        ctx.ob(R9, inc.qual, f"branch {br}: total handed to new() is decremented (or None)", t_sp in (True, "none"),
               "" if t_sp in (True, "none") else f"total={kw.get('total')}: this branch does not spend the total budget: the retry loop is unbounded for it", witness=r.witness(), node=inc.node)
        b_sp = spent(br)
        if br == "status" and not has_status and b_sp is False:
            b_sp = "n/a"  # the status counter is only spent when there is a response with a status
        ctx.ob(R9, inc.qual, f"branch {br}: its own counter handed to new() is decremented (or None)", b_sp in (True, "none", "n/a"),
               "" if b_sp in (True, "none", "n/a") else f"{br}={kw.get(br)}: the `{br}` budget is never spent in its own branch", witness=r.witness(), node=inc.node)
        for other in fields:
            if other in ("total", br):
                continue
            v = kw.get(other)
            if v is not None and v not in (f"self.{other}", "None") and f"self.{other}" in v:
                ctx.ob(R9, inc.qual, f"branch {br}: counter `{other}` untouched", False, f"branch {br} changes the `{other}` budget ({v})", witness=r.witness(), node=inc.node)
        missing = [f for f in fields if f not in kw]
        ctx.ob(R9, inc.qual, f"branch {br}: all six counters are handed to new()", not missing, f"missing {missing}")
    ctx.sites(R9, n9, 5, "rows reaching self.new(...)")
    n_ret = 0
    for r in rows:
        kw, nt = new_call(r)
        if r.returns and nt is not None:
            n_ret += 1
            ex = r.truth(T(f"{nt}.is_exhausted"))
            ok = r.ret == nt and ex is False
            if not ok or n_ret == 1:
                ctx.ob(R9, inc.qual, "returns the new policy, after it was tested and found not exhausted", ok,
                       "" if ok else "the object returned is not the freshly built one, or exhaustion is not tested on it", witness=r.witness(), node=inc.node)
    exh = [r for r in rows if r.out == "raise:MaxRetryError"]
    ok = bool(exh) and all((lambda kw_nt: kw_nt[1] is not None and r.truth(T(f"{kw_nt[1]}.is_exhausted")) is True)(new_call(r)) for r in exh)
    ctx.ob(R9, inc.qual, "exhaustion raises MaxRetryError", ok)
    # R10
    n10 = 0
    for r in rows:
        err, conn_e, read_e = r.truth(PE), r.truth(CONN), r.truth(READ)
        if not (err and conn_e is False and read_e):
            continue
        read_false = r.cmp("self.read", "is", "False")
        m_none = r.is_none(PM_)
        retryable = r.truth(RETRYABLE)
        gate = read_false is True or m_none is True or retryable is False
        if gate:
            n10 += 1
            ok = r.out == "raise:<original-error>"
            ctx.ob(R10, inc.qual, f"read error with read-is-False={read_false} method-None={m_none} retryable={retryable} -> {r.out}", bool(ok),
                   "" if ok else "a request whose method must not be re-sent after it may have reached the server is retried", witness=r.witness(), node=inc.node)
    ctx.sites(R10, n10, 3, "gated read-error rows")
    seen10 = set()
    for r in rows:
        kw, nt = new_call(r)
        if nt is None:
            continue
        err, conn_e, read_e = r.truth(PE), r.truth(CONN), r.truth(READ)
        if not (err and conn_e is False and read_e):
            continue
        read_false = r.cmp("self.read", "is", "False")
        m_none = r.is_none(PM_)
        retryable = r.truth(RETRYABLE)
        key = (read_false, m_none, retryable)
        if key in seen10:
            continue
        seen10.add(key)
        ok = read_false is False and m_none is False and retryable is True
        ctx.ob(R10, inc.qual, f"read error retried only with read-is-False={read_false} method-None={m_none} retryable={retryable}", ok,
               "" if ok else "a read error is retried on a path that never established that the method may be re-sent", witness=r.witness(), node=inc.node)
    ctx.sites(R10, len(seen10), 1, "retried read-error rows")

    # ------------------------------------------------------------------ R7 classification table
    R7 = ctx.rule("C04-R7", "classification: errors that can occur after request bytes were written (ProtocolError, ReadTimeoutError) select the method-gated read branch; only ConnectTimeoutError (also inside ProxyError) selects connect", "E1 lattice + E5")
    ice = m.method(RETRY, "_is_connection_error")
    ire = m.method(RETRY, "_is_read_error")

    from ..rows import row_bool

    def class_rows(fi):
        rws = [r for r in effect_rows(ctx, fi, GenRule(ctx, fi.module, inline=set(helper_closure(m, [fi])) - {fi.qual}), RETRY) if r.returns]
        return rws

    def verdicts_for(fi, rws, q):
        """verdicts of the rows that are consistent with `err` being exactly an instance of class q (decisions about the
        unwrapped ProxyError.original_error are left open)"""
        P = "p:" + fi.params()[0]
        out = set()
        for r in rws:
            consistent_ = True
            for k_, v_ in r.st.ts.items():
                if isinstance(k_, tuple) and k_[0] == "isinst" and k_[1] == P:
                    holds = any(c_ and m.issub(q, c_) for c_ in k_[2])
                    if holds != v_:
                        consistent_ = False
            if consistent_:
                out.add(row_bool(r))
        return out

    rrows = class_rows(ire)
    crows = class_rows(ice)
    ctx.sites(R7, len(rrows), 2, "rows of _is_read_error")
    ctx.sites(R7, len(crows), 2, "rows of _is_connection_error")
    for q in ("urllib3.exceptions.ProtocolError", "urllib3.exceptions.ReadTimeoutError"):
        v = verdicts_for(ire, rrows, q)
        ok = v == {True}
        ctx.ob(R7, ire.qual, f"{q.rsplit('.', 1)[1]} is a read error", ok, "" if ok else f"verdicts {sorted(map(str, v))}: a post-send failure is classified as `other`: non-idempotent requests are re-sent")
    for q in ("urllib3.exceptions.ConnectTimeoutError", "urllib3.exceptions.NewConnectionError", "urllib3.exceptions.SSLError"):
        v = verdicts_for(ire, rrows, q)
        ctx.ob(R7, ire.qual, f"{q.rsplit('.', 1)[1]} is not a read error", v == {False}, f"verdicts {sorted(map(str, v))}")
    for q in ("urllib3.exceptions.ProtocolError", "urllib3.exceptions.ReadTimeoutError", "urllib3.exceptions.SSLError"):
        v = verdicts_for(ice, crows, q)
        bad = v != {False}
        ctx.ob(R7, ice.qual, f"{q.rsplit('.', 1)[1]} is not a connection error", not bad, "" if not bad else f"verdicts {sorted(map(str, v))}: a post-send failure is treated as 'server never saw the request'")
    v = verdicts_for(ice, crows, "urllib3.exceptions.ConnectTimeoutError")
    ctx.ob(R7, ice.qual, "ConnectTimeoutError is a connection error", v == {True}, f"verdicts {sorted(map(str, v))}")
    # order of the branches in increment: on every row that spends the ungated `other` budget the read classification was
    # consulted and said no
    n_other = 0
    for r in rows:
        kw_, nt_ = new_call(r)
        if nt_ is None or r.truth(PE) is not True or r.truth(CONN) is True or r.truth(READ) is True:
            continue
        if kw_.get("other") in (None, "self.other"):
            continue
        n_other += 1
        ok = r.truth(READ) is False and r.truth(CONN) is False
        ctx.ob(R7, inc.qual, "read classification is consulted before the ungated `other` branch", ok,
               "" if ok else f"`other` is spent with connection-error={r.truth(CONN)} read-error={r.truth(READ)}: a failure after the request was sent may bypass the method gate", witness=r.witness(), node=inc.node)
        if n_other > 3:
            break
    ctx.sites(R7, n_other, 1, "rows of increment spending the `other` budget")

    # ------------------------------------------------------------------ R13 what the driver hands to the policy for a post-send failure
    R13 = ctx.rule("C04-R13", "translation feeds the method gate: every low-level failure that can happen after request bytes were written (http.client.HTTPException, OSError, socket.timeout) reaches increment(error=...) from urlopen's handler as an error that _is_read_error classifies as a read error - or as a ProxyError on the not-yet-connected-proxy arm (whose guard is C04-R8)", "E4 on urlopen's handlers (shared with C01-R8) x E5 rows of _is_read_error")
    from .c01_more import urlopen_translation
    ufi, table = urlopen_translation(ctx)
    POST_SEND = ("http.client.HTTPException", "builtins.OSError", "socket.timeout")
    n13 = 0
    for root, escaped, errs in table:
        if root not in POST_SEND:
            continue
        short = root.rsplit(".", 1)[-1]
        classes = {}
        for q, s_ in errs:
            classes.setdefault(q, s_)
        non_proxy = 0
        for q, s_ in sorted(classes.items(), key=lambda x: str(x[0])):
            n13 += 1
            if q is not None and m.issub(q, "urllib3.exceptions.ProxyError"):
                ctx.ob(R13, ufi.qual, f"root {short} -> ProxyError on the proxy arm", True)
                continue
            if q is not None and m.issub(q, "urllib3.exceptions.SSLError"):
                # the OSError root includes ssl.SSLError, which the handler turns into SSLError: TLS failures are not in the
                # property's read-error alphabet (timeout, reset, EOF, garbage) and follow upstream's `other` category
                continue
            non_proxy += 1
            v = verdicts_for(ire, rrows, q) if q else set()
            ok = v == {True}
            ctx.ob(R13, ufi.qual, f"root {short} -> increment(error={str(q).rsplit('.', 1)[-1]}) is gated as a read error", ok,
                   "" if ok else f"_is_read_error({str(q).rsplit('.', 1)[-1]}) gives {sorted(map(str, v))}: this failure after the request was sent spends the ungated `other` budget, so a non-idempotent request is re-sent",
                   witness=s_.witness(), node=ufi.node)
        ctx.ob(R13, ufi.qual, f"root {short} reaches the policy on the direct (non-proxy) arm", non_proxy >= 1, "" if non_proxy else "only the proxy arm hands this root to the policy")
    ctx.sites(R13, n13, 3, "error classes handed to increment for post-send roots")

    rule_r8(ctx)

    # ------------------------------------------------------------------ R11, R12
    R11 = ctx.rule("C04-R11", "the default allow-list contains only idempotent methods", "E2")
    dm = fold.need_class(RETRY, "DEFAULT_ALLOWED_METHODS")
    idem = {"HEAD", "GET", "PUT", "DELETE", "OPTIONS", "TRACE"}
    ctx.ob(R11, RETRY, f"DEFAULT_ALLOWED_METHODS {sorted(dm)} within idempotent set", set(dm) <= idem and len(dm) >= 2, f"non-idempotent: {sorted(set(dm) - idem)}")
    d = init.defaults().get("allowed_methods")
    ctx.ob(R11, init.qual, "constructor default is DEFAULT_ALLOWED_METHODS", d is not None and astq.text(d) == "DEFAULT_ALLOWED_METHODS")
    R12 = ctx.rule("C04-R12", "the server's Retry-After is honoured only when asked: the header-driven sleep is attempted only under respect_retry_after_header and a response", "E5 on sleep")
    sl = m.method(RETRY, "sleep")
    SFR = T("self.sleep_for_retry", "p:response")
    rws = sleep_rows(sl)
    n12 = 0
    for r in rws:
        calls = [e_ for e_ in r.events("call") if e_[1] == "self.sleep_for_retry"]
        if calls:
            n12 += 1
            ok = r.truth("self.respect_retry_after_header") is True and r.truth("p:response") is True and all(e_[2:3] == ("p:response",) for e_ in calls)
            ctx.ob(R12, sl.qual, "header-driven sleep attempted only under respect_retry_after_header and a response", ok,
                   "" if ok else f"respect_retry_after_header={r.truth('self.respect_retry_after_header')}, response={r.truth('p:response')} on this row", witness=r.witness(), node=sl.node)
        if any(e_[0] == "sleep" for e_ in r.ev):
            ctx.ob(R12, sl.qual, "sleep() itself does not sleep a value of its own", False, witness=r.witness(), node=sl.node)
    ctx.sites(R12, n12, 1, "rows of sleep that consult the header")
    sfr = m.method(RETRY, "sleep_for_retry")
    rws = sleep_rows(sfr)
    n12 = 0
    for r in rws:
        if r.events("sleep"):
            n12 += 1
            ok = r.truth(GRA) is True
            ctx.ob(R12, sfr.qual, "sleeps only for a positive Retry-After", ok, "" if ok else "sleeps although get_retry_after() returned nothing/zero", witness=r.witness(), node=sfr.node)
    ctx.sites(R12, n12, 1, "sleeping rows of sleep_for_retry")
    # ... and only for the statuses whose Retry-After the policy honours (413 / 429 / 503): some function on the way from sleep() to
    # time.sleep must have decided `status in RETRY_AFTER_STATUS_CODES` on the sleeping row
    from ..terms import destruct as _d12
    RA = None
    try:
        RA = set(fold.need(RETRY.rsplit(".", 1)[0], "Retry.RETRY_AFTER_STATUS_CODES"))
    except Exception:
        try:
            c_, st_ = m.find_class_attr(RETRY, "RETRY_AFTER_STATUS_CODES")
            RA = set(ast.literal_eval(st_.value.args[0] if isinstance(st_.value, ast.Call) else st_.value))
        except Exception:
            RA = {413, 429, 503}

    def status_gated(r):
        for k_, v_ in r.st.ts.items():
            if isinstance(k_, tuple) and len(k_) == 4 and k_[0] == "cmp" and k_[2] == "in" and v_ is True and "status" in str(k_[1]):
                o_, val_ = _d12(str(k_[3]))
                if o_ == "const" and isinstance(val_, (set, frozenset, tuple, list)) and set(val_) <= RA:
                    return True
                if "RETRY_AFTER_STATUS_CODES" in str(k_[3]):
                    return True
        return False
    chain = [fi_ for fi_ in (sl, sfr, m.method(RETRY, "get_retry_after")) if fi_ is not None]
    gated = False
    for fi_ in chain:
        for r in sleep_rows(fi_):
            if (r.events("sleep") or any(e_[1] in ("self.sleep_for_retry", "self.get_retry_after", "self.parse_retry_after") for e_ in r.events("call"))) and status_gated(r):
                gated = True
    ctx.ob(R12, sfr.qual, "the server's Retry-After is slept only for the statuses it is honoured for (413, 429, 503)", gated,
           "" if gated else "no function between sleep() and time.sleep tests the response status: a Retry-After on any retried response (a forcelisted 500, a followed 3xx) is slept as given, without the backoff_max clamp",
           node=sfr.node)


def rule_r8(ctx):
    """C04-R8 (shared with C09-R9): classification must not read state that the failing step's cleanup resets."""
    m = ctx.model
    # ------------------------------------------------------------------ R8 no classification on state reset by cleanup (F11)
    R8 = ctx.rule("C04-R8", "the proxy-vs-origin classification in urlopen's error handler must not read connection state that the failing step's own cleanup resets (close() clears it), or a post-send failure is reported as a proxy connect failure and bypasses the method gate", "E6 mod/ref incl. the stdlib slice")
    uo = m.method(f"{CP}.HTTPConnectionPool", "urlopen")
    close = m.method(f"{CN}.HTTPConnection", "close")
    close_writes = {a for a, _ in astq.self_stores(close.node)}
    # does the stdlib call close() on an exceptional path of getresponse?
    gr = m.find_method("http.client.HTTPConnection", "getresponse")
    std_closes = False
    if gr is not None:
        for n in astq.walk_fn(gr.node):
            if isinstance(n, ast.ExceptHandler):
                std_closes = std_closes or any(astq.call_text(c) in ("self.close", "response.close") for c in astq.calls(n))
    handlers = []
    # the request step and its handlers live in urlopen or in a private helper it delegates the exchange to
    entry = uo
    cands = [uo] + [m.funcs[q_] for q_ in sorted(helper_closure(m, [uo], stop=("_make_request", "_get_conn", "_put_conn", "_new_conn"))) if q_ != uo.qual and q_ in m.funcs]
    for cand in cands:
        for n in astq.walk_fn(cand.node):
            if isinstance(n, ast.Try) and any(astq.call_text(c) == "self._make_request" for s in n.body for c in astq.calls(s)):
                handlers = n.handlers
                uo = cand
        if handlers:
            break
    conn_names = set(astq.assigned_from(uo.node, lambda v: isinstance(v, ast.Call) and astq.call_text(v) == "self._get_conn"))
    if not conn_names:
        raise AnalysisError("urlopen: local holding the leased connection not found")
    def conn_reads(root, names, depth=0, seen=()):
        """Attribute loads on the leased connection in `root`, following it into repo helpers it is passed to."""
        out = []
        for node in ast.walk(root):
            if isinstance(node, ast.Attribute) and isinstance(node.value, ast.Name) and node.value.id in names and isinstance(node.ctx, ast.Load):
                out.append(node)
            if isinstance(node, ast.Call) and depth < 3:
                passed = [(i, a_) for i, a_ in enumerate(node.args) if isinstance(a_, ast.Name) and a_.id in names]
                passed_kw = [(k_.arg, k_.value) for k_ in node.keywords if k_.arg and isinstance(k_.value, ast.Name) and k_.value.id in names]
                if not passed and not passed_kw:
                    continue
                t_ = astq.call_text(node)
                callee = None
                if t_.startswith(("self.", "cls.")) and t_.count(".") == 1:
                    callee = m.find_method(f"{CP}.HTTPConnectionPool", t_.split(".", 1)[1])
                elif "." not in t_:
                    callee = next((f for f in m.repo_funcs() if f.module == CP and f.cls is None and f.name == t_), None)
                if callee is None or callee.qual in seen:
                    continue
                ps = [a_.arg for a_ in callee.node.args.posonlyargs + callee.node.args.args]
                if callee.cls is not None and ps and ps[0] in ("self", "cls") and not any("staticmethod" in d for d in callee.decorators):
                    ps = ps[1:]
                inner = {ps[i] for i, _ in passed if i < len(ps)} | {k_ for k_, _ in passed_kw}
                if inner:
                    out.extend(conn_reads(callee.node, inner, depth + 1, seen + (callee.qual,)))
        return out

    nn = 0
    for h in handlers:
        for node in conn_reads(h, conn_names):
            if True:
                prop = m.find_method(f"{CN}.HTTPConnection", node.attr)
                backing = set()
                if prop is not None and any("property" in d for d in prop.decorators):
                    backing = astq.attrs_read(prop.node)
                elif prop is None:
                    backing = {node.attr}
                hit = backing & close_writes
                if node.attr in ("proxy",):
                    continue
                nn += 1
                ok = not (hit and std_closes)
                ctx.ob(R8, entry.qual, f"handler reads conn.{node.attr}", ok,
                       "" if ok else f"conn.{node.attr} is backed by {sorted(hit)}, which HTTPConnection.close() resets, and http.client closes the connection on getresponse() failures: "
                       "a reset while reading the response looks like 'never connected to the proxy' -> ProxyError -> category `other` -> a POST is sent twice", node=node)
    uo = entry
    ctx.sites(R8, nn, 1, "connection-state reads in urlopen's error handler")

