"""C04 - retries respect every budget, spare non-idempotent requests, and terminate."""
from __future__ import annotations

import ast
import itertools

from .. import astq
from ..events import outcome_name, run_function
from ..interp import AV, BASE_TOP, EXT_TOP, UNK, BaseRule, Out, const, exc
from ..model import AnalysisError
from . import resend

RT = "urllib3.util.retry"
RETRY = f"{RT}.Retry"
CP = "urllib3.connectionpool"
PM = "urllib3.poolmanager"
CN = "urllib3.connection"


def _bounds(e, hi_name="self.backoff_max"):
    """(lo>=0 proven, hi<=backoff_max proven) for a min/max expression."""
    if isinstance(e, ast.Call) and astq.call_text(e) == "float" and len(e.args) == 1:
        return _bounds(e.args[0], hi_name)
    if isinstance(e, ast.Constant) and isinstance(e.value, (int, float)) and not isinstance(e.value, bool):
        return (e.value >= 0, e.value <= 0)
    if isinstance(e, ast.Call) and astq.call_text(e) in ("max", "min") and len(e.args) >= 2 and not e.keywords:
        bs = [_bounds(a, hi_name) for a in e.args]
        if astq.call_text(e) == "max":
            return (any(b[0] for b in bs), all(b[1] for b in bs))
        return (all(b[0] for b in bs), any(b[1] for b in bs))
    if astq.text(e) == hi_name:
        return (False, True)
    return (False, False)


def run(ctx):
    m, fold = ctx.model, ctx.fold
    ctx.assume("A1", "A5")
    ctx.decline("the arithmetic of the counters (< vs <=, exact attempt counts) and of the back-off formula - numerical; only that every resend consumed an increment, that every branch spends its budget, and the clamp shape are decided")
    cls = m.cls(RETRY)

    # ------------------------------------------------------------------ R1 frozen
    R1 = ctx.rule("C04-R1", "the caller's Retry object is never mutated: no Retry method other than __init__ stores to self, and the request drivers never store to an attribute of a policy object", "E8 write sets")
    n = 0
    for name, fi in sorted(cls.methods.items()):
        if name == "__init__":
            continue
        n += 1
        st = astq.self_stores(fi.node)
        aug = [x for x in astq.walk_fn(fi.node) if isinstance(x, ast.AugAssign) and astq.is_self_attr(x.target)]
        ok = not st and not aug
        ctx.ob(R1, fi.qual, "no store to self.*", ok, "" if ok else f"mutates self.{(st or [(astq.text(aug[0].target), 0)])[0][0]}: a policy object shared between requests (pool default, caller's object) changes under them", node=fi.node)
        for c in astq.calls(fi.node):
            if astq.call_text(c) in ("setattr", "object.__setattr__") and c.args and astq.text(c.args[0]) == "self":
                ctx.ob(R1, fi.qual, f"`{astq.text(c)[:50]}`", False, "mutates self via setattr", node=c)
    ctx.sites(R1, n, 8, "Retry methods")
    for mod in (CP, PM):
        for fi in m.repo_funcs():
            if fi.module != mod:
                continue
            for node in astq.walk_fn(fi.node):
                if isinstance(node, ast.Attribute) and isinstance(node.ctx, (ast.Store, ast.Del)) and isinstance(node.value, ast.Name) and "retries" in node.value.id:
                    ctx.ob(R1, fi.qual, f"store `{astq.text(astq.stmt_of(node))[:60]}`", False, "a request driver mutates the retry policy in place", node=node)
                if isinstance(node, ast.AugAssign) and isinstance(node.target, ast.Attribute) and "retries" in astq.text(node.target.value):
                    ctx.ob(R1, fi.qual, f"store `{astq.text(node)[:60]}`", False, "a request driver mutates the retry policy in place", node=node)
    # the policy is immutable by value too: remove_headers_on_redirect frozen, history a tuple
    init = m.method(RETRY, "__init__")
    txt = astq.text(init.node)
    ctx.ob(R1, init.qual, "collections held by the policy are immutable copies (frozenset / tuple)", "self.remove_headers_on_redirect = frozenset(" in txt and "self.history = history or ()" in txt)

    # ------------------------------------------------------------------ R2 resend => increment
    R2 = ctx.rule("C04-R2", "every resend consumed an increment: the retries argument of each self-recursive urlopen call derives from <policy>.increment(...) executed after the attempt being retried, on every path", "E6 provenance via E4")
    for which in ("pool", "manager"):
        rule, fi, outs = resend.analyse(ctx, which)
        sites = [s for s in rule.sites if s.kind == "resend"]
        ctx.sites(R2, len({s.node.lineno for s in sites}), 3 if which == "pool" else 1, f"resend sites in {fi.qual}")
        seen = set()
        for s in sites:
            r = s.args.get("retries")
            tags = r.tags if r is not None else frozenset()
            key = (astq.text(s.node)[:40], s.node.lineno, tuple(sorted(t for t in tags if not t.startswith(("of:", "default:")))))
            if key in seen:
                continue
            seen.add(key)
            inc = "incremented" in tags
            how = [t for t in tags if t.startswith("inc:")]
            ctx.ob(R2, fi.qual, f"resend #{sorted({x.node.lineno for x in sites}).index(s.node.lineno) + 1} retries provenance {sorted(t for t in tags if t.startswith(('inc', 'entry', 'from_int')))}",
                   inc, "" if inc else "a path reaches this resend with a policy that was not incremented: the attempt is not counted against any budget and the loop need not terminate", witness=s.st.witness(), node=s.node)
        # an increment on the error path must be followed by that very object being resent (not the old one)
        for s in sites:
            incs = s.st.ts.get("increments", 0)
            if incs != 1:
                ctx.ob(R2, fi.qual, f"exactly one increment per attempt before resend (got {incs})", False, "", witness=s.st.witness(), node=s.node)
                break
        else:
            ctx.ob(R2, fi.qual, "exactly one increment per attempt before each resend", True)

    # ------------------------------------------------------------------ R3 new() complete
    R3 = ctx.rule("C04-R3", "Retry.new() carries every constructor parameter over, each from the field of the same name", "E8")
    newf = m.method(RETRY, "new")
    ctor = set(init.params())
    dcall = [c for c in astq.calls(newf.node) if astq.call_text(c) == "dict"]
    dlit = [n for n in astq.walk_fn(newf.node) if isinstance(n, ast.Dict)]
    pairs = {}
    if dcall:
        for k in dcall[0].keywords:
            if k.arg:
                pairs[k.arg] = k.value
    elif dlit:
        for k, v in zip(dlit[0].keys, dlit[0].values):
            if isinstance(k, ast.Constant):
                pairs[k.value] = v
    if not pairs:
        raise AnalysisError("Retry.new: parameter dict not recognised")
    ctx.sites(R3, len(pairs), 10, "entries in new()'s parameter dict")
    for p in sorted(ctor):
        ok = p in pairs and astq.text(pairs[p]) == f"self.{p}"
        ctx.ob(R3, newf.qual, f"parameter {p} carried over from self.{p}", ok,
               "" if ok else (f"`{p}` is not copied by new(): after the first increment it silently falls back to its default" if p not in pairs else f"copied from {astq.text(pairs[p])}"), node=newf.node)
    for p in sorted(set(pairs) - ctor):
        ctx.ob(R3, newf.qual, f"entry {p} is a constructor parameter", False, "new() passes a keyword the constructor does not take", node=newf.node)
    rets = [r for r in astq.walk_fn(newf.node) if isinstance(r, ast.Return)]
    ok = all(isinstance(r.value, ast.Call) and astq.call_text(r.value) in ("type(self)", "self.__class__", "Retry") for r in rets) and rets
    ctx.ob(R3, newf.qual, "new() builds a fresh object of the same class", bool(ok))

    # ------------------------------------------------------------------ R4 back-off clamp
    R4 = ctx.rule("C04-R4", "every sleep lies in [0, backoff_max] or is a non-negative Retry-After: get_backoff_time returns 0 or max(0, min(backoff_max, e)); parse_retry_after clamps at 0; only these values reach time.sleep", "E6 min/max algebra")
    gb = m.method(RETRY, "get_backoff_time")
    rets = [r for r in astq.walk_fn(gb.node) if isinstance(r, ast.Return)]
    ctx.sites(R4, len(rets), 2, "returns of get_backoff_time")
    for r in rets:
        lo, hi = _bounds(r.value)
        ctx.ob(R4, gb.qual, f"`{astq.text(r)}` within [0, backoff_max]", lo and hi,
               "" if lo and hi else f"lower bound proven={lo}, upper bound proven={hi}: the sleep can be negative or exceed backoff_max", node=r)
    pr = m.method(RETRY, "parse_retry_after")
    rets = [r for r in astq.walk_fn(pr.node) if isinstance(r, ast.Return)]
    for r in rets:
        srcs = astq.assigned_values(pr.node, r.value.id) if isinstance(r.value, ast.Name) else [r.value]
        last = max(srcs, key=lambda x: getattr(x, "lineno", 0)) if srcs else None
        lo = last is not None and _bounds(last)[0]
        ctx.ob(R4, pr.qual, f"`{astq.text(r)}` is clamped at 0", bool(lo), "" if lo else "a Retry-After date in the past yields a negative sleep", node=r)
    sleeps = []
    for name, fi in sorted(cls.methods.items()):
        for c in astq.calls(fi.node):
            if astq.call_text(c) == "time.sleep":
                sleeps.append((fi, c))
    ctx.sites(R4, len(sleeps), 2, "time.sleep sites")
    for fi, c in sleeps:
        srcs = astq.sources_of(fi.node, c.args[0]) if c.args else []
        ok = bool(srcs) and all(isinstance(s, ast.Call) and astq.call_text(s) in ("self.get_backoff_time", "self.get_retry_after") for s in srcs)
        ctx.ob(R4, fi.qual, f"`{astq.text(c)}` sleeps a clamped value", ok, "; ".join(astq.text(s) for s in srcs), node=c)
    gra = m.method(RETRY, "get_retry_after")
    rets = [r for r in astq.walk_fn(gra.node) if isinstance(r, ast.Return) and r.value is not None and not (isinstance(r.value, ast.Constant) and r.value.value is None)]
    ok = all(isinstance(r.value, ast.Call) and astq.call_text(r.value) == "self.parse_retry_after" for r in rets) and rets
    ctx.ob(R4, gra.qual, "Retry-After value comes from parse_retry_after", bool(ok))

    # ------------------------------------------------------------------ R5 is_retry decision table
    R5 = ctx.rule("C04-R5", "is_retry == method allowed and (status forced or (total and respect_retry_after_header and has_retry_after and status in {413,429,503}))", "E5 decision table")
    ra = fold.need_class(RETRY, "RETRY_AFTER_STATUS_CODES")
    ctx.ob(R5, RETRY, f"RETRY_AFTER_STATUS_CODES == {{413, 429, 503}}", set(ra) == {413, 429, 503}, f"folds to {sorted(ra)}")
    ir = m.method(RETRY, "is_retry")

    class IsRetryRule(BaseRule):
        def call(self, it, st, node, recv, pos, kw):
            t = ast.unparse(node.func)
            if t == "self._is_method_retryable":
                return [Out("normal", st, AV("unk", sym="allowed"))]
            if t == "bool" and pos:
                return [Out("normal", st, AV("unk", truth=pos[0].truth, none=False))]
            return None

        def compare(self, it, st, node, a, b):
            return None

        def atom_name(self, it, st, node):
            t = ast.unparse(node)
            return t

    seeds = {("self", "status_forcelist"): AV("unk", sym="forcelist"), ("self", "total"): AV("unk", sym="total"),
             ("self", "respect_retry_after_header"): AV("unk", sym="respect"), ("self", "RETRY_AFTER_STATUS_CODES"): AV("unk", sym="RA")}
    outs, it = run_function(m, ir, IsRetryRule(), RETRY, seeds=seeds, record_decisions=True)
    rows = []
    for o in outs:
        if o.kind != "return":
            continue
        v = o.st.view(o.val)
        val = v.val if v.kind == "const" else v.truth
        rows.append((dict(o.st.ts.get("dec", ())), val, o))
    ctx.sites(R5, len(rows), 4, "rows of is_retry")

    def atom(dec, frag):
        for a, b in dec.items():
            if frag(a):
                return b
        return None

    for dec, val, o in rows:
        env = {
            "allowed": o.st.facts.get("allowed", (None, None))[0],
            "forcelist": o.st.facts.get("forcelist", (None, None))[0],
            "inforce": atom(dec, lambda a: "in self.status_forcelist" in a),
            "total": o.st.facts.get("total", (None, None))[0],
            "respect": o.st.facts.get("respect", (None, None))[0],
            "has": o.st.facts.get("p:has_retry_after", (None, None))[0],
            "inra": atom(dec, lambda a: "RETRY_AFTER_STATUS_CODES" in a),
        }
        names = list(env)
        outs_spec = set()
        for combo in itertools.product([True, False], repeat=len(names)):
            e = dict(zip(names, combo))
            if any(env[k] is not None and env[k] != e[k] for k in names):
                continue
            spec = e["allowed"] and ((e["forcelist"] and e["inforce"]) or (e["total"] and e["respect"] and e["has"] and e["inra"]))
            outs_spec.add(bool(spec))
        ok = outs_spec == {bool(val)} and val is not None
        desc = ", ".join(f"{k}={v}" for k, v in env.items() if v is not None)
        ctx.ob(R5, ir.qual, f"row [{desc}] -> {val}", ok, "" if ok else f"specification gives {sorted(outs_spec)} on this row", witness=o.st.witness(), node=ir.node)
    mr = m.method(RETRY, "_is_method_retryable")
    txt = astq.text(mr.node)
    ctx.ob(R5, mr.qual, "method allow-list is consulted case-insensitively (upper-cased) and only when configured",
           "method.upper() not in self.allowed_methods" in txt and "self.allowed_methods and" in txt)

    # ------------------------------------------------------------------ increment: R6, R9, R10 (effect rows)
    R6 = ctx.rule("C04-R6", "retries=False re-raises the original error at once: total is False and error => raise before any counter is touched", "E10 effect rows of increment")
    R9 = ctx.rule("C04-R9", "every branch of increment spends budget: the total handed to new() is the decremented one whenever it is not None; in the connect/read/other/redirect/status branch the matching counter is decremented whenever it is not None; the new object is the one tested for exhaustion and returned", "E10 effect rows (decrement = the term <field> - 1)")
    R10 = ctx.rule("C04-R10", "method gate: a read error with read=False, an unknown method or a method outside allowed_methods is re-raised, never retried", "E10 effect rows of increment")
    inc = m.method(RETRY, "increment")
    from ..rows import GenRule, effect_rows
    from ..terms import K, T, destruct, norm, subterms

    class IncRule(GenRule):
        def call_hook(self, it, st, node, recv, pos, kw):
            t = ast.unparse(node.func)
            if t == "reraise":
                s = st.copy()
                s.ts["reraised"] = True
                s.log(node, "RERAISE original error")
                return [Out("raise", s, AV("exc", "<original-error>", truth=True, none=False))]
            if t in ("RequestHistory", "type") or t.startswith("ResponseError"):
                return [Out("normal", st, AV("unk", none=False, truth=True))]
            return super().call_hook(it, st, node, recv, pos, kw)

    fields = ("total", "connect", "read", "redirect", "status", "other")
    rule = IncRule(ctx, inc.module, pure_self=("_is_connection_error", "_is_read_error", "_is_method_retryable", "new"))
    rows = effect_rows(ctx, inc, rule, RETRY, budget=900000)
    PE, PR, PM_ = "p:error", "p:response", "p:method"
    CONN, READ, RETRYABLE, LOC = T("self._is_connection_error", PE), T("self._is_read_error", PE), T("self._is_method_retryable", PM_), T(f"{PR}.get_redirect_location")

    def new_call(r):
        """kwargs (name -> term) of the self.new(...) term this row builds, and the term itself"""
        cands = set()
        for t_ in [r.ret or ""] + [k for k in r.st.facts]:
            for x in subterms(t_):
                if destruct(x)[0] == "self.new":
                    cands.add(x)
        for k_ in r.st.facts:
            if k_.startswith("self.new(") and k_.endswith(").is_exhausted()"):
                cands.add(k_[:-len(".is_exhausted()")])
        if not cands:
            return None, None
        t_ = sorted(cands, key=len)[0]
        kw = {}
        for a_ in destruct(t_)[1]:
            k_, _, v_ = a_.partition("=")
            kw[k_] = v_
        return kw, t_

    # R6
    n6 = 0
    for r in rows:
        if r.cmp("self.total", "is", "False") is True and r.truth(PE) is True:
            n6 += 1
            kw, nt = new_call(r)
            ok = r.out == "raise:<original-error>" and nt is None
            ctx.ob(R6, inc.qual, f"total is False and error -> {r.out}", bool(ok),
                   "" if ok else "with retries disabled the error is not re-raised immediately", witness=r.witness(), node=inc.node)
    ctx.sites(R6, n6, 1, "rows with total is False and an error")
    # R9
    seen = set()
    n9 = 0
    for r in rows:
        kw, nt = new_call(r)
        if nt is None:
            continue
        n9 += 1
        err, conn_e, read_e, loc, resp = r.truth(PE), r.truth(CONN), r.truth(READ), r.truth(LOC), r.truth(PR)
        if err and conn_e:
            br = "connect"
        elif err and read_e:
            br = "read"
        elif err:
            br = "other"
        elif resp and loc:
            br = "redirect"
        else:
            br = "status"

        def spent(name):
            v = kw.get(name)
            if v is None:
                return None
            fld = f"self.{name}"
            if v in (T("sub", fld, "1"), T("add", fld, "-1")):
                return True
            if r.is_none(fld) is True or v == "None":
                return "none"
            return False

        has_status = bool(resp) and r.truth(f"{PR}.status") is True
        t_sp = spent("total")
        key = (br, str(t_sp), str(spent(br)), has_status)
        if key in seen:
            continue
        seen.add(key)
        ctx.ob(R9, inc.qual, f"branch {br}: total handed to new() is decremented (or None)", t_sp in (True, "none"),
               "" if t_sp in (True, "none") else f"total={kw.get('total')}: this branch does not spend the total budget: the retry loop is unbounded for it", witness=r.witness(), node=inc.node)
        b_sp = spent(br)
        if br == "status" and not has_status and b_sp is False:
            b_sp = "n/a"  # the status counter is only spent when there is a response with a status
        ctx.ob(R9, inc.qual, f"branch {br}: its own counter handed to new() is decremented (or None)", b_sp in (True, "none", "n/a"),
               "" if b_sp in (True, "none", "n/a") else f"{br}={kw.get(br)}: the `{br}` budget is never spent in its own branch", witness=r.witness(), node=inc.node)
        for other in fields:
            if other in ("total", br):
                continue
            v = kw.get(other)
            if v is not None and v not in (f"self.{other}", "None") and f"self.{other}" in v:
                ctx.ob(R9, inc.qual, f"branch {br}: counter `{other}` untouched", False, f"branch {br} changes the `{other}` budget ({v})", witness=r.witness(), node=inc.node)
        missing = [f for f in fields if f not in kw]
        ctx.ob(R9, inc.qual, f"branch {br}: all six counters are handed to new()", not missing, f"missing {missing}")
    ctx.sites(R9, n9, 5, "rows reaching self.new(...)")
    n_ret = 0
    for r in rows:
        kw, nt = new_call(r)
        if r.returns and nt is not None:
            n_ret += 1
            ex = r.truth(T(f"{nt}.is_exhausted"))
            ok = r.ret == nt and ex is False
            if not ok or n_ret == 1:
                ctx.ob(R9, inc.qual, "returns the new policy, after it was tested and found not exhausted", ok,
                       "" if ok else "the object returned is not the freshly built one, or exhaustion is not tested on it", witness=r.witness(), node=inc.node)
    exh = [r for r in rows if r.out == "raise:MaxRetryError"]
    ok = bool(exh) and all((lambda kw_nt: kw_nt[1] is not None and r.truth(T(f"{kw_nt[1]}.is_exhausted")) is True)(new_call(r)) for r in exh)
    ctx.ob(R9, inc.qual, "exhaustion raises MaxRetryError", ok)
    # R10
    n10 = 0
    for r in rows:
        err, conn_e, read_e = r.truth(PE), r.truth(CONN), r.truth(READ)
        if not (err and conn_e is False and read_e):
            continue
        read_false = r.cmp("self.read", "is", "False")
        m_none = r.is_none(PM_)
        retryable = r.truth(RETRYABLE)
        gate = read_false is True or m_none is True or retryable is False
        if gate:
            n10 += 1
            ok = r.out == "raise:<original-error>"
            ctx.ob(R10, inc.qual, f"read error with read-is-False={read_false} method-None={m_none} retryable={retryable} -> {r.out}", bool(ok),
                   "" if ok else "a request whose method must not be re-sent after it may have reached the server is retried", witness=r.witness(), node=inc.node)
    ctx.sites(R10, n10, 3, "gated read-error rows")
    seen10 = set()
    for r in rows:
        kw, nt = new_call(r)
        if nt is None:
            continue
        err, conn_e, read_e = r.truth(PE), r.truth(CONN), r.truth(READ)
        if not (err and conn_e is False and read_e):
            continue
        read_false = r.cmp("self.read", "is", "False")
        m_none = r.is_none(PM_)
        retryable = r.truth(RETRYABLE)
        key = (read_false, m_none, retryable)
        if key in seen10:
            continue
        seen10.add(key)
        ok = read_false is False and m_none is False and retryable is True
        ctx.ob(R10, inc.qual, f"read error retried only with read-is-False={read_false} method-None={m_none} retryable={retryable}", ok,
               "" if ok else "a read error is retried on a path that never established that the method may be re-sent", witness=r.witness(), node=inc.node)
    ctx.sites(R10, len(seen10), 1, "retried read-error rows")

    # ------------------------------------------------------------------ R7 classification table
    R7 = ctx.rule("C04-R7", "classification: errors that can occur after request bytes were written (ProtocolError, ReadTimeoutError) select the method-gated read branch; only ConnectTimeoutError (also inside ProxyError) selects connect", "E1 lattice + E5")
    ice = m.method(RETRY, "_is_connection_error")
    ire = m.method(RETRY, "_is_read_error")

    def isinstance_classes(fi):
        out = []
        for c in astq.calls(fi.node):
            if astq.call_text(c) == "isinstance" and len(c.args) == 2:
                t = c.args[1]
                out.append([m.resolve_name(fi.module, e) for e in (t.elts if isinstance(t, ast.Tuple) else [t])])
        return out

    rd = [q for lst in isinstance_classes(ire) for q in lst]
    for q in ("urllib3.exceptions.ProtocolError", "urllib3.exceptions.ReadTimeoutError"):
        ok = any(m.issub(q, r) for r in rd if r)
        ctx.ob(R7, ire.qual, f"{q.rsplit('.', 1)[1]} is a read error", ok, "" if ok else "a post-send failure is classified as `other`: non-idempotent requests are re-sent")
    cn = [q for lst in isinstance_classes(ice) for q in lst]
    final = isinstance_classes(ice)[-1] if isinstance_classes(ice) else []
    for q in ("urllib3.exceptions.ProtocolError", "urllib3.exceptions.ReadTimeoutError", "urllib3.exceptions.SSLError"):
        bad = any(m.issub(q, r) for r in final if r)
        ctx.ob(R7, ice.qual, f"{q.rsplit('.', 1)[1]} is not a connection error", not bad, "" if not bad else "a post-send failure is treated as 'server never saw the request'")
    ok = any(m.issub("urllib3.exceptions.ConnectTimeoutError", r) for r in final if r)
    ctx.ob(R7, ice.qual, "ConnectTimeoutError is a connection error", ok)
    rets = [r for r in astq.walk_fn(ire.node) if isinstance(r, ast.Return)]
    ctx.ob(R7, ire.qual, "_is_read_error is a pure isinstance test", len(rets) == 1 and isinstance(rets[0].value, ast.Call) and astq.call_text(rets[0].value) == "isinstance")
    # order of the branches in increment: connection, then read, then other
    tests = [n for n in astq.walk_fn(inc.node) if isinstance(n, ast.If) and "self._is_connection_error" in astq.text(n.test)]
    ok = False
    if tests:
        t0 = tests[0]
        ok = len(t0.orelse) == 1 and isinstance(t0.orelse[0], ast.If) and "self._is_read_error" in astq.text(t0.orelse[0].test)
    ctx.ob(R7, inc.qual, "read classification is consulted before the ungated `other` branch", ok)

    rule_r8(ctx)

    # ------------------------------------------------------------------ R11, R12
    R11 = ctx.rule("C04-R11", "the default allow-list contains only idempotent methods", "E2")
    dm = fold.need_class(RETRY, "DEFAULT_ALLOWED_METHODS")
    idem = {"HEAD", "GET", "PUT", "DELETE", "OPTIONS", "TRACE"}
    ctx.ob(R11, RETRY, f"DEFAULT_ALLOWED_METHODS {sorted(dm)} within idempotent set", set(dm) <= idem and len(dm) >= 2, f"non-idempotent: {sorted(set(dm) - idem)}")
    d = init.defaults().get("allowed_methods")
    ctx.ob(R11, init.qual, "constructor default is DEFAULT_ALLOWED_METHODS", d is not None and astq.text(d) == "DEFAULT_ALLOWED_METHODS")
    R12 = ctx.rule("C04-R12", "the server's Retry-After is honoured only when asked: the header-driven sleep is attempted only under respect_retry_after_header and a response", "E5 on sleep")
    sl = m.method(RETRY, "sleep")
    cs = [c for c in astq.calls(sl.node) if astq.call_text(c) == "self.sleep_for_retry"]
    ctx.sites(R12, len(cs), 1, "sleep_for_retry call in sleep")
    for c in cs:
        g = astq.enclosing(c, ast.If)
        ok = g is not None and astq.text(g.test) in ("self.respect_retry_after_header and response", "response and self.respect_retry_after_header")
        ctx.ob(R12, sl.qual, "guarded by respect_retry_after_header and response", ok, astq.text(g.test) if g is not None else "unguarded", node=c)
    sfr = m.method(RETRY, "sleep_for_retry")
    ok = any(isinstance(n, ast.If) and isinstance(n.test, ast.Name)
             and any(isinstance(sv, ast.Call) and astq.call_text(sv) == "self.get_retry_after" for sv in astq.sources_of(sfr.node, n.test))
             and any(astq.call_text(c) == "time.sleep" for c in astq.calls(ast.Module(body=n.body, type_ignores=[])))
             for n in astq.walk_fn(sfr.node))
    ctx.ob(R12, sfr.qual, "sleeps only for a positive Retry-After", ok)


def rule_r8(ctx):
    """C04-R8 (shared with C09-R9): classification must not read state that the failing step's cleanup resets."""
    m = ctx.model
    # ------------------------------------------------------------------ R8 no classification on state reset by cleanup (F11)
    R8 = ctx.rule("C04-R8", "the proxy-vs-origin classification in urlopen's error handler must not read connection state that the failing step's own cleanup resets (close() clears it), or a post-send failure is reported as a proxy connect failure and bypasses the method gate", "E6 mod/ref incl. the stdlib slice")
    uo = m.method(f"{CP}.HTTPConnectionPool", "urlopen")
    close = m.method(f"{CN}.HTTPConnection", "close")
    close_writes = {a for a, _ in astq.self_stores(close.node)}
    # does the stdlib call close() on an exceptional path of getresponse?
    gr = m.find_method("http.client.HTTPConnection", "getresponse")
    std_closes = False
    if gr is not None:
        for n in astq.walk_fn(gr.node):
            if isinstance(n, ast.ExceptHandler):
                std_closes = std_closes or any(astq.call_text(c) in ("self.close", "response.close") for c in astq.calls(n))
    handlers = []
    for n in astq.walk_fn(uo.node):
        if isinstance(n, ast.Try) and any(astq.call_text(c) == "self._make_request" for s in n.body for c in astq.calls(s)):
            handlers = n.handlers
    conn_names = set(astq.assigned_from(uo.node, lambda v: isinstance(v, ast.Call) and astq.call_text(v) == "self._get_conn"))
    if not conn_names:
        raise AnalysisError("urlopen: local holding the leased connection not found")
    nn = 0
    for h in handlers:
        for node in ast.walk(h):
            if isinstance(node, ast.Attribute) and isinstance(node.value, ast.Name) and node.value.id in conn_names and isinstance(node.ctx, ast.Load):
                prop = m.find_method(f"{CN}.HTTPConnection", node.attr)
                backing = set()
                if prop is not None and any("property" in d for d in prop.decorators):
                    backing = astq.attrs_read(prop.node)
                elif prop is None:
                    backing = {node.attr}
                hit = backing & close_writes
                if node.attr in ("proxy",):
                    continue
                nn += 1
                ok = not (hit and std_closes)
                ctx.ob(R8, uo.qual, f"handler reads conn.{node.attr}", ok,
                       "" if ok else f"conn.{node.attr} is backed by {sorted(hit)}, which HTTPConnection.close() resets, and http.client closes the connection on getresponse() failures: "
                       "a reset while reading the response looks like 'never connected to the proxy' -> ProxyError -> category `other` -> a POST is sent twice", node=node)
    ctx.sites(R8, nn, 1, "connection-state reads in urlopen's error handler")

