"""C05 - redirects are followed only as far as the effective retry policy allows."""
from __future__ import annotations

import ast

from .. import astq
from ..events import outcome_name, run_function
from ..interp import AV, UNK, BaseRule, Out, const
from ..model import AnalysisError
from . import resend

RT = "urllib3.util.retry"
RETRY = f"{RT}.Retry"
CP = "urllib3.connectionpool"
PM = "urllib3.poolmanager"
RS = "urllib3.response"


def _status_decision(st):
    """(decided303, widened): what the path decided about the response status being 303."""
    import ast as _a
    dec303, widened = None, None
    for k, v in st.ts.items():
        if isinstance(k, tuple) and len(k) == 4 and k[0] == "cmp" and k[1] == "status" and k[2] in ("==", "in"):
            try:
                c = _a.literal_eval(k[3])
            except Exception:
                continue
            S = {c} if k[2] == "==" else set(c)
            if 303 not in S:
                continue
            if v is True:
                dec303 = True if S == {303} else dec303
                if S != {303}:
                    widened = sorted(S)
                    dec303 = True
            elif v is False:
                dec303 = False
    return dec303, widened


def _const(av):
    return av.val if av is not None and av.kind == "const" else "<sym>"


def run(ctx):
    m, fold = ctx.model, ctx.fold
    ctx.assume("A1", "A4", "A5")
    ctx.decline("counting: that the number of redirects followed never exceeds the numeric budget (arithmetic of the counters); decided instead: every followed redirect consumed an increment of the policy in effect, and which policy that is")

    pool = resend.analyse(ctx, "pool")
    mgr = resend.analyse(ctx, "manager")

    # ------------------------------------------------------------------ R1 policy derivation
    R1 = ctx.rule("C05-R1", "every layer derives the effective policy from the configured one: each Retry.from_int on a request path gets the caller's retries, the caller's redirect flag, and as default the policy configured on the object serving the request", "E6 sibling cross-check")
    for (rule, fi, outs), want_default, src in ((pool, "self.retries", "entry:retries"), (mgr, "pool.retries", "entry:kw.retries")):
        sites = [s for s in rule.sites if s.kind == "from_int"]
        ctx.sites(R1, len({s.node.lineno for s in sites}), 1, f"Retry.from_int calls in {fi.qual}")
        seen = set()
        for s in sites:
            if s.node.lineno in seen:
                continue
            seen.add(s.node.lineno)
            d, r, rd = s.args["default"], s.args["retries"], s.args["redirect"]
            okd = d is not None and want_default in d.tags
            ctx.ob(R1, fi.qual, astq.text(s.node), okd,
                   "" if okd else f"no default derived from {want_default}: a policy configured on the {'pool' if want_default.startswith('self') else 'manager/pool'} (e.g. retries=False, Retry(redirect=0)) is ignored whenever the request itself passes none", node=s.node)
            okr = r is not None and src in r.tags
            ctx.ob(R1, fi.qual, f"from_int converts the caller's retries ({src})", okr, node=s.node)
            okf = rd is not None and "entry:redirect" in rd.tags
            ctx.ob(R1, fi.qual, "from_int receives the caller's redirect flag", okf, node=s.node)
    # an explicit Retry object is used as is
    fint = m.method(RETRY, "from_int")
    from ..rows import GenRule, effect_rows
    from ..terms import T, destruct

    frows = [r for r in effect_rows(ctx, fint, GenRule(ctx, fint.module), RETRY) if r.returns]
    ctx.sites(R1, len(frows), 3, "returning rows of Retry.from_int")
    pr, pd, prd = "p:retries", "p:default", "p:redirect"
    seen_f = set()
    for r in frows:
        none_r, none_d = r.is_none(pr), r.is_none(pd)
        op, args = destruct(r.ret)
        src = pr if none_r is False else (pd if none_d is False else "cls.DEFAULT")
        isret = None
        cur = pr if none_r is False else (pd if none_d is False else None)
        for key_, v in r.st.ts.items():
            if isinstance(key_, tuple) and key_ and key_[0] == "isinst" and any("Retry" in (c or "") for c in key_[2]):
                if (cur is not None and key_[1] == cur) or (cur is None and "DEFAULT" in key_[1]):
                    isret = v
        key = (r.ret, none_r, none_d, isret)
        if key in seen_f:
            continue
        seen_f.add(key)
        if none_r is True and none_d is None and r.truth(pd) is not None:
            # the fallback is chosen on the truthiness of the configured default: a falsy policy (retries=False, retries=0 on the pool
            # or the manager) is then replaced by the class default and redirects are followed against the configuration
            okn = r.truth(pd) is True and (r.ret == pd or pd in r.ret)
            ctx.ob(R1, fint.qual, f"from_int: the configured default is used whenever it is not None (decided on truthiness={r.truth(pd)}, returns {r.ret[:40]})", okn,
                   "" if okn else "`default or DEFAULT`: a falsy configured policy (False, 0) is ignored in favour of Retry.DEFAULT (3 redirects followed)", witness=r.witness(), node=fint.node)
            continue
        if none_r is True and none_d is False:
            want_src = pd
        elif none_r is True:
            want_src = None  # class default
        else:
            want_src = pr
        if isret is True:
            ok = (r.ret == want_src) if want_src else ("DEFAULT" in r.ret)
            ctx.ob(R1, fint.qual, f"from_int: a Retry instance ({'retries' if want_src == pr else 'default' if want_src == pd else 'class default'}) is returned unchanged", ok,
                   "" if ok else f"returns {r.ret}: an explicit policy (or the configured default) is replaced", witness=r.witness(), node=fint.node)
        else:
            ok = op in ("new:cls", "new:Retry")
            from ..rows import bind as _bind
            b_ = _bind(m.method(RETRY, "__init__").params(), list(args))
            first = b_.get("total", "")  # positional or by keyword
            ok = bool(ok) and (first == want_src if want_src else "DEFAULT" in first)
            ctx.ob(R1, fint.qual, f"from_int: a non-Retry value is converted from {'the retries argument' if want_src == pr else 'the default' if want_src == pd else 'the class default'}", ok,
                   "" if ok else f"returns {r.ret}: None must fall back to the default, then to Retry.DEFAULT", witness=r.witness(), node=fint.node)
            # the redirect flag: truthy -> None (the redirect budget is left to total), falsy -> False (no redirects)
            t = r.truth(prd)
            rd = ["redirect=" + b_["redirect"]] if "redirect" in b_ else []
            want = {True: ("redirect=None",), False: ("redirect=False",)}.get(t, ())
            okr = bool(rd) and rd[0] in want
            ctx.ob(R3_from_int(ctx), fint.qual, f"from_int: redirect flag truthy={t} -> {rd[0] if rd else 'missing'}", okr,
                   "" if okr else "a false redirect flag must become redirect=False (budget 0, 3xx handed back), a true one None", witness=r.witness(), node=fint.node)
    # the pool hands the policy in effect back on the response (the manager's hop may rely on it)
    mr = m.method(f"{CP}.HTTPConnectionPool", "_make_request")
    ok = any(isinstance(n, ast.Assign) and isinstance(n.targets[0], ast.Attribute) and n.targets[0].attr == "retries" and astq.text(n.value) == "retries"
             and any(isinstance(sv, ast.Call) and isinstance(sv.func, ast.Attribute) and sv.func.attr == "getresponse" for sv in astq.sources_of(mr.node, n.targets[0].value))
             for n in astq.walk_fn(mr.node))
    ctx.ob(R1, mr.qual, "the response carries the policy in effect (response.retries = retries)", ok)

    # ------------------------------------------------------------------ R2 followed redirect consumed an increment(response)
    R2 = ctx.rule("C05-R2", "a followed redirect consumed an increment: every resend whose target is a redirect location carries a policy produced by increment(response=...)", "E6 via E4")
    R3 = ctx.rule("C05-R3", "disabled means not followed: no resend to a redirect location on a path where the caller's redirect flag is false; the manager forces redirect=False and assert_same_host=False into the pool-level call; Retry(redirect=False) / total=False give redirect=0 and raise_on_redirect=False", "E4 + E5")
    R4 = ctx.rule("C05-R4", "303 rewriting, and only 303: on the status==303 branch the resend uses the constant GET, no body and headers passed through _prepare_for_method_change; otherwise method and body are the caller's", "E4 + E6, both siblings")
    R6 = ctx.rule("C05-R6", "the manager resolves the Location against the current URL (urljoin) and resends to that result", "E6")
    for (rule, fi, outs), is_mgr in ((pool, False), (mgr, True)):
        sites = [s for s in rule.sites if s.kind == "resend"]
        redirect_sites = []
        for s in sites:
            u = s.args.get("url")
            if u is not None and (("location" in u.tags) or any(t.startswith("ref:location") or t == "urljoin" for t in u.tags)):
                redirect_sites.append(s)
        ctx.sites(R2, len(redirect_sites), 1, f"redirect resends in {fi.qual}")
        seen = set()
        for s in redirect_sites:
            r = s.args.get("retries")
            tags = r.tags if r is not None else frozenset()
            red = s.st.facts.get("p:redirect", (None, None))[0]
            is303, widened = _status_decision(s.st)
            if widened:
                ctx.ob(R4, fi.qual, f"method rewrite applies to statuses {widened}", False, "the GET rewrite of 303 is applied to other redirect statuses, which must keep method and body", witness=s.st.witness(), node=s.node)
                continue
            meth, body, hdrs = s.args.get("method"), s.args.get("body"), s.args.get("headers")
            key = (tuple(sorted(t for t in tags if t.startswith("inc"))), red, is303, _const(meth), _const(body) if body is not None else "absent", "method-change" in (hdrs.tags if hdrs is not None else ()))
            if key in seen:
                continue
            seen.add(key)
            ok2 = "inc:response" in tags and "incremented" in tags
            ctx.ob(R2, fi.qual, f"redirect resend carries {sorted(t for t in tags if t.startswith('inc'))}", ok2,
                   "" if ok2 else "a redirect is followed without charging the redirect/total budget", witness=s.st.witness(), node=s.node)
            ctx.ob(R3, fi.qual, f"redirect resend only with redirect flag true (flag on path: {red})", red is True,
                   "" if red is True else "a 3xx is followed although the caller passed redirect=False", witness=s.st.witness(), node=s.node)
            # the flag is passed on unchanged
            rf = s.args.get("redirect")
            okf = rf is not None and "entry:redirect" in rf.tags
            ctx.ob(R3, fi.qual, "the caller's redirect flag is passed on to the next hop", okf, witness=s.st.witness(), node=s.node)
            if is303 is True:
                ok4 = meth is not None and meth.kind == "const" and meth.val == "GET" and body is not None and body.kind == "const" and body.val is None \
                    and hdrs is not None and "method-change" in hdrs.tags
                ctx.ob(R4, fi.qual, f"303: method={_const(meth)} body={_const(body) if body is not None else 'absent'} headers-stripped={'method-change' in (hdrs.tags if hdrs is not None else ())}", ok4,
                       "" if ok4 else "after a 303 the follow-up is not a body-less GET without content headers", witness=s.st.witness(), node=s.node)
                bp = s.args.get("body_pos")
                okbp = bp is None or (bp.kind == "const" and bp.val is None)
                ctx.ob(R4, fi.qual, "303: no body position is carried to the body-less follow-up", okbp,
                       "" if okbp else "the follow-up GET fails with ValueError from rewind_body(None, pos) instead of being sent", witness=s.st.witness(), node=s.node)
            elif is303 is False:
                okm = meth is not None and "entry:method" in meth.tags
                if is_mgr:
                    okb = body is None or "entry" in " ".join(body.tags) or (body.kind == "unk" and not body.tags) or "entry:kw.body" in body.tags
                    # body lives in **kw: must be untouched (slot absent or entry value)
                    okb = body is None or body.kind != "const"
                else:
                    okb = body is not None and "entry:body" in body.tags
                okh = hdrs is None or "method-change" not in hdrs.tags
                ctx.ob(R4, fi.qual, f"not 303: method/body/headers are the caller's (method={sorted(meth.tags) if meth is not None else None})", bool(okm and okb and okh),
                       "" if (okm and okb and okh) else "a 301/302/307/308 follow-up changes the method or drops the body / content headers", witness=s.st.witness(), node=s.node)
            else:
                ctx.ob(R4, fi.qual, "status==303 is decided before the redirect resend", False, "no 303 test on this path", witness=s.st.witness(), node=s.node)
            if is_mgr:
                u = s.args.get("url")
                ok6 = "urljoin" in u.tags and "base:entry:url" in u.tags and "ref:location" in u.tags
                ctx.ob(R6, fi.qual, f"resend target provenance {sorted(u.tags)}", ok6,
                       "" if ok6 else "a relative Location is not resolved against the URL that was requested", witness=s.st.witness(), node=s.node)
    # every other resend of the pool (retry after an error, retry on a status) is made under the caller's flags too: a
    # retried attempt that may follow redirects although the caller (the manager, always) disabled them is a followed redirect
    rule, fi, outs = pool
    others = [s for s in rule.sites if s.kind == "resend" and not (s.args.get("url") is not None and (("location" in s.args["url"].tags) or any(t.startswith("ref:location") or t == "urljoin" for t in s.args["url"].tags)))]
    ctx.sites(R3, len({resend.resend_kind(s) for s in others}), 2, f"kinds of retry resend (after a status / after an error) in {fi.qual}")
    seen = set()
    for s in others:
        rf, af = s.args.get("redirect"), s.args.get("assert_same_host")
        okf = rf is not None and "entry:redirect" in rf.tags
        oka = af is not None and "entry:assert_same_host" in af.tags
        k = (s.node.lineno, okf, oka)
        if k in seen:
            continue
        seen.add(k)
        ctx.ob(R3, fi.qual, f"retry resend at line {s.node.lineno} keeps the caller's redirect flag", okf,
               "" if okf else "the retried attempt runs with the default redirect=True: a 3xx answer to the retry is followed although the caller passed redirect=False (the manager always does)", witness=s.st.witness(), node=s.node)
        ctx.ob(R3, fi.qual, f"retry resend at line {s.node.lineno} keeps the caller's assert_same_host", oka,
               "" if oka else "the retried attempt runs with the default assert_same_host", witness=s.st.witness(), node=s.node)

    # manager forces redirect / assert_same_host off in the pool-level call
    rule, fi, outs = mgr
    pcs = [s for s in rule.sites if s.kind == "poolcall"]
    ctx.sites(R3, len({s.node.lineno for s in pcs}), 1, "pool-level calls in PoolManager.urlopen")
    seen = set()
    for s in pcs:
        if s.node.lineno in seen:
            continue
        seen.add(s.node.lineno)
        r, a = s.args.get("redirect"), s.args.get("assert_same_host")
        ok = r is not None and r.kind == "const" and r.val is False and a is not None and a.kind == "const" and a.val is False
        ctx.ob(R3, fi.qual, f"`{astq.text(s.node)[:50]}` carries redirect=False, assert_same_host=False", ok,
               "" if ok else "the pool would follow redirects on the manager's behalf (without the cross-origin header strip) or refuse cross-host hops", node=s.node)
    # Retry.__init__ rows: redirect=False or total=False => redirect budget 0 and raise_on_redirect False (effect rows)
    init = m.method(RETRY, "__init__")
    irows = [r for r in effect_rows(ctx, init, GenRule(ctx, init.module), RETRY) if r.returns]
    ctx.sites(R3, len(irows), 2, "rows of Retry.__init__")
    seen_i = set()
    n_dis = 0
    for r in irows:
        rf, tf = r.cmp("p:redirect", "is", "False"), r.cmp("p:total", "is", "False")
        stores = {e[2]: e[3] for e in r.events("store") if e[1] == "self"}
        key = (rf, tf, stores.get("redirect"), stores.get("raise_on_redirect"))
        if key in seen_i:
            continue
        seen_i.add(key)
        disabled = rf is True or tf is True
        if disabled:
            n_dis += 1
            ok = stores.get("redirect") == "0" and stores.get("raise_on_redirect") == "False"
            ctx.ob(R3, init.qual, f"Retry(redirect is False={rf}, total is False={tf}) -> redirect budget 0, raise_on_redirect False", ok,
                   "" if ok else f"stores redirect={stores.get('redirect')}, raise_on_redirect={stores.get('raise_on_redirect')}: a disabled policy would follow (or raise on) a redirect", witness=r.witness(), node=init.node)
        elif rf is False and tf is False:
            ok = stores.get("redirect") == "p:redirect" and stores.get("raise_on_redirect") == "p:raise_on_redirect"
            ctx.ob(R3, init.qual, "an enabled policy keeps its redirect budget and raise_on_redirect", ok,
                   "" if ok else f"stores redirect={stores.get('redirect')}, raise_on_redirect={stores.get('raise_on_redirect')}", witness=r.witness(), node=init.node)
    ctx.sites(R3, n_dis, 1, "rows of Retry.__init__ with redirects disabled")
    # the two disabling inputs, each fixed to the constant False: every row must end with budget 0 / no raise
    for label, fixed in (("redirect=False", {"redirect": const(False)}), ("total=False", {"total": const(False)})):
        drows = [r for r in effect_rows(ctx, init, GenRule(ctx, init.module), RETRY, params=fixed) if r.returns]
        ctx.sites(R3, len(drows), 1, f"rows of Retry.__init__ with {label}")
        seen_d = set()
        for r in drows:
            stores = {e[2]: e[3] for e in r.events("store") if e[1] == "self"}
            key = (stores.get("redirect"), stores.get("raise_on_redirect"))
            if key in seen_d:
                continue
            seen_d.add(key)
            ok = stores.get("redirect") == "0" and stores.get("raise_on_redirect") == "False"
            ctx.ob(R3, init.qual, f"Retry({label}) -> redirect budget 0, raise_on_redirect False", ok,
                   "" if ok else f"stores redirect={stores.get('redirect')}, raise_on_redirect={stores.get('raise_on_redirect')}: with {label} a redirect would still be followed (or raise)", witness=r.witness(), node=init.node)
    # _prepare_for_method_change
    pm = m.method("urllib3._collections.HTTPHeaderDict", "_prepare_for_method_change")
    names = set()
    discards_each = False
    for n in astq.walk_fn(pm.node):
        if isinstance(n, ast.For):
            # the iterable: a literal, or a name that folds to a constant sequence (local or module level)
            vals = None
            cands = [n.iter] + (astq.sources_of(pm.node, n.iter) if isinstance(n.iter, ast.Name) else [])
            for cnd in cands:
                try:
                    vals = fold.ev(cnd, pm.module)
                    break
                except Exception:
                    continue
            if vals is None and isinstance(n.iter, ast.Name):
                vals = fold.try_module_const(pm.module, n.iter.id)
            if isinstance(vals, (list, tuple, set, frozenset)):
                body_calls = [c for c in astq.calls(ast.Module(body=n.body, type_ignores=[])) if isinstance(c.func, ast.Attribute) and c.func.attr in ("discard", "pop", "__delitem__")
                              and c.args and astq.text(c.args[0]) == astq.text(n.target)]
                body_dels = [d for d in ast.walk(ast.Module(body=n.body, type_ignores=[])) if isinstance(d, ast.Delete)]
                if body_calls or body_dels:
                    discards_each = True
                    names |= {x.lower() for x in vals if isinstance(x, str)}
    for c in astq.calls(pm.node):
        if isinstance(c.func, ast.Attribute) and c.func.attr in ("discard", "pop") and c.args and isinstance(c.args[0], ast.Constant) and isinstance(c.args[0].value, str):
            names.add(c.args[0].value.lower())
            discards_each = True
    need = {"content-length", "content-type", "content-encoding", "content-language", "content-location"}
    ctx.ob(R4, pm.qual, f"content headers discarded include {sorted(need)}", need <= names, f"missing {sorted(need - names)}")
    ctx.ob(R4, pm.qual, "each listed header is discarded", discards_each)

    # ------------------------------------------------------------------ R5 exhaustion
    R5 = ctx.rule("C05-R5", "when the budget runs out: MaxRetryError from increment(response=...) is re-raised only if raise_on_redirect / raise_on_status, after draining the response; otherwise the last response is returned", "E4, both siblings")
    for (rule, fi, outs) in (pool, mgr):
        nn = 0
        seen = set()
        for o in outs:
            path = [t for _, t in o.st.path()]
            if not any("increment(response) raises MaxRetryError" in t for t in path):
                continue
            ror = o.st.facts.get("retries.raise_on_redirect", (None, None))[0]
            ros = o.st.facts.get("retries.raise_on_status", (None, None))[0]
            flag = ror if ror is not None else ros
            key = (o.kind, str(o.val.val) if o.kind == "raise" else "", flag, o.st.ts.get("drained", 0) > 0)
            if key in seen:
                continue
            seen.add(key)
            nn += 1
            if o.kind == "raise":
                ok = o.val.val == "urllib3.exceptions.MaxRetryError" and flag is True and o.st.ts.get("drained", 0) >= 1
                why = "MaxRetryError escapes although raise_on_redirect/raise_on_status is false, or without draining the response (its connection stays checked out)"
            else:
                v = o.st.view(o.val) if o.val is not None else None
                ok = o.kind == "return" and v is not None and v.kind == "obj" and v.val == "response" and flag is False
                why = "budget exhausted with raise_on_* false must return the last response itself"
            ctx.ob(R5, fi.qual, f"exhausted: raise_on={flag} -> {outcome_name(o)} drained={o.st.ts.get('drained', 0)}", ok, "" if ok else why, witness=o.st.witness(), node=fi.node)
        ctx.sites(R5, nn, 2, f"exhaustion exits in {fi.qual}")

    # ------------------------------------------------------------------ R7
    R7 = ctx.rule("C05-R7", "redirect statuses are exactly 301, 302, 303, 307, 308 and a Location is reported only for them", "E2 + E5")
    rs = fold.need_class(f"{RS}.BaseHTTPResponse", "REDIRECT_STATUSES")
    ctx.ob(R7, f"{RS}.BaseHTTPResponse", f"REDIRECT_STATUSES == [301, 302, 303, 307, 308]", set(rs) == {301, 302, 303, 307, 308}, f"folds to {sorted(rs)}")
    grl = m.method(f"{RS}.BaseHTTPResponse", "get_redirect_location")
    grows = [r for r in effect_rows(ctx, grl, GenRule(ctx, grl.module), f"{RS}.BaseHTTPResponse") if r.returns]
    ctx.sites(R7, len(grows), 2, "rows of get_redirect_location")
    n_in = n_out = 0
    for r in grows:
        member = None
        for k, v in r.st.ts.items():
            if isinstance(k, tuple) and len(k) == 4 and k[0] == "cmp" and k[1] == "self.status" and k[2] == "in" and "REDIRECT_STATUSES" in k[3]:
                member = v
            if isinstance(k, tuple) and len(k) == 4 and k[0] == "cmp" and k[1] == "self.status" and k[2] == "in" and k[3].startswith(("(", "[", "frozenset", "{")):
                member = v
        if member is True:
            n_in += 1
            ok = r.ret in (T("self.headers.get", "'location'"), T("self.headers.get", "'Location'"), T("get", "self.headers", "'location'"), T("get", "self.headers", "'Location'"))
            ctx.ob(R7, grl.qual, "a redirect status reports the Location header", ok, "" if ok else f"returns {r.ret}", witness=r.witness(), node=grl.node)
        elif member is False:
            n_out += 1
            ctx.ob(R7, grl.qual, "any other status yields False", r.ret == "False", "" if r.ret == "False" else f"returns {r.ret}: a Location is reported for a status that is not a redirect", witness=r.witness(), node=grl.node)
        else:
            ctx.ob(R7, grl.qual, "the Location header is returned only under membership in REDIRECT_STATUSES", False, f"a row returns {r.ret} without testing the status against REDIRECT_STATUSES", witness=r.witness(), node=grl.node)
    ctx.sites(R7, n_in, 1, "rows for redirect statuses")
    ctx.sites(R7, n_out, 1, "rows for other statuses")


def R3_from_int(ctx):
    return "C05-R3"


# ---------------------------------------------------------------------------- R8 shared with C04 (added after seeded change C05/disabled-total-stays-false)
_run_base05 = run


def run(ctx):  # noqa: F811
    _run_base05(ctx)
    R8 = ctx.rule("C05-R8", "following a redirect spends the policy (shared with C04): in every branch of Retry.increment - the redirect branch included - the total and the branch's own counter handed to the new policy are the decremented ones whenever they are not None, the new policy is the one tested for exhaustion, and retries=False re-raises at once (C04-R6, C04-R9); a branch that keeps `total` unchanged (e.g. leaves False as False) never exhausts a disabled policy, and every redirect is followed", "E4 provenance (shared with C04)")
    from .c04 import run as _c04

    before = len(ctx.obs)
    rules_before = dict(ctx.rules)
    declined_before = list(ctx.declined)
    _c04(ctx)
    ctx.declined[:] = declined_before
    keep_rules = ("C04-R6", "C04-R9")
    ctx.obs[before:] = [o for o in ctx.obs[before:] if o.rule in keep_rules]
    for r in list(ctx.rules):
        if r.startswith("C04-") and r not in keep_rules and r not in rules_before:
            ctx.rules.pop(r)
    ctx.ob(R8, "urllib3.util.retry.Retry.increment", f"{len(ctx.obs) - before} shared obligations (C04-R6, C04-R9)", True)
