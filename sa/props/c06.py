"""C06 - credentials are never forwarded to a different origin on redirect."""
from __future__ import annotations

import ast

from .. import astq
from ..model import AnalysisError
from . import resend

RT = "urllib3.util.retry"
RETRY = f"{RT}.Retry"
CP = "urllib3.connectionpool"
PM = "urllib3.poolmanager"


def run(ctx):
    m, fold = ctx.model, ctx.fold
    ctx.assume("A4", "A5")
    ctx.decline("that parse_url reports the right host for the redirect target is C14's subject; header *values* are not inspected")
    rule, fi, outs = resend.analyse(ctx, "manager")

    R1 = ctx.rule("C06-R1", "strip dominates every cross-origin resend: when is_same_host(target) is false and the policy's removal set is non-empty, the headers passed on are a copy from which every name whose lower-cased form is in the set was removed; the target tested is the one resent to", "E4 + E6 on PoolManager.urlopen")
    R2 = ctx.rule("C06-R2", "matching is case-insensitive on both sides: the header name is lower-cased at the test and the policy's set is lower-cased at construction", "E6")
    R5 = ctx.rule("C06-R5", "the stripped mapping is what is splatted into the resend, so later hops start from stripped headers", "E6")
    sites = [s for s in rule.sites if s.kind == "resend"]
    ctx.sites(R1, len(sites), 1, "resend sites in PoolManager.urlopen")
    seen = set()
    n_cross = 0
    n_member_true = 0
    for s in sites:
        same = s.st.facts.get("same_host", (None, None))[0]
        rm = s.st.facts.get("retries.remove_headers_on_redirect", (None, None))[0]
        hdrs = s.args.get("headers")
        strip = s.st.ts.get("strip", ())
        member_key = tuple(v for k_, v in sorted(s.st.ts.items(), key=str) if isinstance(k_, tuple) and len(k_) == 4 and k_[0] == "cmp" and k_[2] == "in" and str(k_[3]).startswith("retries.remove_headers"))
        key = (same, rm, tuple(sorted(hdrs.tags)) if hdrs is not None else None, bool(strip), s.st.ts.get("same_host_arg"), member_key)
        if key in seen:
            continue
        seen.add(key)
        url = s.args.get("url")
        if rm is True:
            # the origin test must have been made, on the very target that is resent to
            tested = s.st.ts.get("same_host_arg")
            ok = same is not None and tested == tuple(sorted(url.tags)) and s.st.ts.get("same_host_recv") == "pool"
            ctx.ob(R1, fi.qual, f"origin of the resend target is tested against the pool that served the request (tested {tested})", ok,
                   "" if ok else "the same-origin test is skipped or made on another URL than the one requested next", witness=s.st.witness(), node=s.node)
        if same is False and rm is True:
            n_cross += 1
            ok_copy = hdrs is not None and "copy" in hdrs.tags
            ctx.ob(R1, fi.qual, "cross-origin resend carries a fresh copy of the headers (the caller's mapping is not edited in place)", ok_copy,
                   "" if ok_copy else "the headers passed to the other origin are not the stripped copy", witness=s.st.witness(), node=s.node)
            member = list(member_key)
            stripped_this = [x for x in strip if hdrs is not None and x[0] == hdrs.sym]
            if member and member[-1] is True:
                n_member_true += 1
                ok_strip = bool(stripped_this)
                ctx.ob(R1, fi.qual, "a header whose name is in the removal set is removed from the copy that is sent", ok_strip,
                       "" if ok_strip else "credentials named by remove_headers_on_redirect are forwarded to another origin", witness=s.st.witness(), node=s.node)
                if stripped_this:
                    keytags = set(stripped_this[0][1])
                    ctx.ob(R1, fi.qual, "the name removed is the header name under test", "header-name" in keytags, f"pop key provenance {sorted(keytags)}", witness=s.st.witness(), node=s.node)
            elif member and member[-1] is False:
                ctx.ob(R1, fi.qual, "a header outside the removal set is preserved", not stripped_this,
                       "" if not stripped_this else "headers not named by the policy are dropped too", witness=s.st.witness(), node=s.node)
            if s.st.ts.get("loop_broke"):
                ctx.ob(R1, fi.qual, "the strip loop runs over all headers", False, "the loop can stop early: later credential headers are forwarded", witness=s.st.witness(), node=s.node)
            if member:
                test = set(s.st.ts.get("strip_test") or ())
                ok2 = "lower" in test and "header-name" in test
                ctx.ob(R2, fi.qual, "header name is lower-cased before the membership test", ok2,
                       "" if ok2 else f"tested value provenance {sorted(test)}: `Authorization` vs `authorization` would not match", witness=s.st.witness(), node=s.node)
                it_src = [t for t in test if t.startswith("iter:")]
                ctx.ob(R1, fi.qual, "the loop examines the headers of the outgoing request", any("headers" in t or "entry" in t or "copy" in t for t in it_src), f"{it_src}", witness=s.st.witness(), node=s.node)
            ctx.ob(R5, fi.qual, "the stripped copy is the `headers` slot of the **kw splat", ok_copy, witness=s.st.witness(), node=s.node)
    ctx.sites(R1, n_member_true, 1, "paths on which a header matches the removal set")
    ctx.sites(R1, n_cross, 1, "cross-origin resend paths")
    # the copy must come from the headers slot itself (provenance of the mapping that was copied)
    for s in sites:
        hdrs = s.args.get("headers")
        if s.st.facts.get("same_host", (None, None))[0] is False and s.st.facts.get("retries.remove_headers_on_redirect", (None, None))[0] is True and hdrs is not None and "copy" in hdrs.tags:
            src = sorted(t for t in hdrs.tags if t != "copy")
            ok = any(t in ("entry", "self.headers") or t.startswith("entry:") for t in src)
            if ("copy-src", tuple(src)) not in seen:
                seen.add(("copy-src", tuple(src)))
                ctx.ob(R1, fi.qual, f"the copy is taken from the request's headers (provenance {src})", ok, "" if ok else "the stripped copy is not a copy of the outgoing headers", witness=s.st.witness(), node=s.node)
    # no other place re-injects headers after the strip: between strip and resend, kw['headers'] is not re-bound to something unstripped (R5 covers via provenance)

    init = m.method(RETRY, "__init__")
    from ..rows import GenRule as _G2, effect_rows as _e2
    from ..terms import destruct as _d2
    rows2 = [r for r in _e2(ctx, init, _G2(ctx, init.module), RETRY, budget=600000) if r.returns]
    stores2 = {e_[3] for r in rows2 for e_ in r.events("store") if e_[1] == "self" and e_[2] == "remove_headers_on_redirect"}
    ctx.sites(R2, len(stores2), 1, "distinct values stored to remove_headers_on_redirect")
    for r in rows2:
        if not any(e_[1] == "self" and e_[2] == "remove_headers_on_redirect" for e_ in r.events("store")):
            ctx.ob(R2, init.qual, "every constructed policy stores its removal set", False, witness=r.witness(), node=init.node)
            break
    SRC = "p:remove_headers_on_redirect"
    for t_ in sorted(stores2):
        op, args = _d2(t_)
        if t_ in ("frozenset(set())", "frozenset()", "set()", "frozenset(list())"):
            continue  # the builder before its loop ran (no names configured): nothing to lower-case
        ok = op in ("frozenset", "set") and len(args) == 1
        if ok:
            op2, a2 = _d2(args[0])
            if op2 in ("set", "list") and len(a2) == 1:
                op2, a2 = _d2(a2[0])  # a set built first, then frozen
            if op2 == "rep":
                op2 = "gen"  # built by an explicit loop adding one lower-cased name per configured name
            # a comprehension over the configured names whose element is the lower-cased name, without a filter
            ok = op2 in ("gen", "listcomp", "setcomp") and len(a2) == 2 and a2[1] == SRC and _d2(a2[0]) == ("lower", (f"each({SRC})",))
        ctx.ob(R2, init.qual, f"`{t_[:100]}` lower-cases the configured names", ok, "" if ok else "names configured as `Authorization` would never match the lower-cased test", node=init.node)
    others = []
    for name, f2 in m.cls(RETRY).methods.items():
        if name != "__init__":
            others += [a for a, _ in astq.self_stores(f2.node) if a == "remove_headers_on_redirect"]
    ctx.ob(R2, RETRY, "remove_headers_on_redirect is only set by the constructor", not others)

    R3 = ctx.rule("C06-R3", "defaults: Authorization, Cookie and Proxy-Authorization are removed by default", "E2")
    d = fold.need_class(RETRY, "DEFAULT_REMOVE_HEADERS_ON_REDIRECT")
    low = {x.lower() for x in d}
    for h in ("authorization", "cookie", "proxy-authorization"):
        ctx.ob(R3, RETRY, f"default removal set contains {h}", h in low, f"folds to {sorted(low)}")
    dflt = init.defaults().get("remove_headers_on_redirect")
    ctx.ob(R3, init.qual, "constructor default is DEFAULT_REMOVE_HEADERS_ON_REDIRECT", dflt is not None and astq.text(dflt) == "DEFAULT_REMOVE_HEADERS_ON_REDIRECT")

    R4 = ctx.rule("C06-R4", "origin equality compares scheme, host and port: is_same_host returns (scheme, host, port) == (self.scheme, self.host, self.port) with the URL's host normalised like the pool's and default ports made explicit", "E6 read-set")
    ish = m.method(f"{CP}.HTTPConnectionPool", "is_same_host")
    from ..rows import GenRule, effect_rows, helper_closure
    from ..terms import K, T, destruct
    # field order of the Url named tuple (so that `parse_url(u).host` and positional unpacking name the same component)
    urlcls = m.classes.get("urllib3.util.url.Url")
    fields = []
    if urlcls is not None:
        for b_ in urlcls.node.bases:
            if isinstance(b_, ast.Call) and len(b_.args) == 2 and isinstance(b_.args[1], (ast.List, ast.Tuple)):
                fields = [e.elts[0].value for e in b_.args[1].elts if isinstance(e, ast.Tuple) and isinstance(e.elts[0], ast.Constant)]
    if fields[:4] != ["scheme", "auth", "host", "port"]:
        raise AnalysisError(f"Url named-tuple fields not recognised: {fields}")
    PU = T("parse_url", "p:url")

    def canon(t_):
        for i_, f_ in enumerate(fields):
            t_ = t_.replace(f"{PU}.{f_}", f"idx({PU},{i_})")
        return t_

    S_, H_, P_ = (f"idx({PU},{i_})" for i_ in (0, 2, 3))
    rows4 = [r for r in effect_rows(ctx, ish, GenRule(ctx, ish.module, pure_self=()), f"{CP}.HTTPConnectionPool", budget=900000) if r.returns]
    ctx.sites(R4, len(rows4), 8, "rows of is_same_host")
    seen4 = set()
    n_cmp = 0
    for r in rows4:
        facts = {canon(k_): v_ for k_, v_ in r.st.facts.items()}
        memos = {}
        others = []
        for k_, v_ in r.st.ts.items():
            if isinstance(k_, tuple) and len(k_) == 4 and k_[0] == "cmp":
                a_, b_ = canon(k_[1]), canon(k_[3])
                if k_[2] == "==" and (a_ in ("self.scheme", "self.host", "self.port") or b_ in ("self.scheme", "self.host", "self.port")):
                    fld, oth = (a_, b_) if a_.startswith("self.") and a_ in ("self.scheme", "self.host", "self.port") else (b_, a_)
                    memos[fld] = (oth, v_)
                else:
                    others.append((a_, k_[2], b_, v_))
        val = r.o.st.view(r.o.val) if r.o.kind == "return" else None
        v = (val.val if val.kind == "const" else val.truth) if val is not None else None
        path_only = facts.get(T("startswith", "p:url", K("/")), (None, None))[0]
        if not memos:
            ok = v is True and path_only is True
            key = ("nocmp", v, path_only)
            if key not in seen4:
                seen4.add(key)
                ctx.ob(R4, ish.qual, f"without any comparison -> {v} only for a path-only target (startswith('/')={path_only})", ok,
                       "" if ok else "a target is declared same-origin (or not) without comparing scheme, host and port", witness=r.witness(), node=ish.node)
            continue
        n_cmp += 1
        s_truth = facts.get(S_, (None, None))[0]
        scheme_eff = S_ if s_truth is True else (K("http") if s_truth is False else None)
        problems = []
        if "self.scheme" in memos:
            if scheme_eff is None or memos["self.scheme"][0] != scheme_eff:
                problems.append(f"scheme compared is `{memos['self.scheme'][0]}` (expected the target's scheme, 'http' when absent)")
        DFLT = T("get", "g:port_by_scheme", scheme_eff) if scheme_eff else None
        if "self.host" in memos:
            h_none = facts.get(H_, (None, None))[1]
            want_h = H_ if h_none is True else (T("_normalize_host", H_, scheme_eff) if scheme_eff else None)
            got = memos["self.host"][0]
            if not (got == want_h or (h_none is True and got == "None")):
                problems.append(f"host compared is `{got}` (expected the target's host through the pool's normaliser)")
        if "self.port" in memos:
            got = memos["self.port"][0]
            sp, up = facts.get("self.port", (None, None))[0], facts.get(P_, (None, None))[0]
            eqd = None
            for a_, op_, b_, v_ in others:
                if op_ == "==" and {a_, b_} == {P_, DFLT}:
                    eqd = v_
            if got == DFLT:
                okp = sp is True and up is False
            elif got == "None":
                okp = sp is False and eqd is True
            elif got == P_:
                okp = not (sp is True and up is False) and not (sp is False and eqd is True) and sp is not None
            else:
                okp = False
            if not okp:
                problems.append(f"port compared is `{got}` with self.port truthy={sp}, target port truthy={up}, target port == default: {eqd} (default ports must be made explicit on exactly one side)")
        truths = [memos[f_][1] for f_ in ("self.scheme", "self.host", "self.port") if f_ in memos]
        if v is True and not (len(truths) == 3 and all(truths)):
            problems.append(f"returns True with only {sorted(memos)} compared equal")
        if v is False and all(truths):
            problems.append("returns False although every comparison made was equal")
        if v is None:
            problems.append("result is not a decided boolean")
        key = (tuple(sorted((k_, v_[0], v_[1]) for k_, v_ in memos.items())), v, tuple(problems))
        if key in seen4:
            continue
        seen4.add(key)
        ctx.ob(R4, ish.qual, f"row {[(k_[5:], v_[1]) for k_, v_ in sorted(memos.items())]} -> {v}", not problems,
               "; ".join(problems) + (": a redirect that changes only the scheme, host or port would count as same origin" if problems else ""), witness=r.witness(), node=ish.node)
    ctx.sites(R4, n_cmp, 6, "comparing rows of is_same_host")
    cpi = m.method(f"{CP}.ConnectionPool", "__init__")
    # private helpers in place: whatever the pool-level wrapper is called, the stored host is the URL-level normaliser's result
    # for the given host (with or without its IPv6 brackets) - the value is_same_host compares against
    from ..rows import helper_closure as _hc6
    from ..terms import subterms as _sub6
    rows_i = [r for r in effect_rows(ctx, cpi, GenRule(ctx, cpi.module, inline=frozenset(_hc6(m, [cpi]) - {cpi.qual})), f"{CP}.ConnectionPool") if r.returns]
    ctx.sites(R4, len(rows_i), 1, "returning rows of ConnectionPool.__init__")
    seen_h = set()
    for r in rows_i:
        st_ = [e_[3] for e_ in r.events("store") if e_[1] == "self" and e_[2] == "host"]
        final = st_[-1] if st_ else None
        if final in seen_h:
            continue
        seen_h.add(final)
        norms = [x_ for x_ in set(_sub6(final or "")) if destruct(x_)[0] in ("url._normalize_host", "normalize_host", "_normalize_host") and destruct(x_)[1][:1] == ("p:host",)]
        atoms = {x_ for x_ in set(_sub6(final or "")) if destruct(x_)[0] is None and x_.startswith(("p:", "self."))}
        ok = bool(norms) and atoms <= {"p:host", "p:scheme", "self.scheme"}
        ctx.ob(R4, cpi.qual, "the pool's host is the normalised form of the given host", ok, f"self.host = {final[:120] if final else '?'}", witness=r.witness(), node=cpi.node)
    pbs = fold.need("urllib3.connection", "port_by_scheme")
    ctx.ob(R4, "urllib3.connection", "default ports: http 80, https 443", pbs == {"http": 80, "https": 443}, str(pbs))

    R6 = ctx.rule("C06-R6", "a single-host pool refuses a cross-host target before any I/O: the HostChangedError test dominates taking a connection, and the redirect resend forwards assert_same_host unchanged", "E3 dominance via E4")
    prule, pfi, pouts = resend.analyse(ctx, "pool")
    reqs = [s for s in prule.sites if s.kind == "request"]
    ctx.sites(R6, len(reqs), 1, "request steps in HTTPConnectionPool.urlopen")
    bad = None
    n_ok = 0
    for s in reqs:
        a = s.st.facts.get("p:assert_same_host", (None, None))[0]
        same = s.st.facts.get("pool_same_host", (None, None))[0]
        if a is False or same is True:
            n_ok += 1
        else:
            bad = s
    ctx.ob(R6, pfi.qual, "every request step is preceded by `not assert_same_host or is_same_host(url)`", bad is None,
           "" if bad is None else "a request is sent although assert_same_host was requested and the host test was not passed", witness=bad.st.witness() if bad else None, node=pfi.node)
    rs = [s for s in prule.sites if s.kind == "resend"]
    okf = all("entry:assert_same_host" in s.args["assert_same_host"].tags for s in rs if "assert_same_host" in s.args) and all("assert_same_host" in s.args for s in rs)
    ctx.ob(R6, pfi.qual, "every pool-level resend forwards assert_same_host unchanged", bool(okf))
    # the tested url is the request's url (provenance of the argument of the host test on the paths that reach a request / a refusal)
    args_seen = set()
    for o in pouts:
        a_ = o.st.ts.get("pool_same_host_arg")
        if a_ is not None:
            args_seen.add(a_)
    for s in reqs:
        a_ = s.st.ts.get("pool_same_host_arg")
        if a_ is not None:
            args_seen.add(a_)
    ctx.ob(R6, pfi.qual, "the host test is made on the url being requested", bool(args_seen) and all(a_ == ("entry:url",) for a_ in args_seen), f"tested: {sorted(args_seen)}")
    refusals = [o for o in pouts if o.kind == "raise" and str(o.val.val).endswith("HostChangedError")]
    okr = bool(refusals) and all(o.st.facts.get("p:assert_same_host", (None, None))[0] is True and o.st.facts.get("pool_same_host", (None, None))[0] is False
                                 and not o.st.ts.get("got_conn") and not o.st.ts.get("attempt") for o in refusals)
    ctx.ob(R6, pfi.qual, "the refusal is HostChangedError, raised before a connection is taken, exactly when the host test fails under assert_same_host", okr,
           "" if okr else f"{len(refusals)} refusing paths", witness=refusals[0].st.witness() if refusals else None, node=pfi.node)


# ---------------------------------------------------------------------------- R7 (added after seeded change C06/empty-stripped-headers-redefaulted)
def _run_r7(ctx):
    R7 = ctx.rule("C06-R7", "the manager's default headers stand in only when the caller supplied none: on every path where PoolManager.urlopen hands the pool self.headers, the `headers` keyword was absent (or None) - never merely falsy, because the stripped mapping of a redirect chain may be empty and would then be replaced by the very defaults that were stripped", "E4 decisions at the pool-level call (shared resend analysis)")
    rule, fi, outs = resend.analyse(ctx, "manager")
    calls = [s for s in rule.sites if s.kind == "poolcall"]
    ctx.sites(R7, len(calls), 1, "pool-level calls in PoolManager.urlopen")
    seen = set()
    n = 0
    for s in calls:
        h = s.args.get("headers")
        if h is None or "self.headers" not in h.tags:
            continue
        absent = None
        for k, v in s.st.ts.items():
            if isinstance(k, tuple) and len(k) == 4 and k[0] == "cmp" and k[1] == repr("headers") and k[2] == "in":
                absent = (v is False)
        entry = [(k, v) for k, v in s.st.facts.items() if k.endswith("['headers']@entry")]
        falsy = any(v[0] is False for _, v in entry)
        is_none = any(v[1] is True for _, v in entry)
        key = (absent, falsy, is_none)
        if key in seen:
            continue
        seen.add(key)
        n += 1
        ok = absent is True or is_none
        why = ""
        if not ok:
            why = ("the defaults replace a mapping the caller did supply but which is empty: after a cross-origin redirect whose headers were all credentials, the next hop starts from self.headers again and sends them to the new origin"
                   if falsy else "the defaults replace the headers whatever the caller supplied")
        ctx.ob(R7, fi.qual, f"defaults used with `headers` absent={absent} falsy={falsy} None={is_none}", ok, why, witness=s.st.witness(), node=s.node)
    ctx.sites(R7, n, 1, "paths on which the defaults are used")


_run_base06 = run


def run(ctx):  # noqa: F811
    _run_base06(ctx)
    _run_r7(ctx)
