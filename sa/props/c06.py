"""C06 - credentials are never forwarded to a different origin on redirect."""
from __future__ import annotations

import ast

from .. import astq
from ..model import AnalysisError
from . import resend

RT = "urllib3.util.retry"
RETRY = f"{RT}.Retry"
CP = "urllib3.connectionpool"
PM = "urllib3.poolmanager"


def run(ctx):
    m, fold = ctx.model, ctx.fold
    ctx.assume("A4", "A5")
    ctx.decline("that parse_url reports the right host for the redirect target is C14's subject; header *values* are not inspected")
    rule, fi, outs = resend.analyse(ctx, "manager")

    R1 = ctx.rule("C06-R1", "strip dominates every cross-origin resend: when is_same_host(target) is false and the policy's removal set is non-empty, the headers passed on are a copy from which every name whose lower-cased form is in the set was removed; the target tested is the one resent to", "E4 + E6 on PoolManager.urlopen")
    R2 = ctx.rule("C06-R2", "matching is case-insensitive on both sides: the header name is lower-cased at the test and the policy's set is lower-cased at construction", "E6")
    R5 = ctx.rule("C06-R5", "the stripped mapping is what is splatted into the resend, so later hops start from stripped headers", "E6")
    sites = [s for s in rule.sites if s.kind == "resend"]
    ctx.sites(R1, len(sites), 1, "resend sites in PoolManager.urlopen")
    seen = set()
    n_cross = 0
    n_member_true = 0
    for s in sites:
        same = s.st.facts.get("same_host", (None, None))[0]
        rm = s.st.facts.get("retries.remove_headers_on_redirect", (None, None))[0]
        hdrs = s.args.get("headers")
        strip = s.st.ts.get("strip", ())
        member_key = tuple(v for a, v in s.dec().items() if "remove_headers_on_redirect" in a and " in " in a)
        key = (same, rm, tuple(sorted(hdrs.tags)) if hdrs is not None else None, bool(strip), s.st.ts.get("same_host_arg"), member_key)
        if key in seen:
            continue
        seen.add(key)
        url = s.args.get("url")
        if rm is True:
            # the origin test must have been made, on the very target that is resent to
            tested = s.st.ts.get("same_host_arg")
            ok = same is not None and tested == tuple(sorted(url.tags)) and s.st.ts.get("same_host_recv") == "pool"
            ctx.ob(R1, fi.qual, f"origin of the resend target is tested against the pool that served the request (tested {tested})", ok,
                   "" if ok else "the same-origin test is skipped or made on another URL than the one requested next", witness=s.st.witness(), node=s.node)
        if same is False and rm is True:
            n_cross += 1
            ok_copy = hdrs is not None and "copy" in hdrs.tags
            ctx.ob(R1, fi.qual, "cross-origin resend carries a fresh copy of the headers (the caller's mapping is not edited in place)", ok_copy,
                   "" if ok_copy else "the headers passed to the other origin are not the stripped copy", witness=s.st.witness(), node=s.node)
            dec = s.dec()
            member = [v for a, v in dec.items() if "remove_headers_on_redirect" in a and " in " in a]
            stripped_this = [x for x in strip if hdrs is not None and x[0] == hdrs.sym]
            if member and member[-1] is True:
                n_member_true += 1
                ok_strip = bool(stripped_this)
                ctx.ob(R1, fi.qual, "a header whose name is in the removal set is removed from the copy that is sent", ok_strip,
                       "" if ok_strip else "credentials named by remove_headers_on_redirect are forwarded to another origin", witness=s.st.witness(), node=s.node)
                if stripped_this:
                    keytags = set(stripped_this[0][1])
                    ctx.ob(R1, fi.qual, "the name removed is the header name under test", "header-name" in keytags, f"pop key provenance {sorted(keytags)}", witness=s.st.witness(), node=s.node)
            elif member and member[-1] is False:
                ctx.ob(R1, fi.qual, "a header outside the removal set is preserved", not stripped_this,
                       "" if not stripped_this else "headers not named by the policy are dropped too", witness=s.st.witness(), node=s.node)
            if s.st.ts.get("loop_broke"):
                ctx.ob(R1, fi.qual, "the strip loop runs over all headers", False, "the loop can stop early: later credential headers are forwarded", witness=s.st.witness(), node=s.node)
            if member:
                test = set(s.st.ts.get("strip_test") or ())
                ok2 = "lower" in test and "header-name" in test
                ctx.ob(R2, fi.qual, "header name is lower-cased before the membership test", ok2,
                       "" if ok2 else f"tested value provenance {sorted(test)}: `Authorization` vs `authorization` would not match", witness=s.st.witness(), node=s.node)
                it_src = [t for t in test if t.startswith("iter:")]
                ctx.ob(R1, fi.qual, "the loop examines the headers of the outgoing request", any("headers" in t or "entry" in t or "copy" in t for t in it_src), f"{it_src}", witness=s.st.witness(), node=s.node)
            ctx.ob(R5, fi.qual, "the stripped copy is the `headers` slot of the **kw splat", ok_copy, witness=s.st.witness(), node=s.node)
    ctx.sites(R1, n_member_true, 1, "paths on which a header matches the removal set")
    ctx.sites(R1, n_cross, 1, "cross-origin resend paths")
    # the copy must come from the headers slot itself
    uo = fi
    copies = [n for n in astq.walk_fn(uo.node) if isinstance(n, ast.Assign) and isinstance(n.value, ast.Call) and isinstance(n.value.func, ast.Attribute) and n.value.func.attr == "copy"]
    ok = any("headers" in astq.text(c.value.func.value) for c in copies)
    ctx.ob(R1, uo.qual, "the copy is taken from the request's headers", ok)
    # no other place re-injects headers after the strip: between strip and resend, kw['headers'] is not re-bound to something unstripped (R5 covers via provenance)

    init = m.method(RETRY, "__init__")
    st = [n for n in astq.walk_fn(init.node) if isinstance(n, ast.Assign) and astq.is_self_attr(n.targets[0], "remove_headers_on_redirect")]
    ctx.sites(R2, len(st), 1, "stores of remove_headers_on_redirect")
    for n in st:
        v = n.value
        ok = isinstance(v, ast.Call) and astq.call_text(v) in ("frozenset", "set") and v.args and isinstance(v.args[0], (ast.GeneratorExp, ast.SetComp, ast.ListComp)) \
            and isinstance(v.args[0].elt, ast.Call) and isinstance(v.args[0].elt.func, ast.Attribute) and v.args[0].elt.func.attr == "lower" \
            and astq.text(v.args[0].generators[0].iter) == "remove_headers_on_redirect"
        ctx.ob(R2, init.qual, f"`{astq.text(n)[:80]}` lower-cases the configured names", ok, "" if ok else "names configured as `Authorization` would never match the lower-cased test", node=n)
    others = []
    for name, f2 in m.cls(RETRY).methods.items():
        if name != "__init__":
            others += [a for a, _ in astq.self_stores(f2.node) if a == "remove_headers_on_redirect"]
    ctx.ob(R2, RETRY, "remove_headers_on_redirect is only set by the constructor", not others)

    R3 = ctx.rule("C06-R3", "defaults: Authorization, Cookie and Proxy-Authorization are removed by default", "E2")
    d = fold.need_class(RETRY, "DEFAULT_REMOVE_HEADERS_ON_REDIRECT")
    low = {x.lower() for x in d}
    for h in ("authorization", "cookie", "proxy-authorization"):
        ctx.ob(R3, RETRY, f"default removal set contains {h}", h in low, f"folds to {sorted(low)}")
    dflt = init.defaults().get("remove_headers_on_redirect")
    ctx.ob(R3, init.qual, "constructor default is DEFAULT_REMOVE_HEADERS_ON_REDIRECT", dflt is not None and astq.text(dflt) == "DEFAULT_REMOVE_HEADERS_ON_REDIRECT")

    R4 = ctx.rule("C06-R4", "origin equality compares scheme, host and port: is_same_host returns (scheme, host, port) == (self.scheme, self.host, self.port) with the URL's host normalised like the pool's and default ports made explicit", "E6 read-set")
    ish = m.method(f"{CP}.HTTPConnectionPool", "is_same_host")
    rets = [r for r in astq.walk_fn(ish.node) if isinstance(r, ast.Return)]
    final = [r for r in rets if isinstance(r.value, ast.Compare)]
    ctx.sites(R4, len(final), 1, "comparing return in is_same_host")
    for r in final:
        c = r.value
        ok = len(c.ops) == 1 and isinstance(c.ops[0], ast.Eq) and isinstance(c.left, ast.Tuple) and isinstance(c.comparators[0], ast.Tuple)
        if ok:
            L = [astq.text(e) for e in c.left.elts]
            Rr = [astq.text(e) for e in c.comparators[0].elts]
            if L[0].startswith("self."):
                L, Rr = Rr, L
            ok = sorted(Rr) == ["self.host", "self.port", "self.scheme"] and len(L) == 3
            if ok:
                order = [x.split(".")[1] for x in Rr]
                # each URL-side component derives from parse_url(url)
                for name, comp in zip(L, order):
                    srcs = astq.sources_of(ish.node, ast.parse(name).body[0].value)
                    txt = " ".join(astq.text(s) for s in srcs)
                    okc = "parse_url(url)" in txt
                    ctx.ob(R4, ish.qual, f"{comp} of the target comes from parse_url(url)", okc, txt[:100], node=r)
        ctx.ob(R4, ish.qual, f"`{astq.text(r)}` compares all three components", ok,
               "" if ok else "a redirect that changes only the scheme or only the port would count as same origin", node=r)
    txt = astq.text(ish.node)
    norm_calls = [n for n in astq.walk_fn(ish.node) if isinstance(n, ast.Assign) and isinstance(n.value, ast.Call) and astq.call_text(n.value) == "_normalize_host"
                  and isinstance(n.targets[0], ast.Name) and n.value.args and astq.text(n.value.args[0]) == n.targets[0].id]
    ctx.ob(R4, ish.qual, "the target host passes the same normaliser as the pool's host", bool(norm_calls))
    cpi = m.method(f"{CP}.ConnectionPool", "__init__")
    ctx.ob(R4, cpi.qual, "the pool's host is normalised with _normalize_host", "self.host = _normalize_host(host, scheme=self.scheme)" in astq.text(cpi.node))
    pbs = fold.need("urllib3.connection", "port_by_scheme")
    ctx.ob(R4, "urllib3.connection", "default ports: http 80, https 443", pbs == {"http": 80, "https": 443}, str(pbs))
    early = [r for r in rets if isinstance(r.value, ast.Constant) and r.value.value is True]
    for r in early:
        g = astq.enclosing(r, ast.If)
        ok = g is not None and astq.text(g.test).replace("'", '"') == 'url.startswith("/")'
        ctx.ob(R4, ish.qual, "only a path-only target is same-origin without comparison", ok, astq.text(g.test) if g is not None else "", node=r)

    R6 = ctx.rule("C06-R6", "a single-host pool refuses a cross-host target before any I/O: the HostChangedError test dominates taking a connection, and the redirect resend forwards assert_same_host unchanged", "E3 dominance via E4")
    prule, pfi, pouts = resend.analyse(ctx, "pool")
    reqs = [s for s in prule.sites if s.kind == "request"]
    ctx.sites(R6, len(reqs), 1, "request steps in HTTPConnectionPool.urlopen")
    bad = None
    n_ok = 0
    for s in reqs:
        a = s.st.facts.get("p:assert_same_host", (None, None))[0]
        same = s.st.facts.get("pool_same_host", (None, None))[0]
        if a is False or same is True:
            n_ok += 1
        else:
            bad = s
    ctx.ob(R6, pfi.qual, "every request step is preceded by `not assert_same_host or is_same_host(url)`", bad is None,
           "" if bad is None else "a request is sent although assert_same_host was requested and the host test was not passed", witness=bad.st.witness() if bad else None, node=pfi.node)
    rs = [s for s in prule.sites if s.kind == "resend"]
    okf = all("entry:assert_same_host" in s.args["assert_same_host"].tags for s in rs if "assert_same_host" in s.args) and all("assert_same_host" in s.args for s in rs)
    ctx.ob(R6, pfi.qual, "every pool-level resend forwards assert_same_host unchanged", bool(okf))
    # the tested url is the request's url
    tests = [c for c in astq.calls(pfi.node) if astq.call_text(c) == "self.is_same_host"]
    ctx.ob(R6, pfi.qual, "the host test is made on the url being requested", bool(tests) and all(astq.text(c.args[0]) == "url" for c in tests))
    raises = [n for n in astq.walk_fn(pfi.node) if isinstance(n, ast.Raise) and n.exc is not None and "HostChangedError" in astq.text(n.exc)]
    ctx.ob(R6, pfi.qual, "the refusal is HostChangedError", bool(raises))


# ---------------------------------------------------------------------------- R7 (added after seeded change C06/empty-stripped-headers-redefaulted)
def _run_r7(ctx):
    R7 = ctx.rule("C06-R7", "the manager's default headers stand in only when the caller supplied none: on every path where PoolManager.urlopen hands the pool self.headers, the `headers` keyword was absent (or None) - never merely falsy, because the stripped mapping of a redirect chain may be empty and would then be replaced by the very defaults that were stripped", "E4 decisions at the pool-level call (shared resend analysis)")
    rule, fi, outs = resend.analyse(ctx, "manager")
    calls = [s for s in rule.sites if s.kind == "poolcall"]
    ctx.sites(R7, len(calls), 1, "pool-level calls in PoolManager.urlopen")
    seen = set()
    n = 0
    for s in calls:
        h = s.args.get("headers")
        if h is None or "self.headers" not in h.tags:
            continue
        absent = None
        for k, v in s.st.ts.items():
            if isinstance(k, tuple) and len(k) == 4 and k[0] == "cmp" and k[1] == repr("headers") and k[2] == "in":
                absent = (v is False)
        entry = [(k, v) for k, v in s.st.facts.items() if k.endswith("['headers']@entry")]
        falsy = any(v[0] is False for _, v in entry)
        is_none = any(v[1] is True for _, v in entry)
        key = (absent, falsy, is_none)
        if key in seen:
            continue
        seen.add(key)
        n += 1
        ok = absent is True or is_none
        why = ""
        if not ok:
            why = ("the defaults replace a mapping the caller did supply but which is empty: after a cross-origin redirect whose headers were all credentials, the next hop starts from self.headers again and sends them to the new origin"
                   if falsy else "the defaults replace the headers whatever the caller supplied")
        ctx.ob(R7, fi.qual, f"defaults used with `headers` absent={absent} falsy={falsy} None={is_none}", ok, why, witness=s.st.witness(), node=s.node)
    ctx.sites(R7, n, 1, "paths on which the defaults are used")


_run_base06 = run


def run(ctx):  # noqa: F811
    _run_base06(ctx)
    _run_r7(ctx)
