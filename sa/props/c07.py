"""C07 - an HTTPS request is sent only over a connection verified as configured."""
from __future__ import annotations

import ast
import itertools

from .. import astq
from ..events import EventRule, before, evs, outcome_name, run_function
from ..interp import AV, BASE_TOP, EXT_TOP, UNK, BaseRule, Budget, Interp, Out, State, const, exc
from ..model import AnalysisError

CP = "urllib3.connectionpool"
CN = "urllib3.connection"
SSLU = "urllib3.util.ssl_"
WRAP = f"{CN}._ssl_wrap_socket_and_match_hostname"


def enum(n):
    return AV("const", ("enum", n), truth=(n != "CERT_NONE"), none=False)


class VerifyRule(BaseRule):
    namedtuple_as_tuple = False  # _WrappedAndVerifiedSocket(...) is an event of this rule
    def __init__(self, pyopenssl, never_cn):
        self.g = {"IS_PYOPENSSL": const(pyopenssl), "HAS_NEVER_CHECK_COMMON_NAME": const(never_cn)}

    def global_value(self, it, name):
        if name in ("CERT_REQUIRED", "CERT_NONE", "CERT_OPTIONAL"):
            return enum(name)
        if name in self.g:
            return self.g[name]
        return None

    def getattr(self, it, st, node, base):
        t = ast.unparse(node)
        if t in ("ssl.CERT_NONE", "ssl.CERT_REQUIRED", "ssl.CERT_OPTIONAL"):
            return enum(node.attr)
        if t in ("ssl_.IS_PYOPENSSL", "ssl_.HAS_NEVER_CHECK_COMMON_NAME"):
            return self.g[node.attr]
        return None

    def getitem(self, it, st, node):
        # a slice / a piece (partition(...)[0], split(...)[0]) of a host name keeps its provenance
        vals, _ = it.eval(st, node.value)
        if len(vals) == 1:
            v = vals[0][1]
            if v.kind == "unk" and v.tags:
                return AV("unk", tags=v.tags, truth=v.truth if isinstance(node.slice, ast.Slice) else None, none=False)
        return None

    def call(self, it, st, node, recv, pos, kw):
        t = ast.unparse(node.func)

        def ok(av=UNK):
            return [Out("normal", st.copy(), av)]

        if t == "SSLContext":
            s = st.copy()
            # documented defaults of ssl.SSLContext(PROTOCOL_TLS_CLIENT)
            s.heap[("ctx", "check_hostname")] = const(True)
            s.heap[("ctx", "verify_mode")] = enum("CERT_REQUIRED")
            return [Out("normal", s, AV("obj", "ctx", truth=True, none=False))]
        if t == "ssl_wrap_socket":
            s = st.copy()
            c = kw.get("ssl_context")
            lab = c.val if c is not None and c.kind == "obj" else None
            ch = s.heap.get((lab, "check_hostname"), UNK)
            vm = s.heap.get((lab, "verify_mode"), UNK)
            s.ts["wrap_check_hostname"] = ch.val if ch.kind == "const" else "?"
            s.ts["wrap_verify"] = vm.val if vm.kind == "const" else "?"
            s.ts["ev"] = s.ts.get("ev", ()) + ("wrap",)
            sh = kw.get("server_hostname")
            s.ts["wrap_sni_none"] = sh.none if sh is not None else True
            return [Out("normal", s, AV("obj", "ssl_sock", truth=True, none=False))]
        if t == "_assert_fingerprint":
            s = st.copy()
            s.ts["ev"] = s.ts.get("ev", ()) + ("fingerprint",)
            fp = it.bind_args(node, recv, pos, kw).get("fingerprint") or (pos[1] if len(pos) > 1 else UNK)
            s.ts["fp_arg"] = tuple(sorted(fp.tags)) or (fp.sym,)
            f = st.copy()
            f.ts["check_failed"] = "fingerprint"
            return [Out("normal", s, UNK), Out("raise", f, exc("urllib3.exceptions.SSLError")), Out("raise", f.copy(), BASE_TOP)]
        if t == "_match_hostname":
            s = st.copy()
            s.ts["ev"] = s.ts.get("ev", ()) + ("match_hostname",)
            nm = it.bind_args(node, recv, pos, kw).get("asserted_hostname") or (pos[1] if len(pos) > 1 else UNK)
            s.ts["match_name"] = tuple(sorted(nm.tags)) or (nm.sym,)
            f = st.copy()
            f.ts["check_failed"] = "hostname"
            return [Out("normal", s, UNK), Out("raise", f, exc("urllib3.util.ssl_match_hostname.CertificateError"))]
        if isinstance(node.func, ast.Attribute) and node.func.attr == "getpeercert" and recv is not None and recv.kind == "obj" and recv.val == "ssl_sock":
            f = st.copy()
            f.ts["check_failed"] = "getpeercert"
            return [Out("normal", st.copy(), AV("unk", sym="peercert")), Out("raise", f, EXT_TOP)]
        if isinstance(node.func, ast.Attribute) and node.func.attr == "close" and recv is not None and recv.kind == "obj" and recv.val == "ssl_sock":
            s = st.copy()
            s.ts["ev"] = s.ts.get("ev", ()) + ("close",)
            return [Out("normal", s, const(None))]
        if t == "_WrappedAndVerifiedSocket":
            s = st.copy()
            iv = kw.get("is_verified", pos[1] if len(pos) > 1 else UNK)
            s.ts["is_verified"] = iv.val if iv.kind == "const" else iv.truth
            sk = kw.get("socket", pos[0] if pos else UNK)
            s.ts["result_socket"] = sk.val if sk.kind == "obj" else "?"
            return [Out("normal", s, AV("obj", "result", truth=True, none=False))]
        if t == "bool" and pos:
            return ok(const(bool(pos[0].truth)) if pos[0].truth is not None else UNK)
        if t == "is_ipaddress":
            return ok(AV("unk", sym="is_ip"))
        if isinstance(node.func, ast.Attribute) and node.func.attr in ("partition", "rpartition") and recv is not None:
            # (head, sep, tail): each piece is a piece of the receiver
            piece = AV("unk", tags=recv.tags, none=False)
            return ok(AV("tuple", (piece, AV("unk", tags=recv.tags, none=False), piece), truth=True, none=False))
        if isinstance(node.func, ast.Attribute) and node.func.attr in ("strip", "rstrip", "lstrip", "lower", "split", "rsplit", "removeprefix", "removesuffix", "casefold") and recv is not None:
            return ok(AV("unk", tags=recv.tags, truth=recv.truth if node.func.attr in ("lower", "casefold") else None, none=False))
        if it.resolve_callee(node, recv) in it.inline:
            return None  # interpreted in place
        return ok()


class _Row:
    """Picklable summary of one exit of the verification function."""

    def __init__(self, o):
        self.kind = o.kind
        self.ts = {k: v for k, v in o.st.ts.items() if isinstance(k, str)}
        self._w = o.st.witness()
        self.st = self

    def witness(self):
        return self._w


_CELL_ENV = None


def _run_cell(cell):
    m, wf, inline = _CELL_ENV
    pyo, ncn, cr, fp, ah, ctxkind = cell
    rule = VerifyRule(pyo, ncn)
    it = Interp(m, rule, None, wf.module, inline, budget=Budget(200000))
    it.frame_has_self = False
    st = State()
    for a in wf.node.args.args + wf.node.args.kwonlyargs:
        st.env[it.var(a.arg)] = UNK
    st.env[it.var("cert_reqs")] = const(None) if cr is None else enum(cr)
    st.env[it.var("assert_fingerprint")] = AV("unk", truth=fp, none=not fp, tags=frozenset({"param:assert_fingerprint"}))
    st.env[it.var("assert_hostname")] = {"None": const(None), "False": const(False), "str": AV("unk", truth=True, none=False, tags=frozenset({"param:assert_hostname"}))}[ah]
    st.env[it.var("server_hostname")] = AV("unk", truth=True, none=False, tags=frozenset({"param:server_hostname"}))
    for nm in ("ssl_version", "ssl_minimum_version", "ssl_maximum_version"):
        st.env[it.var(nm)] = const(None)
    if ctxkind == "none":
        st.env[it.var("ssl_context")] = const(None)
    else:
        st.env[it.var("ssl_context")] = AV("obj", "userctx", truth=True, none=False)
        st.heap[("userctx", "check_hostname")] = const(ctxkind == "given-check")
        st.heap[("userctx", "verify_mode")] = enum("CERT_REQUIRED")
    outs = it.exec_block(wf.node.body, [st])
    cfg = dict(pyopenssl=pyo, never_cn=ncn, cert_reqs=cr, fingerprint=fp, assert_hostname=ah, ctx=ctxkind)
    rows, fails = [], []
    seen = set()
    for o in outs:
        key = (o.kind, tuple(sorted((k, str(v)) for k, v in o.st.ts.items() if isinstance(k, str))))
        if key in seen:
            continue
        seen.add(key)
        if o.kind == "return":
            rows.append((cfg, _Row(o)))
        elif o.kind == "raise" and o.st.ts.get("check_failed"):
            fails.append((cfg, _Row(o)))
    return rows, fails, it.budget.steps


def run(ctx):
    m, fold = ctx.model, ctx.fold
    ctx.assume("A1", "A4", "A5")
    ctx.decline("the TLS handshake and chain validation themselves (OpenSSL, trusted); which names a certificate matches (C08); string forms of cert_reqs ('REQUIRED') are resolved by getattr on the ssl module and not enumerated")

    # ------------------------------------------------------------------ R1 validate before request
    R1 = ctx.rule("C07-R1", "verify before send: in _make_request _validate_conn(conn) precedes conn.request on every path; HTTPSConnectionPool._validate_conn connects a closed connection; nothing else in the pool layer sends on a pooled connection", "E3 dominance via E4")
    spool = f"{CP}.HTTPSConnectionPool"
    fi = m.method(spool, "_make_request")
    rule = EventRule(events=[
        ("validate", lambda t, n, r, p, k, s: t == "self._validate_conn", {}),
        ("request", lambda t, n, r, p, k, s: t == "conn.request", {}),
        ("getresponse", lambda t, n, r, p, k, s: t == "conn.getresponse", {}),
    ], quiet=["self._get_timeout", "timeout_obj.start_connect", "Timeout.resolve_default_timeout", "log.debug"])
    outs, it = run_function(m, fi, rule, spool)
    ctx.states += it.budget.steps
    if not rule.seen.get("validate") or not rule.seen.get("request"):
        raise AnalysisError("C07-R1: _validate_conn / conn.request not found in _make_request")
    bad = [o for o in outs if not before(evs(o), "validate", "request") and not before(evs(o), "validate", "request!")]
    bad += [o for o in outs if "request" in evs(o) or "request!" in evs(o) if "validate" not in evs(o)]
    ctx.ob(R1, fi.qual, f"_validate_conn precedes conn.request on all {len(outs)} exits", not bad,
           "" if not bad else f"events {evs(bad[0])}: request bytes can be written before the connection was validated", witness=bad[0].st.witness() if bad else None, node=fi.node)
    # validate's failure must not fall through to the request
    bad2 = [o for o in outs if "validate!" in evs(o) and any(e.startswith("request") for e in evs(o))]
    ctx.ob(R1, fi.qual, "a failed validation never falls through to the request", not bad2, witness=bad2[0].st.witness() if bad2 else None, node=fi.node)
    vc = m.method(spool, "_validate_conn")
    ok = False
    for n in astq.walk_fn(vc.node):
        if isinstance(n, ast.If) and astq.text(n.test) == "conn.is_closed":
            ok = any(astq.call_text(c) == "conn.connect" for c in astq.calls(ast.Module(body=n.body, type_ignores=[])))
    ctx.ob(R1, vc.qual, "a closed connection is connected (and thereby verified) during validation", ok,
           "" if ok else "validation no longer forces the TLS handshake before the request")
    senders = []
    for f in m.repo_funcs():
        if f.module != CP:
            continue
        for c in astq.calls(f.node):
            if isinstance(c.func, ast.Attribute) and c.func.attr in ("request", "request_chunked", "send", "putrequest", "endheaders") and astq.text(c.func.value) == "conn":
                senders.append((f, c))
    ctx.sites(R1, len(senders), 1, "send sites on a pooled connection")
    for f, c in senders:
        ok = f.name == "_make_request"
        ctx.ob(R1, f.qual, f"`{astq.text(c)[:40]}` only in _make_request", ok, "" if ok else "another path sends on a pooled connection without validation", node=c)

    # ------------------------------------------------------------------ R3 verification decision table
    R3 = ctx.rule("C07-R3", "verification decision table of _ssl_wrap_socket_and_match_hostname over cert_reqs x fingerprint x assert_hostname x caller context x backend flags: (i) verify_mode = resolved cert_reqs (default REQUIRED) (ii) fingerprint set => checked (iii) otherwise, unless disabled, someone checks the hostname: OpenSSL (check_hostname at wrap) or _match_hostname(assert_hostname or server_hostname) (iv) is_verified <=> REQUIRED or fingerprint (v) all checks precede the return and use the wrapped socket", "E5 (finite input partition, abstract interpretation with create_urllib3_context / resolve_cert_reqs inlined)")
    R4 = ctx.rule("C07-R4", "a failed check closes the wrapped socket and propagates: every exceptional path after the wrap calls close() on it and re-raises", "E4")
    wf = m.func(WRAP)
    inline = {f"{SSLU}.create_urllib3_context", f"{SSLU}.resolve_cert_reqs"}
    for q in inline:
        m.func(q)
    # private helpers of the two modules are interpreted in place, so that extracting part of the verification function
    # into a helper (or inlining one) does not change the table
    modelled = {"_ssl_wrap_socket_and_match_hostname", "_match_hostname", "_assert_fingerprint", "_wrap_proxy_error", "_is_key_file_encrypted",
                "_is_bpo_43522_fixed", "_is_has_never_check_common_name_reliable", "_ssl_wrap_socket_impl", "_get_default_user_agent", "_url_from_connection"}
    for fi_ in m.repo_funcs():
        if fi_.module in (CN, SSLU) and fi_.cls is None and fi_.name.startswith("_") and fi_.name not in modelled:
            inline.add(fi_.qual)
    ctx.extra["c07_inlined_helpers"] = sorted(inline)
    import concurrent.futures as _cf
    import multiprocessing as _mp

    cells_list = list(itertools.product([False, True], [True, False], [None, "CERT_NONE", "CERT_OPTIONAL", "CERT_REQUIRED"],
                                        [False, True], ["None", "False", "str"], ["none", "given-check", "given-nocheck"]))
    cells = len(cells_list)
    global _CELL_ENV
    _CELL_ENV = (m, wf, inline)
    rows, fails, steps = [], [], 0
    try:
        with _cf.ProcessPoolExecutor(max_workers=min(16, _mp.cpu_count()), mp_context=_mp.get_context("fork")) as ex:
            results = list(ex.map(_run_cell, cells_list, chunksize=6))
    except Exception:
        results = [_run_cell(c) for c in cells_list]
    for r_rows, r_fails, r_steps in results:
        rows += r_rows
        fails += r_fails
        steps += r_steps
    ctx.states += steps
    ctx.extra["verification_table"] = {"input_cells": cells, "rows": len(rows), "failed_check_paths": len(fails), "interpreter_steps": steps}
    ctx.sites(R3, len(rows), cells, "returning rows of the verification table")
    viol = {}
    for cfg, o in rows:
        ts = o.st.ts
        vm = ts.get("wrap_verify")
        vm = vm[1] if isinstance(vm, tuple) else vm
        want_vm = cfg["cert_reqs"] or "CERT_REQUIRED"
        ev = ts.get("ev", ())
        checks = []
        checks.append(("verify_mode is the resolved cert_reqs", vm == want_vm, f"verify_mode at wrap = {vm}, configured {want_vm}"))
        if cfg["fingerprint"]:
            checks.append(("a pinned fingerprint is checked", "fingerprint" in ev and ev.index("fingerprint") > ev.index("wrap") if "wrap" in ev and "fingerprint" in ev else False, f"events {ev}"))
            checks.append(("the fingerprint compared is the configured one", "param:assert_fingerprint" in (ts.get("fp_arg") or ()), f"{ts.get('fp_arg')}"))
        if vm != "CERT_NONE" and cfg["assert_hostname"] != "False" and not cfg["fingerprint"]:
            by_openssl = ts.get("wrap_check_hostname") is True and ts.get("wrap_sni_none") is False
            by_us = "match_hostname" in ev
            checks.append(("somebody checks the hostname", by_openssl or by_us,
                           f"check_hostname at wrap = {ts.get('wrap_check_hostname')}, events {ev}: the certificate is accepted for any host"))
            if by_us:
                nm = set(ts.get("match_name") or ())
                good = ("param:assert_hostname" in nm) if cfg["assert_hostname"] == "str" else ("param:server_hostname" in nm)
                checks.append(("the name matched is assert_hostname, else the server name", good, f"name provenance {sorted(nm)}"))
            if cfg["assert_hostname"] == "str":
                checks.append(("an explicit assert_hostname is matched by urllib3 (OpenSSL only knows the server name)", by_us, f"events {ev}"))
        if cfg["assert_hostname"] == "False" and not cfg["fingerprint"]:
            checks.append(("assert_hostname=False disables hostname matching only", "match_hostname" not in ev and ts.get("wrap_check_hostname") is not True, f"events {ev}"))
        iv = ts.get("is_verified")
        want_iv = (vm == "CERT_REQUIRED") or cfg["fingerprint"]
        checks.append(("is_verified <=> CERT_REQUIRED or fingerprint", iv == want_iv, f"is_verified={iv} with verify_mode={vm} fingerprint={cfg['fingerprint']}"))
        checks.append(("the socket returned is the wrapped one", ts.get("result_socket") == "ssl_sock", f"{ts.get('result_socket')}"))
        checks.append(("nothing is closed on success", "close" not in ev, f"events {ev}"))
        for name, ok, detail in checks:
            k = name
            if not ok:
                viol.setdefault(k, (cfg, detail, o))
            ctx.rules[R3]["obligations"] += 0
        # one obligation per row (aggregated), failing ones are reported per clause below
    nrow_ok = 0
    for cfg, o in rows:
        nrow_ok += 1
    ctx.ob(R3, wf.qual, f"{len(rows)} rows over {cells} input cells evaluated", True, nontrivial=True)
    clause_names = ["verify_mode is the resolved cert_reqs", "a pinned fingerprint is checked", "the fingerprint compared is the configured one",
                    "somebody checks the hostname", "the name matched is assert_hostname, else the server name",
                    "an explicit assert_hostname is matched by urllib3 (OpenSSL only knows the server name)",
                    "assert_hostname=False disables hostname matching only", "is_verified <=> CERT_REQUIRED or fingerprint",
                    "the socket returned is the wrapped one", "nothing is closed on success"]
    for name in clause_names:
        if name in viol:
            cfg, detail, o = viol[name]
            ctx.ob(R3, wf.qual, name, False, f"{detail}; first failing cell: {cfg}", witness=o.st.witness(), node=wf.node)
        else:
            ctx.ob(R3, wf.qual, name, True, f"holds on all {len(rows)} rows")
    # R4
    ctx.sites(R4, len(fails), 3, "failed-check paths")
    bad = None
    kinds = set()
    for cfg, o in fails:
        ev = o.st.ts.get("ev", ())
        kinds.add(o.st.ts.get("check_failed"))
        if "close" not in ev or o.kind != "raise":
            bad = (cfg, o)
    for k in sorted(kinds):
        ctx.ob(R4, wf.qual, f"failed {k} check: socket closed and error propagated", bad is None or bad[1].st.ts.get("check_failed") != k,
               "" if bad is None else f"events {bad[1].st.ts.get('ev')}: a connection that failed its check stays open (cell {bad[0]})", witness=bad[1].st.witness() if bad else None, node=wf.node)
    # the secure default of the resolver
    rc = m.func(f"{SSLU}.resolve_cert_reqs")
    outs_rc, it_rc = run_function(m, rc, VerifyRule(False, True), params={rc.params()[0]: const(None)})
    rets_rc = [o for o in outs_rc if o.kind == "return"]
    ok = bool(rets_rc) and all(o.val is not None and o.val.kind == "const" and o.val.val == ("enum", "CERT_REQUIRED") for o in rets_rc)
    ctx.ob(R3, rc.qual, "cert_reqs=None resolves to CERT_REQUIRED", ok, "" if ok else f"returns {[str(o.val.val) if o.val is not None else None for o in rets_rc]}")

    # ------------------------------------------------------------------ R2 / R8 on HTTPSConnection.connect
    R2 = ctx.rule("C07-R2", "the request socket is the verified one: on every normal exit of HTTPSConnection.connect self.sock is the socket of _ssl_wrap_socket_and_match_hostname's result, and is_verified comes from that result (False through a forwarding proxy)", "E6 provenance via E4")
    R8 = ctx.rule("C07-R8", "the name checked is the destination's: the server name handed to the wrap is the tunnel host when tunnelling, else the connection host, overridden only by a configured server_hostname, with the trailing dot removed; settings passed are the connection's own", "E6")
    hc = f"{CN}.HTTPSConnection"
    cf = m.method(hc, "connect")

    class ConnectRule(BaseRule):
        def __init__(self):
            self.wraps = []

        def getattr(self, it, st, node, base):
            t = ast.unparse(node)
            if t == "self._connect_callback":
                return const(None)
            if base.kind == "obj" and base.val == "wrapped":
                return AV("unk", sym=f"wrapped.{node.attr}", tags=frozenset({f"wrapped.{node.attr}"}), truth=None if node.attr == "is_verified" else True, none=False)
            if base.kind == "self" and node.attr in ("host", "_tunnel_host", "server_hostname", "assert_hostname", "assert_fingerprint", "cert_reqs", "ssl_context",
                                                     "ca_certs", "ca_cert_dir", "ca_cert_data", "cert_file", "key_file", "key_password", "proxy_is_tunneling", "proxy_is_forwarding", "_tunnel_scheme"):
                k = ("self", node.attr)
                if k in st.heap:
                    return None
                return AV("unk", sym=f"self.{node.attr}", tags=frozenset({f"self.{node.attr}"}))
            return None

        def unpack(self, it, st, av, n):
            # sock, verified = <wrap result>: the fields of the NamedTuple, same provenance as attribute access
            if av.kind == "obj" and av.val == "wrapped":
                flds = it.m.returned_namedtuple_fields(WRAP) or []
                if len(flds) == n:
                    return [AV("unk", sym=f"wrapped.{f_}", tags=frozenset({f"wrapped.{f_}"}), truth=None if f_ == "is_verified" else True, none=False) for f_ in flds]
            return None

        def call(self, it, st, node, recv, pos, kw):
            t = ast.unparse(node.func)
            if t == "_ssl_wrap_socket_and_match_hostname":
                s = st.copy()
                self.wraps.append((dict(kw), s))
                s.ts["ev"] = s.ts.get("ev", ()) + ("origin-wrap",)
                return [Out("normal", s, AV("obj", "wrapped", truth=True, none=False)), Out("raise", st.copy(), exc("ssl.SSLError"))]
            if t == "self._new_conn":
                return [Out("normal", st, AV("unk", tags=frozenset({"raw-socket"}), truth=True, none=False))]
            if t == "self._connect_tls_proxy":
                s = st.copy()
                s.ts["ev"] = s.ts.get("ev", ()) + ("proxy-tls",)
                return [Out("normal", s, AV("unk", tags=frozenset({"proxy-tls-socket"}), truth=True, none=False))]
            if t == "self._tunnel":
                s = st.copy()
                s.ts["ev"] = s.ts.get("ev", ()) + ("tunnel",)
                return [Out("normal", s, const(None)), Out("raise", st.copy(), exc("builtins.OSError"))]
            if t.endswith("acquire_and_get"):
                return [Out("normal", st, AV("unk", sym="probe"))]
            if isinstance(node.func, ast.Attribute) and node.func.attr == "rstrip" and recv is not None:
                return [Out("normal", st, AV("unk", tags=frozenset(recv.tags | {"rstrip"}), truth=recv.truth, none=False, sym=recv.sym))]
            if t == "typing.cast" and len(pos) > 1:
                return [Out("normal", st, pos[1])]
            if t == "bool" and pos:
                return [Out("normal", st, AV("unk", truth=pos[0].truth, none=False, sym=pos[0].sym))]
            if it.resolve_callee(node, recv) in it.inline:
                return None  # a private helper of the module (e.g. an extracted dot-stripper): interpreted in place
            return [Out("normal", st, UNK)]

    crule = ConnectRule()
    from ..rows import helper_closure as _hc8
    inl8 = {q_ for q_ in _hc8(m, [cf]) - {cf.qual} if q_.rsplit(".", 1)[-1] not in ("_ssl_wrap_socket_and_match_hostname", "_connect_tls_proxy", "_tunnel", "_new_conn", "_match_hostname", "_assert_fingerprint")}
    outs, it = run_function(m, cf, crule, hc, inline=frozenset(inl8))
    ctx.states += it.budget.steps
    normal = [o for o in outs if o.kind in ("normal", "return")]
    ctx.sites(R2, len(normal), 2, "normal exits of HTTPSConnection.connect")
    seen = set()
    for o in normal:
        sock = o.st.heap.get(("self", "sock"))
        isv = o.st.heap.get(("self", "is_verified"))
        fw = o.st.facts.get("self.proxy_is_forwarding", (None, None))[0]
        key = (tuple(sorted(sock.tags)) if sock is not None else None, tuple(sorted(isv.tags)) if isv is not None and isv.kind != "const" else (isv.val if isv is not None else None), fw)
        if key in seen:
            continue
        seen.add(key)
        ok = sock is not None and "wrapped.socket" in sock.tags
        ctx.ob(R2, cf.qual, f"self.sock at exit: {sorted(sock.tags) if sock is not None else None}", ok,
               "" if ok else "requests would be written to a socket other than the one that passed verification", witness=o.st.witness(), node=cf.node)
        res = o.st.facts.get("wrapped.is_verified", (None, None))[0]  # what the verification result said, if the path looked
        if fw is None:
            # the forwarding-proxy case is not distinguished on this path: only acceptable when the result itself said "not verified"
            ok2 = isv is not None and res is False and ("wrapped.is_verified" in isv.tags or (isv.kind == "const" and isv.val is False))
        elif fw is True:
            ok2 = isv is not None and ((isv.kind == "const" and isv.val is False) or (res is False and "wrapped.is_verified" in isv.tags))
        else:
            ok2 = isv is not None and ("wrapped.is_verified" in isv.tags or (isv.kind == "const" and isinstance(isv.val, bool) and res is isv.val))
        ctx.ob(R2, cf.qual, f"is_verified at exit (forwarding proxy={fw})", ok2,
               "" if ok2 else "the connection reports itself verified from another source than the verification result", witness=o.st.witness(), node=cf.node)
    ctx.sites(R8, len(crule.wraps), 2, "paths reaching the origin TLS wrap")
    seen = set()
    for kw, s in crule.wraps:
        sh = kw.get("server_hostname")
        tun = s.facts.get("self.proxy_is_tunneling", (None, None))[0]
        cfgd = s.facts.get("self.server_hostname", (None, None))[1]
        tags = set(sh.tags) if sh is not None else set()
        SETTINGS = ("cert_reqs", "assert_hostname", "assert_fingerprint", "ssl_context", "ca_certs", "ca_cert_dir", "ca_cert_data")
        key = (tuple(sorted(tags)), tun, cfgd, tuple(tuple(sorted(kw[p_].tags)) if p_ in kw else None for p_ in SETTINGS))
        if key in seen:
            continue
        seen.add(key)
        if cfgd is False:
            want = "self.server_hostname"
        elif tun is True:
            want = "self._tunnel_host"
        else:
            want = "self.host"
        ok = want in tags and "rstrip" in tags
        ctx.ob(R8, cf.qual, f"server name (tunnelling={tun}, configured-override={'yes' if cfgd is False else 'no'}) derives from {want}", ok,
               "" if ok else f"provenance {sorted(tags)}: the certificate would be checked against another name than the destination's", witness=s.witness(), node=cf.node)
        for p, fld in (("cert_reqs", "cert_reqs"), ("assert_hostname", "assert_hostname"), ("assert_fingerprint", "assert_fingerprint"), ("ssl_context", "ssl_context"),
                       ("ca_certs", "ca_certs"), ("ca_cert_dir", "ca_cert_dir"), ("ca_cert_data", "ca_cert_data")):
            av = kw.get(p)
            okp = av is not None and f"self.{fld}" in av.tags
            if not okp:
                ctx.ob(R8, cf.qual, f"wrap receives {p}=self.{fld}", False, f"got {sorted(av.tags) if av is not None else 'missing'}: the configured {p} is not what is enforced", witness=s.witness(), node=cf.node)
        sk = kw.get("sock")
        if tun is True and s.facts.get(("x"), None) is None:
            pass
    ctx.ob(R8, cf.qual, "every TLS setting handed to the wrap is the connection's own field", True)
    # constructor default for cert_reqs
    ci = m.method(hc, "__init__")
    from ..rows import GenRule, effect_rows
    from ..terms import T as _T

    crows = [r for r in effect_rows(ctx, ci, GenRule(ctx, CN, pure_self=("resolve_cert_reqs",)), hc, budget=400000) if r.returns]
    seen_c = set()
    for r in crows:
        st_cr = [e for e in r.events("store") if e[1] == "self" and e[2] == "cert_reqs"]
        val = st_cr[-1][3] if st_cr else None
        none_cr = r.is_none("p:cert_reqs")
        none_ctx = r.is_none("p:ssl_context") if r.is_none("p:ssl_context") is not None else r.is_none("self.ssl_context")
        key = (val, none_cr, none_ctx)
        if key in seen_c:
            continue
        seen_c.add(key)
        if none_cr is False:
            ok, why = val == "p:cert_reqs", "an explicit cert_reqs must be kept"
        elif none_cr is True and none_ctx is False:
            ok, why = val in ("p:ssl_context.verify_mode", "self.ssl_context.verify_mode"), "without cert_reqs the caller's SSLContext decides"
        elif none_cr is True and none_ctx is True:
            ok, why = val == _T("resolve_cert_reqs", "None"), "without cert_reqs and context the secure default resolve_cert_reqs(None) (= REQUIRED) applies"
        else:
            ok, why = False, "cert_reqs is stored without deciding whether it / a context was given"
        ctx.ob(R8, ci.qual, f"cert_reqs stored as {val} (cert_reqs None={none_cr}, context None={none_ctx})", ok, "" if ok else why, witness=r.witness(), node=ci.node)
    ctx.sites(R8, len(seen_c), 3, "rows of HTTPSConnection.__init__ storing cert_reqs")

    # ------------------------------------------------------------------ R5 is_verified provenance
    R5 = ctx.rule("C07-R5", "nothing but a verification result (or False/None) is ever stored into is_verified / proxy_is_verified", "E6")
    n = 0
    for f in m.repo_funcs():
        if f.module not in (CN, "urllib3.http2.connection", CP):
            continue
        for node in astq.walk_fn(f.node):
            if isinstance(node, ast.Assign):
                for t in node.targets:
                    if isinstance(t, ast.Attribute) and t.attr in ("is_verified", "proxy_is_verified"):
                        n += 1
                        v = node.value

                        def leaves(e, depth=0):
                            """(kind, node): 'const' False/None, 'result' = <wrap result>.is_verified, 'flag' = not <self field>, 'other'; 'or' marks a disjunction"""
                            if isinstance(e, ast.Constant):
                                return [("const" if e.value in (False, None) else "other", e)]
                            if isinstance(e, ast.Attribute) and e.attr == "is_verified" and any(
                                    isinstance(s_, ast.Call) and astq.call_text(s_) == "_ssl_wrap_socket_and_match_hostname" for s_ in astq.sources_of(f.node, e.value)):
                                return [("result", e)]
                            if isinstance(e, ast.UnaryOp) and isinstance(e.op, ast.Not) and isinstance(e.operand, ast.Attribute) and astq.is_self_attr(e.operand):
                                return [("flag", e)]
                            if isinstance(e, ast.BoolOp):
                                out = [("or", e)] if isinstance(e.op, ast.Or) else []
                                for x in e.values:
                                    out += leaves(x, depth + 1)
                                return out
                            if isinstance(e, ast.IfExp):
                                return leaves(e.body, depth + 1) + leaves(e.orelse, depth + 1)
                            if isinstance(e, ast.Name) and depth < 6:
                                # `sock, verified = _ssl_wrap_socket_and_match_hostname(...)`: the element bound to the is_verified field
                                for a_ in astq.walk_fn(f.node):
                                    if isinstance(a_, ast.Assign) and isinstance(a_.targets[0], ast.Tuple) and isinstance(a_.value, ast.Call) \
                                            and astq.call_text(a_.value) == "_ssl_wrap_socket_and_match_hostname":
                                        flds = m.returned_namedtuple_fields(WRAP) or []
                                        for i_, t_ in enumerate(a_.targets[0].elts):
                                            if isinstance(t_, ast.Name) and t_.id == e.id and i_ < len(flds) and flds[i_] == "is_verified":
                                                return [("result", e)]
                                # `a, b = self._helper(...)`: element i of what the private helper returns
                                for a_ in astq.walk_fn(f.node):
                                    if isinstance(a_, ast.Assign) and isinstance(a_.targets[0], ast.Tuple) and isinstance(a_.value, ast.Call) \
                                            and isinstance(a_.value.func, ast.Attribute) and isinstance(a_.value.func.value, ast.Name) and a_.value.func.value.id == "self" and f.cls:
                                        hf = m.find_method(f.clsq, a_.value.func.attr)
                                        idx_ = [i_ for i_, t_ in enumerate(a_.targets[0].elts) if isinstance(t_, ast.Name) and t_.id == e.id]
                                        if hf is None or not idx_ or not hf.qual.startswith("urllib3."):
                                            continue
                                        flds = m.returned_namedtuple_fields(WRAP) or []
                                        kinds_h = []
                                        for rt in [n_ for n_ in astq.walk_fn(hf.node) if isinstance(n_, ast.Return) and n_.value is not None]:
                                            rv = rt.value
                                            if isinstance(rv, ast.Tuple) and idx_[0] < len(rv.elts):
                                                kinds_h.append("result" if (isinstance(rv.elts[idx_[0]], ast.Attribute) and rv.elts[idx_[0]].attr == "is_verified") else "other")
                                            else:
                                                # the helper returns the wrap result itself (a NamedTuple): element i is its i-th field
                                                srcs_h = [rv] + (list(astq.sources_of(hf.node, rv)) if isinstance(rv, ast.Name) else [])
                                                from_wrap = any(isinstance(s_, ast.Call) and astq.call_text(s_) == "_ssl_wrap_socket_and_match_hostname" for s_ in srcs_h)
                                                kinds_h.append("result" if from_wrap and idx_[0] < len(flds) and flds[idx_[0]] == "is_verified" else "other")
                                        if kinds_h:
                                            return [(k_, e) for k_ in kinds_h]
                                srcs = astq.assigned_values(f.node, e.id)
                                out = []
                                for x in srcs:
                                    out += leaves(x, depth + 1) if isinstance(x, ast.expr) else [("other", e)]
                                return out or [("other", e)]
                            return [("other", e)]

                        lv = leaves(v)
                        kinds_ = {k for k, _ in lv}
                        ok = kinds_ <= {"const"} or ("result" in kinds_ and kinds_ <= {"const", "result", "flag"})
                        ctx.ob(R5, f.qual, f"`{astq.text(node)}`", ok, "" if ok else "a connection is marked verified without a verification result", node=node)
    ctx.sites(R5, n, 5, "stores to is_verified / proxy_is_verified")
    for cname in (f"{CN}.HTTPConnection",):
        c = m.cls(cname)
        for a in ("is_verified", "proxy_is_verified"):
            st_ = c.attrs.get(a)
            v = getattr(st_, "value", None)
            ok = isinstance(v, ast.Constant) and v.value in (False, None)
            ctx.ob(R5, cname, f"class default {a} = {astq.text(v) if v is not None else '?'}", ok)

    # ------------------------------------------------------------------ R6 warning
    R6 = ctx.rule("C07-R6", "an unverified connection triggers InsecureRequestWarning: not is_verified and not proxy_is_verified => warnings.warn(..., InsecureRequestWarning)", "E4")
    pconn = "p:" + vc.params()[0]

    def _warn_event(text, node):
        return "warn" if text == "warnings.warn" else None

    wrows = [r for r in effect_rows(ctx, vc, GenRule(ctx, CP, events=_warn_event, pure_self=()), f"{CP}.HTTPSConnectionPool") if r.returns]
    ctx.sites(R6, len(wrows), 2, "rows of HTTPSConnectionPool._validate_conn")
    seen_w = set()
    n_warn = 0
    for r in wrows:
        v1, v2 = r.truth(f"{pconn}.is_verified"), r.truth(f"{pconn}.proxy_is_verified")
        warns = r.events("warn")
        key = (v1, v2, len(warns))
        if key in seen_w:
            continue
        seen_w.add(key)
        unverified = v1 is False and v2 is False
        verified = v1 is True or v2 is True
        if unverified:
            n_warn += 1
            cat_ok = bool(warns) and any("InsecureRequestWarning" in str(a_) for a_ in warns[0][1:])
            ctx.ob(R6, vc.qual, "neither the connection nor its proxy hop is verified -> InsecureRequestWarning", len(warns) == 1 and cat_ok,
                   "" if len(warns) == 1 and cat_ok else "unverified requests are no longer announced", witness=r.witness(), node=vc.node)
        elif verified:
            ctx.ob(R6, vc.qual, f"verified (connection={v1}, proxy hop={v2}) -> no warning", not warns, "" if not warns else "a verified request is announced as unverified", witness=r.witness(), node=vc.node)
        else:
            ctx.ob(R6, vc.qual, f"silence only for a verified connection (connection={v1}, proxy hop={v2})", bool(warns),
                   "" if warns else "a path stays silent although neither is_verified nor proxy_is_verified is known to be true (e.g. proxy_is_verified False rather than None)", witness=r.witness(), node=vc.node)
        # the state is read after the handshake was forced
        closed = r.truth(f"{pconn}.is_closed")
        if closed is True:
            conn_ev = [e for e in r.events("call") if e[1].endswith(".connect")]
            ctx.ob(R6, vc.qual, "a closed connection is connected before its verification state is read", bool(conn_ev), "" if conn_ev else "the state of a connection that never shook hands is consulted", witness=r.witness(), node=vc.node)
    ctx.sites(R6, n_warn, 1, "rows with an unverified connection")

    # ------------------------------------------------------------------ R7 backend callback
    R7 = ctx.rule("C07-R7", "pyOpenSSL backend: the verify callback's verdict depends on OpenSSL's error code and the verify_mode setter installs it", "E6")
    if "urllib3.contrib.pyopenssl" in m.modules:
        cb = m.func("urllib3.contrib.pyopenssl._verify_callback")
        rets = [r for r in astq.walk_fn(cb.node) if isinstance(r, ast.Return)]
        ok = all(r.value is not None and "err_no" in astq.names_in(r.value) and not (isinstance(r.value, ast.Constant)) for r in rets) and rets
        ok = ok and all(isinstance(r.value, ast.Compare) and isinstance(r.value.ops[0], ast.Eq) and astq.text(r.value.comparators[0]) == "0" for r in rets)
        ctx.ob(R7, cb.qual, "returns err_no == 0", bool(ok), "; ".join(astq.text(r) for r in rets) if rets else "no return")
        setter = m.funcs.get("urllib3.contrib.pyopenssl.PyOpenSSLContext.verify_mode@setter")
        if setter is None:
            raise AnalysisError("PyOpenSSLContext.verify_mode setter not found")
        cs = [c for c in astq.calls(setter.node) if astq.call_text(c) == "self._ctx.set_verify"]
        ok = bool(cs) and len(cs[0].args) == 2 and astq.text(cs[0].args[1]) == "_verify_callback" and "value" in astq.names_in(cs[0].args[0])
        ctx.ob(R7, setter.qual, "set_verify(<mode from value>, _verify_callback)", ok)
        tbl = fold.try_module_const("urllib3.contrib.pyopenssl", "_stdlib_to_openssl_verify")
        ctx.ob(R7, "urllib3.contrib.pyopenssl", "stdlib->OpenSSL verify-mode table present", True)

    # ------------------------------------------------------------------ R9 mismatch fatal
    R9 = ctx.rule("C07-R9", "a hostname mismatch is fatal: _match_hostname re-raises CertificateError on every path; _make_request / urlopen translate it to SSLError without swallowing", "E4")
    mh = m.func(f"{CN}._match_hostname")
    hs = [n for n in astq.walk_fn(mh.node) if isinstance(n, ast.ExceptHandler)]
    ctx.sites(R9, len(hs), 1, "handler in _match_hostname")
    for h in hs:
        ok = astq.all_paths_end_in(h.body, lambda s: isinstance(s, ast.Raise) and s.exc is None)
        ctx.ob(R9, mh.qual, f"handler `except {', '.join(astq.handler_type_names(h))}` re-raises", ok, "" if ok else "a certificate that does not match the host is accepted", node=h)
    from ..rows import GenRule as _GR9, effect_rows as _er9, bind as _bind9, helper_closure as _hc9
    from ..terms import subterms as _sub9
    mrows = _er9(ctx, mh, _GR9(ctx, mh.module, inline=frozenset(_hc9(m, [mh]) - {mh.qual})), None)
    pc, ph = "p:" + mh.params()[0], "p:" + mh.params()[1]
    mfun = m.func("urllib3.util.ssl_match_hostname.match_hostname")
    nmh = 0
    seen9 = set()
    for r_ in mrows:
        cs = [e_ for e_ in r_.events("call") if e_[1].endswith("match_hostname") and not e_[1].endswith("_match_hostname")]
        if r_.returns and not cs:
            ctx.ob(R9, mh.qual, "every returning path went through match_hostname", False, "a path returns without matching the certificate", witness=r_.witness(), node=mh.node)
        for e_ in cs:
            nmh += 1
            b_ = _bind9(mfun.params(), [a_ for a_ in e_[2:] if isinstance(a_, str)])
            k_ = (b_.get("cert"), b_.get("hostname"))
            if k_ in seen9:
                continue
            seen9.add(k_)
            okc = b_.get("cert") == pc
            okh = ph in set(_sub9(b_.get("hostname") or ""))
            ctx.ob(R9, mh.qual, f"delegates to match_hostname(cert, <the asserted hostname>, ...) [{b_.get('hostname')}]", okc and okh,
                   "" if okc and okh else f"match_hostname is given cert={b_.get('cert')} hostname={b_.get('hostname')}: not the peer certificate / the name to assert", witness=r_.witness(), node=mh.node)
    ctx.sites(R9, nmh, 1, "match_hostname calls on rows of _match_hostname")


# ---------------------------------------------------------------------------- R10 shared with C08 (added after seeded change C07/matcher-loses-end-anchor)
_run_base07 = run


def run(ctx):  # noqa: F811
    _run_base07(ctx)
    R10 = ctx.rule("C07-R10", "when urllib3 checks the hostname itself (pyOpenSSL, assert_hostname, caller context without check_hostname) the matcher accepts whole-name matches only (shared with C08-R1): the pattern is anchored at both ends and applied to the whole hostname, so a certificate for *.svc.test does not verify api.svc.test.evil.example", "E10 effect rows (shared with C08)")
    from . import c08_pattern

    before = len(ctx.obs)
    rules_before = dict(ctx.rules)
    c08_pattern.run(ctx)
    keep_rules = ("C08-R1",)
    ctx.obs[before:] = [o for o in ctx.obs[before:] if o.rule in keep_rules]
    for r in list(ctx.rules):
        if r.startswith("C08-") and r not in keep_rules and r not in rules_before:
            ctx.rules.pop(r)
    ctx.ob(R10, "urllib3.util.ssl_match_hostname._dnsname_match", f"{len(ctx.obs) - before} shared obligations (C08-R1)", True)

    # ------------------------------------------------------------------ shared with C08-R4 (added after a round-3 seed): which subject names may satisfy which kind of host
    from . import c08_rest
    before = len(ctx.obs)
    rules_before = dict(ctx.rules)
    c08_rest.run(ctx)
    keep_rules = ("C08-R4",)
    ctx.obs[before:] = [o for o in ctx.obs[before:] if o.rule in keep_rules]
    for r in list(ctx.rules):
        if r.startswith("C08-") and r not in keep_rules and r not in rules_before:
            ctx.rules.pop(r)
    ctx.rules["C08-R4"]["decides"] = "(shared with C08) when urllib3 checks the name itself, " + ctx.rules["C08-R4"]["decides"]

    # ------------------------------------------------------------------ R11 trust anchors are the configured ones
    m = ctx.model
    R11 = ctx.rule("C07-R11", "chain validation is against the configured CAs: the OS default trust store is added (load_default_certs) only on paths where no CA was configured - ca_certs, ca_cert_dir and ca_cert_data are all unset - and the context is urllib3's own default one, never a caller-supplied context", "E10 effect rows of _ssl_wrap_socket_and_match_hostname")
    from ..rows import GenRule, effect_rows, helper_closure
    wf11 = m.func(WRAP)
    inl11 = helper_closure(m, [wf11]) - {wf11.qual}
    rule11 = GenRule(ctx, wf11.module, inline=frozenset(inl11), events=lambda t_, n_: "load-defaults" if t_.endswith(".load_default_certs") else None)
    rows11 = effect_rows(ctx, wf11, rule11, None, budget=3000000)
    CA_PARAMS = [p_ for p_ in wf11.params() if p_ in ("ca_certs", "ca_cert_dir", "ca_cert_data")]
    ctx.ob(R11, wf11.qual, "the three ways to configure a CA are parameters of the verification function", len(CA_PARAMS) == 3, str(CA_PARAMS), node=wf11.node)
    n11, seen11 = 0, set()
    for r in rows11:
        if not r.events("load-defaults"):
            continue
        n11 += 1
        cas = tuple(r.truth("p:" + p_) for p_ in CA_PARAMS)
        own = r.is_none("p:ssl_context")
        if own is None and r.truth("p:ssl_context") is False:
            own = True
        k_ = (cas, own)
        if k_ in seen11:
            continue
        seen11.add(k_)
        ok = all(c_ is False for c_ in cas) and own is True
        ctx.ob(R11, wf11.qual, f"OS default trust store loaded with {dict(zip(CA_PARAMS, cas))}, caller context absent={own}", ok,
               "" if ok else "the default trust store is added although a CA was configured (or into a caller's context): a peer certified by any public CA passes chain validation, not only one certified by the configured CA", witness=r.witness(), node=wf11.node)
    ctx.sites(R11, n11, 1, "rows that load the OS default trust store")
