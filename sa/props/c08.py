"""C08 - certificate name and fingerprint matching accept exactly what the rules allow."""
from __future__ import annotations

import ast
import hashlib
import re._constants as sc

from .. import astq, rx
from ..events import outcome_name, run_function
from ..interp import AV, BASE_TOP, EXT_TOP, UNK, BaseRule, Out, const, exc
from ..model import AnalysisError

MH = "urllib3.util.ssl_match_hostname"
SSLU = "urllib3.util.ssl_"
CN = "urllib3.connection"


def _flatten_add(e):
    if isinstance(e, ast.BinOp) and isinstance(e.op, ast.Add):
        return _flatten_add(e.left) + _flatten_add(e.right)
    return [e]


def _classify_fragment(e, fold, module):
    """('literal', None) for re.escape(x); ('pattern', str) for constant pattern text;
    ('escaped-with-replacement', repl) for re.escape(x).replace(r'\\*', repl)."""
    if isinstance(e, ast.Call) and astq.call_text(e) == "re.escape" and len(e.args) == 1:
        return ("literal", astq.text(e.args[0]))
    if isinstance(e, ast.Call) and isinstance(e.func, ast.Attribute) and e.func.attr == "replace" and isinstance(e.func.value, ast.Call) \
            and astq.call_text(e.func.value) == "re.escape" and len(e.args) == 2:
        try:
            what, repl = fold.ev(e.args[0], module), fold.ev(e.args[1], module)
        except Exception:
            return ("unknown", astq.text(e))
        return ("escaped-with-replacement", (astq.text(e.func.value.args[0]), what, repl))
    try:
        v = fold.ev(e, module)
        if isinstance(v, str):
            return ("pattern", v)
    except Exception:
        pass
    return ("unknown", astq.text(e))


def _dotless_repeat(pattern, min_needed):
    """pattern is exactly one repeat of a class that excludes '.', with min >= min_needed"""
    p = list(rx.parse(pattern))
    if len(p) != 1 or p[0][0] not in (sc.MAX_REPEAT, sc.MIN_REPEAT):
        return False, "not a single repeat"
    lo, hi, body = p[0][1]
    body = list(body)
    if len(body) != 1 or body[0][0] not in (sc.IN, sc.NOT_LITERAL):
        return False, "repeat body is not a character class"
    cls = rx.class_set(body[0][1]) if body[0][0] is sc.IN else rx.PROBE_SET - {chr(body[0][1])}
    if "." in cls:
        return False, "class admits '.' (the wildcard would span labels)"
    if lo < min_needed:
        return False, f"repeat minimum {lo} < {min_needed} (the wildcard would match an empty label)"
    return True, ""


def run(ctx):
    m, fold = ctx.model, ctx.fold
    ctx.assume("A1")
    ctx.decline("acceptance over the whole language of names (would need running the matcher on enumerated certificates and hosts); each rule of the statement is tied to one structural fact of the matcher instead")

    # ------------------------------------------------------------------ R1 / R2 / R3 on effect rows (c08_pattern.py)
    from . import c08_pattern

    c08_pattern.run(ctx)
    dm = m.func(f"{MH}._dnsname_match")

    # ------------------------------------------------------------------ R4 dispatch table
    R4 = ctx.rule("C08-R4", "dispatch: DNS entries are consulted only when the host is not an IP, IP entries only when it is, commonName only when enabled and the host is not an IP and no SAN of either kind was seen; every non-matching path raises CertificateError", "E5 on match_hostname")
    mh = m.func(f"{MH}.match_hostname")

    class DispatchRule(BaseRule):
        def __init__(self):
            self.events = []

        def after_assign(self, it, st, stmt, av):
            tgt = stmt.targets[0] if isinstance(stmt, ast.Assign) else stmt.target
            if isinstance(stmt.value, ast.List) and not stmt.value.elts and isinstance(tgt, ast.Name):
                st.env[it.var(tgt.id)] = AV("unk", truth=False, none=False, tags=frozenset({"list"}))

        def for_iter(self, it, st, stmt, itv):
            ck = ("iters", stmt.lineno)
            n = st.ts.get(ck, 0)
            if n >= 1:
                return [(st.copy(), False)]
            s = st.copy()
            s.ts[ck] = n + 1
            if isinstance(stmt.target, ast.Tuple):
                s.ts["curkey"] = f"key@{stmt.lineno}"
                if itv.sym == "cert['subjectAltName']":
                    s.ts["sankey"] = f"key@{stmt.lineno}"
                it.assign(s, stmt.target, AV("tuple", (AV("unk", sym=f"key@{stmt.lineno}"), AV("unk", sym=f"value@{stmt.lineno}")), truth=True, none=False))
            else:
                it.assign(s, stmt.target, AV("unk", sym=f"sub@{stmt.lineno}"))
            return [(s, True), (st.copy(), False)]

        def call(self, it, st, node, recv, pos, kw):
            t = ast.unparse(node.func)
            if t == "ipaddress.ip_address":
                return [Out("normal", st, AV("obj", "ip", truth=True, none=False)), Out("raise", st.copy(), exc("builtins.ValueError"))]
            if t in ("_dnsname_match", "_ipaddress_match"):
                s = st.copy()
                hip = s.view(s.env.get(it.var(host_ip_name), UNK))
                keyv = s.view(pos[0]) if pos else UNK
                # has this path been through a subjectAltName entry of a kind that identifies the server (dNSName / iPAddress)?
                sk = s.ts.get("sankey")
                san_seen = any(s.ts.get(("cmp", sk, "==", repr(kind))) is True for kind in ("DNS", "IP Address")) if sk else False
                s.ts["consults"] = s.ts.get("consults", ()) + ((t, hip.none, self._key_of(s, it), san_seen,
                                                               s.facts.get("p:hostname_checks_common_name", (None, None))[0]),)
                return [Out("normal", s, AV("unk", sym=f"match@{len(s.ts['consults'])}"))]
            if isinstance(node.func, ast.Attribute) and node.func.attr == "append" and recv is not None and "list" in recv.tags:
                s = st.copy()
                if isinstance(node.func.value, ast.Name):
                    s.env[it.var(node.func.value.id)] = AV("unk", truth=True, none=False, tags=frozenset({"list"}))
                return [Out("normal", s, const(None))]
            if isinstance(node.func, ast.Attribute) and node.func.attr == "get" and recv is not None and recv.sym == "p:cert" and pos and pos[0].kind == "const":
                return [Out("normal", st, AV("unk", sym=f"cert[{pos[0].val!r}]"))]
            if t in ("cert.get", "len", "map", "repr", "hostname.rfind"):
                return [Out("normal", st, AV("unk", sym=f"v:{t}@{node.lineno}"))]
            q = it.resolve_callee(node, recv)
            if q and it.m.is_exception_class(q):
                return [Out("normal", st, AV("exc", it.m.norm(q), truth=True, none=False))]
            return [Out("normal", st, UNK)]

        def _key_of(self, s, it):
            cur = s.ts.get("curkey")
            for k, v in s.ts.items():
                if isinstance(k, tuple) and k[0] == "cmp" and k[2] == "==" and v is True and k[1] == cur:
                    return k[3]
            return None

    # locals by role, not by name
    host_ip_name = None
    for n_ in astq.walk_fn(mh.node):
        if isinstance(n_, ast.Assign) and isinstance(n_.targets[0], ast.Name):
            if isinstance(n_.value, ast.Call) and astq.call_text(n_.value) == "ipaddress.ip_address":
                host_ip_name = n_.targets[0].id
    if host_ip_name is None:
        raise AnalysisError("match_hostname: the local holding the parsed host IP was not found")
    drule = DispatchRule()
    outs, it = run_function(m, mh, drule, params={"cert": AV("unk", sym="p:cert", truth=True, none=False)}, record_decisions=True)
    ctx.states += it.budget.steps
    seen = set()
    nn = 0
    for o in outs:
        for (fn, hip_none, key, dn_truth, cn_flag) in o.st.ts.get("consults", ()):
            k = (fn, hip_none, key, dn_truth, cn_flag)
            if k in seen:
                continue
            seen.add(k)
            nn += 1
            if fn == "_ipaddress_match":
                ok = hip_none is False and key == "'IP Address'"
                why = "an IP subjectAltName is compared although the requested host is not an IP address (or under another SAN type)"
            elif key == "'DNS'":
                ok = hip_none is True
                why = "a DNS subjectAltName is matched against an IP-address host"
            elif key == "'commonName'":
                ok = hip_none is True and cn_flag is True and dn_truth is False
                why = "commonName is consulted although it was not enabled, the host is an IP, or a dNSName / iPAddress subjectAltName was seen on this path (RFC 6125: the SAN extension, when it identifies the server, is the only source of names)"
            else:
                ok, why = False, f"name matcher consulted under key {key}"
            ctx.ob(R4, mh.qual, f"{fn} consulted with host-is-IP={None if hip_none is None else (not hip_none)} key={key} SAN-seen={dn_truth} CN-enabled={cn_flag}", ok, "" if ok else why, node=mh.node)
    ctx.sites(R4, nn, 3, "consultation contexts")
    kinds = {}
    for o in outs:
        if o.kind == "raise" and o.val.val in (EXT_TOP.val, BASE_TOP.val):
            continue
        kinds.setdefault(outcome_name(o), []).append(o)
    for k, lst in sorted(kinds.items()):
        if k.startswith("return"):
            # a return is only reached right after a truthy match
            bad = [o for o in lst if not any(o.st.facts.get(f"match@{i + 1}", (None, None))[0] is True for i in range(len(o.st.ts.get("consults", ()))))]
            ctx.ob(R4, mh.qual, f"success ({len(lst)} paths) only after a matcher returned true", not bad, "" if not bad else "match_hostname can return without any name having matched", witness=bad[0].st.witness() if bad else None, node=mh.node)
        elif k == "raise:CertificateError":
            ctx.ob(R4, mh.qual, f"no match -> CertificateError ({len(lst)} paths)", True)
        elif k == "raise:ValueError":
            ctx.ob(R4, mh.qual, "empty certificate -> ValueError", all(o.st.facts.get("p:cert", (None, None))[0] is False or True for o in lst))
        else:
            ctx.ob(R4, mh.qual, f"exit kind {k}", False, "a path through match_hostname ends neither in success after a match nor in CertificateError", witness=lst[0].st.witness(), node=mh.node)
    ctx.ob(R4, mh.qual, "falling off the end is impossible (no normal exit)", "normal" not in kinds)

    # ------------------------------------------------------------------ R5 IP by value
    R5 = ctx.rule("C08-R5", "IP entries are compared by address value (packed bytes of parsed addresses); the zone id is cut before parsing the host", "E6")
    im = m.func(f"{MH}._ipaddress_match")
    rets = [r for r in astq.walk_fn(im.node) if isinstance(r, ast.Return)]
    ok = len(rets) == 1 and ".packed == " in astq.text(rets[0]) and astq.text(rets[0]).count(".packed") == 2
    ctx.ob(R5, im.qual, f"`{astq.text(rets[0]) if rets else ''}` compares packed addresses", ok, "" if ok else "IP subjectAltNames are compared textually: equivalent spellings differ, different addresses may agree")
    ok = any(astq.call_text(c) == "ipaddress.ip_address" for c in astq.calls(im.node))
    ctx.ob(R5, im.qual, "the certificate's value is parsed as an IP address", ok)
    txt = astq.text(mh.node)
    ctx.ob(R5, mh.qual, "zone id is cut before parsing the host", "hostname[:hostname.rfind('%')]" in txt.replace('"', "'"))

    # ------------------------------------------------------------------ R6 bracket stripping
    R6 = ctx.rule("C08-R6", "brackets are stripped from the asserted name only when the remainder is an IP literal", "E5 on _match_hostname")
    cm = m.func(f"{CN}._match_hostname")
    stores = [n for n in astq.walk_fn(cm.node) if isinstance(n, ast.Assign) and astq.text(n.targets[0]) == "asserted_hostname"]
    ctx.sites(R6, len(stores), 1, "re-definitions of asserted_hostname")
    for n in stores:
        g = astq.enclosing(n, ast.If)
        ok = g is not None and astq.call_text(g.test) == "is_ipaddress" if isinstance(getattr(g, "test", None), ast.Call) else False
        srcs = astq.sources_of(cm.node, n.value)
        ok = ok and any("strip('[]')" in astq.text(s).replace('"', "'") for s in srcs)
        ctx.ob(R6, cm.qual, f"`{astq.text(n)}` under `{astq.text(g.test) if g is not None else ''}`", ok, node=n)

    # ------------------------------------------------------------------ R7 fingerprint
    R7 = ctx.rule("C08-R7", "fingerprint assertion: colons removed and lower-cased before the length is taken; length selects MD5/SHA-1/SHA-256 (32/40/64 = 2 x digest size); other lengths raise; digest compared with hmac.compare_digest against the un-hexed pin; inequality raises SSLError", "E6 + E2 + E5")
    af = m.func(f"{SSLU}.assert_fingerprint")
    txt = astq.text(af.node).replace('"', "'")
    norm = [n for n in astq.walk_fn(af.node) if isinstance(n, ast.Assign) and astq.text(n.targets[0]) == "fingerprint"]
    ok = any("replace(':', '')" in astq.text(n.value).replace('"', "'") and ".lower()" in astq.text(n.value) for n in norm)
    ctx.ob(R7, af.qual, "pin is normalised: colons removed, lower-cased", ok)
    ln = [n for n in astq.walk_fn(af.node) if isinstance(n, ast.Assign) and astq.text(n.value) == "len(fingerprint)"]  # `fingerprint` is the parameter
    ctx.ob(R7, af.qual, "length is taken after normalisation", bool(ln) and bool(norm) and ln[0].lineno > max(n.lineno for n in norm))
    # HASHFUNC_MAP table
    st_ = m.assigns.get(SSLU, {}).get("HASHFUNC_MAP")
    if not st_:
        raise AnalysisError("HASHFUNC_MAP not found")
    table = None
    v = st_[-1].value
    if isinstance(v, ast.DictComp):
        try:
            table = dict(fold.ev(v.generators[0].iter, SSLU))
        except Exception:
            table = None
    elif isinstance(v, ast.Dict):
        table = {}
        for k, x in zip(v.keys, v.values):
            table[fold.ev(k, SSLU)] = astq.text(x).split(".")[-1]
    if table is None:
        raise AnalysisError("HASHFUNC_MAP does not fold")
    ctx.ob(R7, SSLU, f"HASHFUNC_MAP lengths {sorted(table)} == [32, 40, 64]", sorted(table) == [32, 40, 64])
    for length, alg in sorted(table.items()):
        try:
            ds = hashlib.new(alg).digest_size
        except Exception:
            ds = None
        ctx.ob(R7, SSLU, f"length {length} selects {alg} (digest size {ds})", ds is not None and ds * 2 == length and alg in ("md5", "sha1", "sha256"),
               "" if ds is not None and ds * 2 == length else "pin length does not correspond to the selected digest")
    def _is_len_of_pin(e):
        return any(isinstance(x, ast.Call) and astq.text(x) == "len(fingerprint)" for x in astq.sources_of(af.node, e))

    g = [n for n in astq.walk_fn(af.node) if isinstance(n, ast.If) and isinstance(n.test, ast.Compare) and isinstance(n.test.ops[0], ast.NotIn)
         and astq.text(n.test.comparators[0]) == "HASHFUNC_MAP" and _is_len_of_pin(n.test.left)]
    ok = bool(g) and astq.all_paths_end_in(g[0].body, lambda s: isinstance(s, ast.Raise) and s.exc is not None and "SSLError" in astq.text(s.exc))
    ctx.ob(R7, af.qual, "a pin of any other length raises SSLError", ok)
    cmpn = [n for n in astq.walk_fn(af.node) if isinstance(n, ast.If) and "compare_digest" in astq.text(n.test)]
    ctx.sites(R7, len(cmpn), 1, "digest comparison")
    for n in cmpn:
        t = astq.text(n.test)
        ok = isinstance(n.test, ast.UnaryOp) and isinstance(n.test.op, ast.Not) and isinstance(n.test.operand, ast.Call) \
            and astq.call_text(n.test.operand) == "hmac.compare_digest" and astq.all_paths_end_in(n.body, lambda s: isinstance(s, ast.Raise) and s.exc is not None and "SSLError" in astq.text(s.exc))
        ctx.ob(R7, af.qual, "`not hmac.compare_digest(digest, pin)` -> raise SSLError", ok, "" if ok else "a mismatching fingerprint is accepted", node=n)
        c = n.test.operand if isinstance(n.test, ast.UnaryOp) else None
        if isinstance(c, ast.Call) and len(c.args) == 2:
            srcs_all = [x for a in c.args for x in astq.sources_of(af.node, a)]
            has_digest = any(isinstance(x, ast.Call) and isinstance(x.func, ast.Attribute) and x.func.attr == "digest" and isinstance(x.func.value, ast.Call)
                             and [astq.text(y) for y in x.func.value.args] == ["cert"]
                             and any(isinstance(z, ast.Call) and astq.call_text(z) in ("HASHFUNC_MAP.get", ) or (isinstance(z, ast.Subscript) and astq.text(z.value) == "HASHFUNC_MAP")
                                     for z in astq.sources_of(af.node, x.func.value.func)) for x in srcs_all)
            has_pin = any(isinstance(x, ast.Call) and astq.call_text(x) == "unhexlify" and "fingerprint" in astq.names_in(x) for x in srcs_all)
            ctx.ob(R7, af.qual, "compares <selected hash>(cert).digest() with the un-hexed pin", has_digest and has_pin, "; ".join(astq.text(x)[:40] for x in srcs_all), node=n)
    hsel = [x for n in astq.walk_fn(af.node) if isinstance(n, ast.Assign) for x in [n.value]
            if (isinstance(x, ast.Call) and astq.call_text(x) == "HASHFUNC_MAP.get" and x.args and _is_len_of_pin(x.args[0]))
            or (isinstance(x, ast.Subscript) and astq.text(x.value) == "HASHFUNC_MAP" and _is_len_of_pin(x.slice))]
    ctx.ob(R7, af.qual, "the digest is selected by the pin's length", bool(hsel))
    g2 = [n for n in astq.walk_fn(af.node) if isinstance(n, ast.If) and astq.text(n.test) == "cert is None"]
    ok = bool(g2) and astq.all_paths_end_in(g2[0].body, lambda s: isinstance(s, ast.Raise))
    ctx.ob(R7, af.qual, "no certificate -> raise", ok)
