"""C08 - certificate name and fingerprint matching accept exactly what the rules allow."""
from __future__ import annotations

import ast
import hashlib
import re._constants as sc

from .. import astq, rx
from ..events import outcome_name, run_function
from ..interp import AV, BASE_TOP, EXT_TOP, UNK, BaseRule, Out, const, exc
from ..model import AnalysisError

MH = "urllib3.util.ssl_match_hostname"
SSLU = "urllib3.util.ssl_"
CN = "urllib3.connection"


def _flatten_add(e):
    if isinstance(e, ast.BinOp) and isinstance(e.op, ast.Add):
        return _flatten_add(e.left) + _flatten_add(e.right)
    return [e]


def _classify_fragment(e, fold, module):
    """('literal', None) for re.escape(x); ('pattern', str) for constant pattern text;
    ('escaped-with-replacement', repl) for re.escape(x).replace(r'\\*', repl)."""
    if isinstance(e, ast.Call) and astq.call_text(e) == "re.escape" and len(e.args) == 1:
        return ("literal", astq.text(e.args[0]))
    if isinstance(e, ast.Call) and isinstance(e.func, ast.Attribute) and e.func.attr == "replace" and isinstance(e.func.value, ast.Call) \
            and astq.call_text(e.func.value) == "re.escape" and len(e.args) == 2:
        try:
            what, repl = fold.ev(e.args[0], module), fold.ev(e.args[1], module)
        except Exception:
            return ("unknown", astq.text(e))
        return ("escaped-with-replacement", (astq.text(e.func.value.args[0]), what, repl))
    try:
        v = fold.ev(e, module)
        if isinstance(v, str):
            return ("pattern", v)
    except Exception:
        pass
    return ("unknown", astq.text(e))


def _dotless_repeat(pattern, min_needed):
    """pattern is exactly one repeat of a class that excludes '.', with min >= min_needed"""
    p = list(rx.parse(pattern))
    if len(p) != 1 or p[0][0] not in (sc.MAX_REPEAT, sc.MIN_REPEAT):
        return False, "not a single repeat"
    lo, hi, body = p[0][1]
    body = list(body)
    if len(body) != 1 or body[0][0] not in (sc.IN, sc.NOT_LITERAL):
        return False, "repeat body is not a character class"
    cls = rx.class_set(body[0][1]) if body[0][0] is sc.IN else rx.PROBE_SET - {chr(body[0][1])}
    if "." in cls:
        return False, "class admits '.' (the wildcard would span labels)"
    if lo < min_needed:
        return False, f"repeat minimum {lo} < {min_needed} (the wildcard would match an empty label)"
    return True, ""


def run(ctx):
    m, fold = ctx.model, ctx.fold
    ctx.assume("A1")
    ctx.decline("acceptance over the whole language of names (would need running the matcher on enumerated certificates and hosts); each rule of the statement is tied to one structural fact of the matcher instead")

    # ------------------------------------------------------------------ R1 / R2 / R3 on effect rows (c08_pattern.py)
    from . import c08_pattern

    c08_pattern.run(ctx)
    dm = m.func(f"{MH}._dnsname_match")

    # ------------------------------------------------------------------ R4 .. R7 on effect rows (c08_rest.py)
    from . import c08_rest

    c08_rest.run(ctx)
