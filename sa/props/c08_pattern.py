"""C08-R1/R2/R3 on effect rows of _dnsname_match: the function is interpreted with Herbrand terms (sa/terms.py); each
returning row carries the term of the regular expression it built and applied, and the decisions that led there.
The clauses are stated on those terms, so temporaries, helper locals, loop-vs-comprehension and the way the pattern is
compiled and applied (compile().match, re.match, fullmatch) do not matter - only what pattern is matched against what."""
from __future__ import annotations

import ast
import re._constants as sc

from .. import rx
from ..events import run_function
from ..interp import AV, Out
from ..model import AnalysisError
from ..rows import GenRule, private_helpers
from ..terms import K, T, TermRule, destruct, is_opaque, norm, term_of, tv

MH = "urllib3.util.ssl_match_hostname"


class PatRule(GenRule):
    def getattr(self, it, st, node, base):
        if isinstance(node.value, ast.Name) and node.value.id == "re":
            return tv(f"re.{node.attr}", none=False, truth=True)
        return super().getattr(it, st, node, base)

    def call_hook(self, it, st, node, recv, pos, kw):
        t = ast.unparse(node.func)
        a = [term_of(p) for p in pos]
        fl = term_of(kw["flags"]) if "flags" in kw else None
        if t == "re.compile" and a:
            return [Out("normal", st, tv(T("re.compile", a[0], a[1] if len(a) > 1 else (fl or "0")), none=False, truth=True))]
        if t == "re.escape" and a:
            if pos[0].kind == "const" and isinstance(pos[0].val, str):
                import re as _re

                from ..interp import const as _c
                return [Out("normal", st, _c(_re.escape(pos[0].val)))]  # constant folding of a pure stdlib function
            return [Out("normal", st, tv(T("re.escape", a[0]), none=False))]
        if t in ("re.match", "re.fullmatch", "re.search") and len(a) >= 2:
            return [Out("normal", st, tv(T("rx." + t[3:], T("re.compile", a[0], a[2] if len(a) > 2 else (fl or "0")), a[1])))]
        f = node.func
        if isinstance(f, ast.Attribute) and recv is not None and recv.sym and recv.sym.startswith("re.compile(") and f.attr in ("match", "fullmatch", "search") and a:
            return [Out("normal", st, tv(T("rx." + f.attr, recv.sym, a[0])))]
        if t == "bool" and pos and pos[0].kind == "const":
            from ..interp import const
            return [Out("normal", st, const(bool(pos[0].val)))]
        return super().call_hook(it, st, node, recv, pos, kw)


def _dotless_repeat(pattern, min_needed):
    try:
        p = list(rx.parse(pattern))
    except Exception as e:  # not a valid pattern
        return False, f"not a regular expression: {e}"
    if len(p) != 1 or p[0][0] not in (sc.MAX_REPEAT, sc.MIN_REPEAT):
        return False, "not a single repeat"
    lo, hi, body = p[0][1]
    body = list(body)
    if len(body) != 1 or body[0][0] not in (sc.IN, sc.NOT_LITERAL):
        return False, "repeat body is not a character class"
    cls = rx.class_set(body[0][1]) if body[0][0] is sc.IN else rx.PROBE_SET - {chr(body[0][1])}
    if "." in cls:
        return False, "class admits '.' (the wildcard would span labels)"
    if lo < min_needed:
        return False, f"repeat minimum {lo} < {min_needed} (the wildcard would match an empty label)"
    return True, ""


def _flat_add(t):
    op, args = destruct(t)
    if op == "format":
        # "\\A{}\\Z".format(x): the f-string with the same fields (terms.norm)
        nt = norm(t)
        if destruct(nt)[0] == "cat":
            return list(destruct(nt)[1])
    if op == "cat":
        return list(args)
    if op == "add" and len(args) == 2:
        return _flat_add(args[0]) + _flat_add(args[1])
    if op == "fstr":
        out = []
        for a in args:
            out += _flat_add(a)
        return out
    return [t]


def _const(t):
    op, args = destruct(t)
    return args if op == "const" else None


def run(ctx):
    m = ctx.model
    dm = m.func(f"{MH}._dnsname_match")
    ps = dm.params()
    if len(ps) < 2:
        raise AnalysisError("_dnsname_match: (dn, hostname) parameters not found")
    pdn, phost = "p:" + ps[0], "p:" + ps[1]
    pmax = "p:" + ps[2] if len(ps) > 2 else None
    R1 = ctx.rule("C08-R1", "the pattern _dnsname_match applies: anchored at both ends (\\A...\\Z or fullmatch) and matched against the whole hostname, case-insensitively; labels joined by an escaped dot; only the left-most label may contribute a non-literal: a bare `*` becomes a repeat (min 1) of a class excluding '.', a partial wildcard a repeat of such a class; every other label passes re.escape; without wildcard: exact case-insensitive equality", "E10 effect rows (Herbrand terms) + E7 on the fragments")
    R2 = ctx.rule("C08-R2", "more than max_wildcards (default 1) wildcards in the left-most label raise before any pattern is built; wildcards are counted in the left-most label only", "E10 effect rows")
    R3 = ctx.rule("C08-R3", "IDN rule: a left-most label or a hostname starting with xn-- gets no wildcard expansion inside the label (the label is escaped)", "E10 effect rows")

    helpers = private_helpers(m, MH, exclude=("_dnsname_match", "_ipaddress_match"))
    outs, it = run_function(m, dm, PatRule(ctx, MH, inline=helpers), inline=frozenset(helpers))
    ctx.states += it.budget.steps
    rows = [o for o in outs if not (o.kind == "raise" and str(o.val.val).startswith("<"))]

    PART = T("partition", pdn, K("."))
    SPLIT = [T("split", pdn, K(".")), T("split", pdn, K("."), "-1"), PART, T("split", pdn, K("."), "1")]

    def leftmost_of(o):
        for sp in SPLIT:
            L = T("idx", sp, "0")
            if any(isinstance(k, tuple) and L in str(k) for k in list(o.st.ts) + list(o.st.facts)):
                return sp, L
        return SPLIT[0], T("idx", SPLIT[0], "0")

    d = dm.defaults().get(ps[2]) if len(ps) > 2 else None
    ctx.ob(R2, dm.qual, "max_wildcards defaults to 1", isinstance(d, ast.Constant) and d.value == 1 and not isinstance(d.value, bool),
           "" if isinstance(d, ast.Constant) and d.value == 1 else "the default budget admits more than one wildcard", node=dm.node)

    n_regex = n_eq = n_budget = 0
    seen = set()
    first_kinds = set()
    with_rest, without_rest = set(), set()
    for o in rows:
        sp, L = leftmost_of(o)
        cnt = T("count", L, K("*"))
        over = o.st.ts.get(("cmp", cnt, ">", pmax)) if pmax else None
        wild = o.st.facts.get(cnt, (None, None))[0]
        out = ("raise:" + str(o.val.val).rsplit(".", 1)[-1]) if o.kind == "raise" else ("return:" + term_of(o.val) if o.kind == "return" else "normal")
        key = (out, over, wild, tuple(sorted((str(k), v) for k, v in o.st.ts.items() if isinstance(k, tuple) and k[0] == "cmp")),
               tuple(sorted((k, v) for k, v in o.st.facts.items() if "xn--" in k)))
        if key in seen:
            continue
        seen.add(key)
        wit = o.st.witness()
        if o.kind == "raise":
            if out == "raise:CertificateError":
                n_budget += 1
                ctx.ob(R2, dm.qual, "CertificateError only for too many wildcards in the left-most label", over is True,
                       "" if over is True else "raised without the decision `count of '*' in the left-most label > max_wildcards`", witness=wit, node=dm.node)
            continue
        if o.kind != "return":
            ctx.ob(R1, dm.qual, "every path returns a verdict", False, "falls off the end", witness=wit, node=dm.node)
            continue
        rt = term_of(o.val)
        op, args = destruct(rt)
        if op in ("rx.match", "rx.fullmatch", "rx.search"):
            n_regex += 1
            # ---- budget decided before the pattern is applied
            ctx.ob(R2, dm.qual, "the wildcard budget was tested on this path before a pattern is applied", over is False,
                   "" if over is False else "a pattern is built although the number of wildcards in the left-most label was never compared with max_wildcards", witness=wit, node=dm.node)
            comp, subject = args
            cop, cargs = destruct(comp)
            if cop != "re.compile":
                raise AnalysisError(f"C08-R1: pattern object of unknown origin: {comp}")
            P, F = cargs
            ctx.ob(R1, dm.qual, "the pattern is applied to the whole hostname", subject == phost, f"matched against {subject}", witness=wit, node=dm.node)
            ctx.ob(R1, dm.qual, "case-insensitive matching", "IGNORECASE" in F or F in ("re.I",) or "re.I," in F or F.endswith("re.I)"), f"flags {F}", witness=wit, node=dm.node)
            parts = _flat_add(P)
            body = None
            if op == "rx.fullmatch":
                anchored = True
                body = parts
            else:
                c0, c1 = _const(parts[0]), _const(parts[-1])
                anchored = (op == "rx.match" or (c0 is not None and isinstance(c0, str) and c0.startswith(r"\A"))) and c1 is not None and isinstance(c1, str) and c1.endswith(r"\Z") and len(parts) >= 2
                if c0 is not None and isinstance(c0, str) and c0 in (r"\A", "^"):
                    parts = parts[1:]
                elif isinstance(c0, str) and c0.startswith(r"\A"):
                    parts = [K(c0[2:])] + parts[1:]  # the anchor folded together with a constant first fragment
                if parts and _const(parts[-1]) in (r"\Z",):
                    parts = parts[:-1]
                elif parts and isinstance(_const(parts[-1]), str) and _const(parts[-1]).endswith(r"\Z") and not _const(parts[-1]).endswith(r"\\Z"):
                    parts = parts[:-1] + [K(_const(parts[-1])[:-2])]
                body = parts
            ctx.ob(R1, dm.qual, f"the pattern is anchored at both ends ({op[3:]})", anchored,
                   "" if anchored else f"pattern term {P}: nothing ties the end of the match to the end of the hostname (\\Z / fullmatch): a certificate for *.svc.test is accepted for api.svc.test.evil.example",
                   witness=wit, node=dm.node)
            first = None
            if len(body) == 2 and sp == PART and destruct(body[1])[0] == "re.escape" and len(destruct(body[1])[1]) == 1 \
                    and norm(destruct(body[1])[1][0]) == norm(T("add", T("idx", PART, "1"), T("idx", PART, "2"))):
                # the name cut once at its first dot: <fragment of the left-most label> + re.escape(<everything from the first dot on>)
                # re.escape works character by character, so the tail is the remaining labels escaped and joined by escaped dots
                first = body[0]
                with_rest.add(first)
                ctx.ob(R1, dm.qual, "every label after the left-most one is escaped (a literal), and all of them are used", True, "re.escape of the part of the name from its first dot on")
            elif len(body) != 1:
                ctx.ob(R1, dm.qual, "between the anchors there is only the joined label list", False, f"pattern pieces {body}", witness=wit, node=dm.node)
                continue
            jop, jargs = destruct(body[0]) if first is None else ("<cut>", ())
            if first is not None:
                pass
            elif jop != "join":
                if is_opaque(body[0]):
                    raise AnalysisError(f"C08-R1: the pattern body is built in a way the rule cannot read: {body[0]}")
                ctx.ob(R1, dm.qual, "labels are joined", False, f"pattern body {body[0]}", witness=wit, node=dm.node)
                continue
            else:
                sep, lst = jargs
                ctx.ob(R1, dm.qual, "labels are joined by an escaped dot", _const(sep) == r"\.", f"separator {sep}", witness=wit, node=dm.node)
                lop, elts = destruct(lst)
                if lop != "list" or not elts:
                    raise AnalysisError(f"C08-R1: the fragment list is built in a way the rule cannot read: {lst}")
                first, rest = elts[0], list(elts[1:])
                # ---- the remaining labels: literal, all of them
                REM = T("slice", sp, "1", "", "")
                esc_each = T("re.escape", T("each", REM))
                ok_rest = {(T("rep", esc_each, REM),), (T("star", T("gen", esc_each, REM)),), (T("star", T("listcomp", esc_each, REM)),),
                           (T("star", T("map", "re.escape", REM)),)}
                if rest:
                    with_rest.add(first)
                    ctx.ob(R1, dm.qual, "every label after the left-most one is escaped (a literal), and all of them are used", tuple(rest) in ok_rest,
                           "" if tuple(rest) in ok_rest else f"remaining fragments {rest}: a label other than the left-most can contribute a wildcard, or labels are dropped", witness=wit, node=dm.node)
                else:
                    without_rest.add(first)
            jop = "done"
            if False:
                pass
            jop, jargs = "join-handled", ()
            # ---- the left-most label
            star = o.st.ts.get(("cmp", L, "==", K("*")))
            idn = o.st.facts.get(T("startswith", L, K("xn--")), (None, None))[0] is True or o.st.facts.get(T("startswith", phost, K("xn--")), (None, None))[0] is True
            idn_decided = o.st.facts.get(T("startswith", L, K("xn--")), (None, None))[0] is not None
            fop, fargs = destruct(first)
            c_first = _const(first)
            if star is True:
                first_kinds.add("whole")
                ok, why = (False, "not a constant fragment")
                if isinstance(c_first, str):
                    ok, why = _dotless_repeat(c_first, 1)
                ctx.ob(R1, dm.qual, f"a bare `*` label becomes {first}: one non-empty dotless label", ok, why, witness=wit, node=dm.node)
            elif fop == "re.escape" and fargs == (L,):
                first_kinds.add("literal")
                ctx.ob(R3, dm.qual, "escaped left-most label only under the IDN rule", idn and star is False,
                       "" if idn and star is False else "the left-most label is taken literally although it holds a wildcard and no xn-- prefix was seen (or a bare `*` was not separated)", witness=wit, node=dm.node)
            elif fop == "replace" and len(fargs) == 3 and fargs[0] == T("re.escape", L) and _const(fargs[1]) == r"\*":
                first_kinds.add("partial")
                rep = _const(fargs[2])
                ok, why = (False, "replacement is not a constant") if not isinstance(rep, str) else _dotless_repeat(rep, 0)
                ctx.ob(R1, dm.qual, f"partial wildcard: `*` inside the escaped left-most label -> {fargs[2]}", ok, why, witness=wit, node=dm.node)
                ctx.ob(R1, dm.qual, "the partial-wildcard expansion is reached only when the label is not a bare `*`", star is False,
                       "" if star is False else "a bare `*` label falls into the partial-wildcard expansion, whose class may match nothing: `*.a.b` accepts the host `.a.b`", witness=wit, node=dm.node)
                both_no = o.st.facts.get(T("startswith", L, K("xn--")), (None, None))[0] is False and o.st.facts.get(T("startswith", phost, K("xn--")), (None, None))[0] is False
                ctx.ob(R3, dm.qual, "wildcard expansion only when neither the label nor the hostname starts with xn--", both_no,
                       "" if both_no else "a wildcard embedded in an A-label (or matched against an IDN hostname) would be expanded: both xn-- tests must have been made and failed", witness=wit, node=dm.node)
            else:
                if is_opaque(first):
                    raise AnalysisError(f"C08-R1: left-most fragment built in a way the rule cannot read: {first}")
                ctx.ob(R1, dm.qual, f"left-most fragment {first}", False, "neither a bare-`*` class, an escaped literal nor an escaped label with `*` expanded", witness=wit, node=dm.node)
        else:
            c = _const(rt)
            if wild is False and c in (True, False):
                n_eq += 1
                eq = None
                for k, v in o.st.ts.items():
                    if isinstance(k, tuple) and k[0] == "cmp" and k[2] == "==":
                        a, b = k[1], k[3]
                        for fn in ("lower", "casefold"):
                            if {a, b} == {T(fn, pdn), T(fn, phost)}:
                                eq = v
                ok = eq is not None and c == eq
                ctx.ob(R1, dm.qual, f"without wildcard: exact case-insensitive equality -> {c}", ok,
                       "" if ok else "the no-wildcard verdict is not `dn.lower() == hostname.lower()`", witness=wit, node=dm.node)
            elif c is False and o.st.facts.get(pdn, (None, None))[0] is False:
                pass  # empty dn never matches
            else:
                if is_opaque(rt):
                    raise AnalysisError(f"C08-R1: _dnsname_match returns a value the rule cannot read: {rt}")
                ctx.ob(R1, dm.qual, f"verdict {rt}", False, "a path returns a verdict that is neither the anchored pattern match nor the exact comparison", witness=wit, node=dm.node)
    ctx.sites(R1, n_regex, 3, "rows of _dnsname_match that apply a pattern")
    ctx.sites(R1, n_eq, 2, "rows of the no-wildcard comparison")
    ctx.sites(R2, n_budget, 1, "rows raising CertificateError")
    for fk, what in (("whole", "a bare `*` label has its own fragment"), ("partial", "a partial wildcard is expanded"), ("literal", "the IDN rule escapes the label")):
        ctx.ob(R1 if fk != "literal" else R3, dm.qual, what, fk in first_kinds, "" if fk in first_kinds else "no row of _dnsname_match builds this fragment", node=dm.node)
    lost = sorted(without_rest - with_rest)
    ctx.ob(R1, dm.qual, "the remaining labels are always appended", not lost, f"for left-most fragment(s) {lost} no row adds the other labels", node=dm.node)
    # wildcards counted in the left-most label, split on '.'
    any_cnt = any(any(isinstance(k, str) and k.startswith(("count(idx(split(", "count(idx(partition(")) for k in o.st.facts) for o in rows)
    ctx.ob(R2, dm.qual, "wildcards are counted in the left-most label of dn split on '.'", any_cnt, node=dm.node)
