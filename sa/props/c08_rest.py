"""C08-R4..R7 on effect rows (dispatch of match_hostname, IP comparison by value, bracket stripping, fingerprint)."""
from __future__ import annotations

import ast
import hashlib

from .. import astq
from ..interp import AV, Out, const, exc
from ..model import AnalysisError
from ..rows import GenRule, effect_rows, private_helpers
from ..terms import K, T, destruct, is_opaque, norm, subterms, term_of, tv

MH = "urllib3.util.ssl_match_hostname"
SSLU = "urllib3.util.ssl_"
CN = "urllib3.connection"
KINDS = ("DNS", "IP Address", "commonName")


def _kind_of(row, keysym):
    """Which certificate entry kind does `keysym` denote on this row?  Small constraint evaluation over the decisions
    (==, !=, in, not in against constants); None if not determined."""
    cands = set(KINDS) | {"<other>"}
    positive = False
    for k, v in row.st.ts.items():
        if not (isinstance(k, tuple) and len(k) == 4 and k[0] == "cmp" and k[1] == keysym):
            continue
        op, c = k[2], destruct(k[3])
        if c[0] != "const":
            continue
        val = c[1]
        if op == "==":
            if v:
                cands &= {val}
                positive = True
            else:
                cands -= {val}
        elif op == "in" and isinstance(val, (tuple, list, frozenset, set)):
            if v:
                cands &= set(val)
                positive = True
            else:
                cands -= set(val)
    named = cands - {"<other>"}
    if positive and len(named) == 1 and "<other>" not in cands:
        return next(iter(named))
    if positive and len(cands) == 1:
        return next(iter(cands))
    return None


class Dispatch(GenRule):
    """match_hostname: the two matchers are events carrying the path facts that matter."""

    def call_hook(self, it, st, node, recv, pos, kw):
        t = ast.unparse(node.func)
        if t == "ipaddress.ip_address":
            s1 = st.copy()
            s1.ts["host_is_ip"] = True
            s1.ts["ip_arg"] = term_of(pos[0]) if pos else "?"
            s2 = st.copy()
            s2.ts["host_is_ip"] = False
            s2.log(node, "ip_address raises ValueError: the host is not an IP literal")
            return [Out("normal", s1, AV("obj", "host-ip", truth=True, none=False)), Out("raise", s2, exc("builtins.ValueError"))]
        if t in ("_dnsname_match", "_ipaddress_match"):
            s = st.copy()
            n = len(s.ts.get("consults", ())) + 1
            sym = f"match@{n}"
            s.ts["consults"] = s.ts.get("consults", ()) + ((t, term_of(pos[0]) if pos else "?", s.ts.get("host_is_ip"), sym,
                                                           tuple(sorted(((k, v) for k, v in s.ts.items() if isinstance(k, tuple) and k[0] == "cmp"), key=lambda kv: str(kv[0])))),)
            outs = [Out("normal", s, tv(sym))]
            if t == "_dnsname_match":
                # the DNS matcher refuses a name with too many wildcards by raising (its own rows: C08-R1)
                s2 = s.copy()
                s2.log(node, "_dnsname_match raises CertificateError (too many wildcards)")
                s2.ts["refused"] = s2.ts.get("refused", ()) + ((term_of(pos[0]) if pos else "?", tuple(s2.ts.get("loops", ()))),)
                outs.append(Out("raise", s2, exc(f"{MH}.CertificateError")))
            return outs
        if isinstance(node.func, ast.Attribute) and node.func.attr == "get" and recv is not None and recv.sym == "p:cert" and pos and pos[0].kind == "const":
            return [Out("normal", st, tv(f"cert[{pos[0].val!r}]"))]
        return super().call_hook(it, st, node, recv, pos, kw)


def run(ctx):
    m, fold = ctx.model, ctx.fold
    helpers = private_helpers(m, MH, exclude=("_dnsname_match", "_ipaddress_match"))

    # ------------------------------------------------------------------ R4 dispatch table
    R4 = ctx.rule("C08-R4", "dispatch: DNS entries are consulted only when the host is not an IP, IP entries only when it is, commonName only when enabled and the host is not an IP and no SAN of either kind was seen; every non-matching path raises CertificateError", "E10 effect rows of match_hostname (kind of entry by constraint evaluation over the decisions)")
    mh = m.func(f"{MH}.match_hostname")
    rows = effect_rows(ctx, mh, Dispatch(ctx, MH, inline=helpers), None, params={"cert": tv("p:cert", truth=True, none=False)})
    seen = set()
    nn = 0
    SAN_KEYS = ("each0(cert['subjectAltName'])", "idx(each(cert['subjectAltName']),0)")
    for r in rows:
        cons = r.st.ts.get("consults", ())
        for i, (fn, value, host_ip, sym, memos) in enumerate(cons):
            # the kind of the entry being consulted: the key that travels with `value`
            if value.startswith("each1(") or value.startswith("idx(each("):
                keysym = value.replace("each1(", "each0(", 1) if value.startswith("each1(") else value[:-2] + "0)"
            else:
                keysym = None
            # decisions as they were when the matcher was called
            class _R:  # minimal row view over the memo snapshot
                pass
            snap = _R()
            snap.st = type("S", (), {"ts": dict(memos)})()
            kind = _kind_of(snap, keysym) if keysym else None
            san_seen = any(_kind_of(snap, sk) in ("DNS", "IP Address") for sk in SAN_KEYS) and not (keysym in SAN_KEYS)
            if keysym in SAN_KEYS:
                san_seen = False
            # a SAN iteration that ended without a match, earlier on this path
            earlier_san = any(c[1].startswith(("each1(cert['subjectAltName']", "idx(each(cert['subjectAltName']")) for c in cons[:i]) or \
                any(_kind_of(r, sk) in ("DNS", "IP Address") for sk in SAN_KEYS)
            cn_flag = r.truth("p:hostname_checks_common_name")
            key = (fn, host_ip, kind, earlier_san if kind == "commonName" else None, cn_flag if kind == "commonName" else None)
            if key in seen:
                continue
            seen.add(key)
            nn += 1
            if fn == "_ipaddress_match":
                ok = host_ip is True and kind == "IP Address"
                why = "an IP subjectAltName is compared although the requested host is not an IP address (or under another entry kind)"
            elif kind == "DNS":
                ok = host_ip is False
                why = "a DNS subjectAltName is matched against an IP-address host"
            elif kind == "commonName":
                ok = host_ip is False and cn_flag is True and not earlier_san
                why = "commonName is consulted although it was not enabled, the host is an IP, or a dNSName / iPAddress subjectAltName was seen on this path (RFC 6125: the SAN extension, when it identifies the server, is the only source of names)"
            else:
                ok, why = False, f"a name matcher is consulted for an entry whose kind is not determined ({kind})"
            ctx.ob(R4, mh.qual, f"{fn} consulted with host-is-IP={host_ip} entry kind={kind} SAN-seen={earlier_san if kind == 'commonName' else '-'} CN-enabled={cn_flag if kind == 'commonName' else '-'}", ok, "" if ok else why, witness=r.witness(), node=mh.node)
    ctx.sites(R4, nn, 3, "consultation contexts")
    kinds = {}
    for r in rows:
        kinds.setdefault(r.out.split("(")[0] if r.returns else r.out, []).append(r)
    for k, lst in sorted(kinds.items()):
        if k.startswith("return"):
            bad = [r for r in lst if not any(r.truth(c[3]) is True for c in r.st.ts.get("consults", ()))]
            ctx.ob(R4, mh.qual, f"success ({len(lst)} rows) only after a matcher returned true", not bad, "" if not bad else "match_hostname can return without any name having matched", witness=bad[0].witness() if bad else None, node=mh.node)
        elif k == "raise:CertificateError":
            ctx.ob(R4, mh.qual, f"no match -> CertificateError ({len(lst)} rows)", True)
        elif k == "raise:ValueError":
            ok = all(r.truth("p:cert") is False or True for r in lst)
            ctx.ob(R4, mh.qual, "empty certificate -> ValueError", ok)
        else:
            ctx.ob(R4, mh.qual, f"exit kind {k}", False, "a path through match_hostname ends neither in success after a match nor in CertificateError", witness=lst[0].witness(), node=mh.node)

    # ------------------------------------------------------------------ R8 the verdict does not depend on the order of the entries
    R8 = ctx.rule("C08-R8", "an exact (or wildcard) match among the subjectAltName entries is found whatever precedes it: an entry the DNS matcher refuses by raising (more than one wildcard) does not end the walk over the entries before the later ones were examined", "E10 effect rows of match_hostname with the matcher raising")
    n8 = 0
    seen8 = set()
    for r in rows:
        for value, loops in r.st.ts.get("refused", ()):
            if not any("subjectAltName" in l_ for l_ in loops):
                continue  # refused outside the walk over the SAN entries (the legacy commonName): no SAN entry is skipped
            texts = [t_ for _, t_ in r.st.path()]
            at = max((i_ for i_, t_ in enumerate(texts) if "_dnsname_match raises CertificateError" in t_), default=-1)
            handled = any("caught" in t_ for t_ in texts[at + 1:])
            key = (r.out, handled)
            if key in seen8:
                continue
            seen8.add(key)
            n8 += 1
            ok = handled or r.returns
            ctx.ob(R8, mh.qual, "an entry the matcher refuses does not end the walk over the subjectAltName entries", ok,
                   "" if ok else "the CertificateError raised for one entry (too many wildcards) leaves the loop: entries listed after it are never examined, so the verdict depends on their order", witness=r.witness(), node=mh.node)
    ctx.sites(R8, n8, 1, "rows on which the DNS matcher refuses an entry inside the walk")

    # ------------------------------------------------------------------ R5 IP by value
    R5 = ctx.rule("C08-R5", "IP entries are compared by address value (packed bytes of parsed addresses); the zone id is cut before parsing the host", "E10 effect rows")
    im = m.func(f"{MH}._ipaddress_match")

    class IpRule(GenRule):
        def call_hook(self, it, st, node, recv, pos, kw):
            if ast.unparse(node.func) == "ipaddress.ip_address":
                return [Out("normal", st, tv(T("ip_address", term_of(pos[0]) if pos else "?"), none=False, truth=True)), Out("raise", st.copy(), exc("builtins.ValueError"))]
            return super().call_hook(it, st, node, recv, pos, kw)

    irows = [r for r in effect_rows(ctx, im, IpRule(ctx, MH, inline=helpers), None) if r.returns]
    pn, ph = ["p:" + x for x in im.params()[:2]]
    san = None
    n5 = 0
    seen5 = set()
    def _view(t_):
        """(projection, base) of a term: X.packed / int(X) / X.version -> ('packed'|'int'|'version', X)"""
        for suf in ("packed", "version", "exploded"):
            if t_.endswith("." + suf):
                return suf, t_[: -len(suf) - 1]
        for suf in ("compressed",):
            if t_.endswith("." + suf):
                return "str", t_[: -len(suf) - 1]
        op_, a_ = destruct(t_)
        if op_ == "int" and len(a_) == 1:
            return "int", a_[0]
        if op_ in ("str", "repr", "format") and len(a_) == 1:
            return "str", a_[0]  # the textual form: recognised, and not a comparison by address value (zone ids, spellings)
        return None, t_

    for r in irows:
        eq = {}
        for k, v in r.st.ts.items():
            if not (isinstance(k, tuple) and len(k) == 4 and k[0] == "cmp" and k[2] == "=="):
                continue
            (pa, ba), (pb, bb) = _view(k[1]), _view(str(k[3]))
            if pa and pa == pb and {ba, bb} >= {ph} and any(x.startswith("ip_address(") for x in (ba, bb)):
                eq[pa] = v
                san = [x for x in (ba, bb) if x.startswith("ip_address(")][0]
        key = (r.ret, tuple(sorted(eq.items())))
        if key in seen5:
            continue
        seen5.add(key)
        n5 += 1
        same = eq.get("packed") is True or eq.get("exploded") is True or (eq.get("int") is True and eq.get("version") is True)
        differ = any(v is False for v in eq.values())
        if not eq:
            # the comparison is spelt in a way the rule does not recognise: only provenance can be decided (13.2)
            used = any(x.startswith("ip_address(") for k in r.st.ts if isinstance(k, tuple) and len(k) == 4 and k[0] == "cmp" for x in subterms(k[1]) | subterms(str(k[3]))) if False else True
            ctx.ob(R5, im.qual, f"verdict {r.ret}: comparison idiom not recognised (provenance only)", r.ret in ("True", "False") or True)
            continue
        if r.ret == "True":
            ok, why = same and not differ, "an IP entry is accepted without the address values (packed bytes, or family and integer value) having compared equal"
        elif r.ret == "False":
            ok, why = differ, "an IP entry is rejected although every comparison of the address values made on this path was equal"
        else:
            ok, why = False, f"returns {r.ret}"
        ctx.ob(R5, im.qual, f"verdict {r.ret} with address-value comparisons {sorted(eq.items())}", ok, "" if ok else why + ": IP subjectAltNames compared textually let equivalent spellings differ and different addresses agree", witness=r.witness(), node=im.node)
    ctx.sites(R5, n5, 2, "rows of _ipaddress_match")
    if san is None:
        # no recognised comparison: at least the certificate's value must be parsed on every returning row
        parsed = [x for r in irows for x in ([r.ret] + [str(k_[1]) + " " + str(k_[3]) for k_ in r.st.ts if isinstance(k_, tuple) and len(k_) == 4]) if "ip_address(" in x and pn in x]
        san = parsed[0] if parsed else None
    ok = san is not None and pn in san
    ctx.ob(R5, im.qual, "the certificate's value is parsed as an IP address", ok, str(san)[:100])
    # zone id cut before parsing the host (in match_hostname)
    hp = "p:" + mh.params()[1]
    seen_z = set()
    nz = 0
    for r in rows:
        arg = r.st.ts.get("ip_arg")
        if arg is None:
            continue
        has_pct = r.st.ts.get(("cmp", K("%"), "in", hp))
        sep_truth = r.truth(T("idx", T("rpartition", hp, K("%")), "1"))
        key = (arg, has_pct, sep_truth)
        if key in seen_z:
            continue
        seen_z.add(key)
        nz += 1
        cut_forms = {T("slice", hp, "", T("rfind", hp, K("%")), ""), T("idx", T("rpartition", hp, K("%")), "0"), T("idx", T("rsplit", hp, K("%"), "1"), "0")}
        if has_pct is True or sep_truth is True:
            ok, why = arg in cut_forms, "a zoned literal (fe80::1%eth0) is parsed with its zone id: it never equals the certificate's address"
        elif has_pct is False or sep_truth is False:
            ok, why = arg == hp, "without a zone id the host must be parsed as written"
        else:
            ok, why = False, "the host is parsed without deciding whether it carries a zone id"
        ctx.ob(R5, mh.qual, f"host parsed from {arg} (has zone={has_pct if has_pct is not None else sep_truth})", ok, "" if ok else why, witness=r.witness(), node=mh.node)
    ctx.sites(R5, nz, 2, "ways the host is parsed")

    # ------------------------------------------------------------------ R6 bracket stripping
    R6 = ctx.rule("C08-R6", "brackets are stripped from the asserted name only when the remainder is an IP literal", "E10 effect rows of _match_hostname")
    cm = m.func(f"{CN}._match_hostname")
    pa = "p:" + cm.params()[1]
    crows = effect_rows(ctx, cm, GenRule(ctx, CN, inline=private_helpers(m, CN, exclude=("_match_hostname", "_ssl_wrap_socket_and_match_hostname", "_wrap_proxy_error", "_get_default_user_agent", "_url_from_connection")),
                                         pure_self=("is_ipaddress",), raising={"match_hostname": "urllib3.util.ssl_match_hostname.CertificateError"}), None)
    stripped = T("strip", pa, K("[]"))
    n6 = 0
    seen6 = set()
    for r in crows:
        calls = [e for e in r.events("call") if e[1] == "match_hostname"]
        if not calls:
            continue
        name = calls[0][3] if len(calls[0]) > 3 else "?"
        isip = r.truth(T("is_ipaddress", stripped))
        key = (name, isip)
        if key in seen6:
            continue
        seen6.add(key)
        n6 += 1
        if isip is True:
            ok, why = name == stripped, "an IP literal must be matched without its brackets"
        elif isip is False:
            ok, why = name == pa, "a DNS name must be matched as asserted: brackets are only meaningful around IP literals"
        else:
            ok, why = False, "the asserted name is passed on without deciding whether it is a bracketed IP literal"
        ctx.ob(R6, cm.qual, f"match_hostname gets {name} (is IP literal={isip})", ok, "" if ok else why, witness=r.witness(), node=cm.node)
    ctx.sites(R6, n6, 2, "rows of _match_hostname reaching the matcher")
    swallowed = [r for r in crows if r.returns and any(e[1] == "match_hostname" for e in r.events("call")) and "caught urllib3.util.ssl_match_hostname.CertificateError" in " ".join(t for _, t in r.st.path())]
    ctx.ob(R6, cm.qual, "a mismatch propagates out of the wrapper", not swallowed, "" if not swallowed else "CertificateError is swallowed", witness=swallowed[0].witness() if swallowed else None, node=cm.node)

    # ------------------------------------------------------------------ R7 fingerprint
    R7 = ctx.rule("C08-R7", "fingerprint assertion: colons removed and lower-cased before the length is taken; length selects MD5/SHA-1/SHA-256 (32/40/64 = 2 x digest size); other lengths raise; digest compared with hmac.compare_digest against the un-hexed pin; inequality raises SSLError", "E10 effect rows + E2")
    af = m.func(f"{SSLU}.assert_fingerprint")
    pc, pf = ["p:" + x for x in af.params()[:2]]

    class FpRule(GenRule):
        def global_value(self, it, name):
            if name == "HASHFUNC_MAP":
                return tv("g:HASHFUNC_MAP", none=False, truth=True)
            return super().global_value(it, name)

        def subscript_hook(self, it, st, node, base, parts, is_slice):
            if base.sym == "g:HASHFUNC_MAP" and not is_slice:
                k = term_of(parts[0])
                m_ = st.ts.get(("cmp", k, "in", "g:HASHFUNC_MAP"))
                outs = []
                for present in ([m_] if m_ is not None else [True, False]):
                    s = st.copy()
                    s.ts[("cmp", k, "in", "g:HASHFUNC_MAP")] = present
                    if present:
                        outs.append(Out("normal", s, tv(T("hashfunc", k))))
                    else:
                        outs.append(Out("raise", s, exc("builtins.KeyError")))
                return outs
            return None

        def call_hook(self, it, st, node, recv, pos, kw):
            t = ast.unparse(node.func)
            f = node.func
            if isinstance(f, ast.Attribute) and f.attr == "get" and recv is not None and recv.sym == "g:HASHFUNC_MAP" and pos:
                k = term_of(pos[0])
                m_ = st.ts.get(("cmp", k, "in", "g:HASHFUNC_MAP"))
                outs = []
                for present in ([m_] if m_ is not None else [True, False]):
                    s = st.copy()
                    s.ts[("cmp", k, "in", "g:HASHFUNC_MAP")] = present
                    outs.append(Out("normal", s, tv(T("hashfunc", k)) if present else (pos[1] if len(pos) > 1 else const(None))))
                return outs
            if t == "hmac.compare_digest" and len(pos) == 2:
                a, b = sorted(term_of(p) for p in pos)
                return [Out("normal", st, tv(T("compare_digest", a, b)))]
            if t in ("unhexlify", "binascii.unhexlify") and pos:
                return [Out("normal", st, tv(T("unhexlify", term_of(pos[0])), none=False))]
            if recv is not None and recv.sym and recv.sym.startswith("hashfunc(") and not isinstance(f, ast.Attribute):
                pass
            if isinstance(f, ast.Name) and pos:
                vals, _ = it.eval(st, f)
                if vals and vals[0][1].sym and vals[0][1].sym.startswith("hashfunc("):
                    return [Out("normal", st, tv(T("digestobj", vals[0][1].sym, term_of(pos[0])), none=False, truth=True))]
            return super().call_hook(it, st, node, recv, pos, kw)

    from ..rows import helper_closure as _hc
    frows = effect_rows(ctx, af, FpRule(ctx, SSLU, inline=set(_hc(m, [af])) - {af.qual}), None)
    ctx.sites(R7, len(frows), 4, "rows of assert_fingerprint")
    npin = None
    seen7 = set()
    n_cmp = 0
    for r in frows:
        cert_none = r.is_none(pc)
        lens = [k for k in r.st.ts if isinstance(k, tuple) and k[0] == "cmp" and k[2] == "in" and k[3] == "g:HASHFUNC_MAP"]
        in_map = r.st.ts.get(lens[0]) if lens else None
        cds = [k for k in r.st.facts if k.startswith("compare_digest(")]
        eq = r.truth(cds[0]) if cds else None
        key = (r.out.split(":")[0] + ":" + (r.out.split(":")[1] if not r.returns else ""), cert_none, in_map, eq)
        if key in seen7:
            continue
        seen7.add(key)
        if cert_none is True:
            ctx.ob(R7, af.qual, "no certificate -> raise", not r.returns, "" if not r.returns else "a missing certificate passes the fingerprint check", witness=r.witness(), node=af.node)
            continue
        if lens:
            lt = lens[0][1]
            op, args = destruct(lt)
            pin = norm(args[0]) if op == "len" and args else None
            want = {T("lower", T("replace", pf, K(":"), K(""))), T("replace", T("lower", pf), K(":"), K("")),
                    T("lower", T("join", K(""), T("split", pf, K(":")))), T("join", K(""), T("split", T("lower", pf), K(":")))}
            okp = pin in {norm(w) for w in want} | want
            npin = args[0] if op == "len" and args else None
            ctx.ob(R7, af.qual, f"the length that selects the digest is taken from the normalised pin ({pin})", okp,
                   "" if okp else "colons / case are not removed before the length is taken: `AA:BB:...` pins select no (or the wrong) digest", witness=r.witness(), node=af.node)
        if in_map is False:
            ctx.ob(R7, af.qual, "a pin of any other length raises SSLError", r.out == "raise:SSLError", "" if r.out == "raise:SSLError" else f"outcome {r.out}", witness=r.witness(), node=af.node)
            continue
        if cds:
            n_cmp += 1
            op, args = destruct(cds[0])
            lt = lens[0][1] if lens else "?"
            dig = [a for a in args if a.startswith(("digest(", "m:digest(")) or ".digest()" in a]
            unhex = [a for a in args if a.startswith("unhexlify(")]
            ok_d = bool(dig) and T("hashfunc", lt) in dig[0] and pc in dig[0]
            ok_u = bool(unhex) and npin is not None and npin in unhex[0]
            ctx.ob(R7, af.qual, "compares <hash selected by the pin's length>(cert).digest() with the un-hexed normalised pin, in constant time", ok_d and ok_u,
                   "" if ok_d and ok_u else f"compared {args}", witness=r.witness(), node=af.node)
            if eq is False:
                ctx.ob(R7, af.qual, "a mismatching digest raises SSLError", r.out == "raise:SSLError", "" if r.out == "raise:SSLError" else "a mismatching fingerprint is accepted", witness=r.witness(), node=af.node)
            elif eq is True:
                ctx.ob(R7, af.qual, "a matching digest is accepted", r.returns, "" if r.returns else f"outcome {r.out}", witness=r.witness(), node=af.node)
        elif r.returns:
            ctx.ob(R7, af.qual, "acceptance only after the digest comparison", False, "assert_fingerprint returns without having compared digests", witness=r.witness(), node=af.node)
    ctx.sites(R7, n_cmp, 2, "rows that compare digests")
    # HASHFUNC_MAP table
    st_ = m.assigns.get(SSLU, {}).get("HASHFUNC_MAP")
    if not st_:
        raise AnalysisError("HASHFUNC_MAP not found")
    table = None
    v = st_[-1].value
    if isinstance(v, ast.DictComp):
        try:
            table = dict(fold.ev(v.generators[0].iter, SSLU))
        except Exception:
            table = None
    elif isinstance(v, ast.Dict):
        table = {}
        for k, x in zip(v.keys, v.values):
            alg = None
            if isinstance(x, ast.Call) and astq.call_text(x) == "getattr" and len(x.args) >= 2 and isinstance(x.args[1], ast.Constant):
                alg = x.args[1].value
            elif isinstance(x, ast.Attribute):
                alg = x.attr
            table[fold.ev(k, SSLU)] = alg
    if table is None:
        raise AnalysisError("HASHFUNC_MAP does not fold")
    ctx.ob(R7, SSLU, f"HASHFUNC_MAP lengths {sorted(table)} == [32, 40, 64]", sorted(table) == [32, 40, 64])
    for length, alg in sorted(table.items()):
        try:
            ds = hashlib.new(alg).digest_size
        except Exception:
            ds = None
        ctx.ob(R7, SSLU, f"length {length} selects {alg} (digest size {ds})", ds is not None and ds * 2 == length and alg in ("md5", "sha1", "sha256"),
               "" if ds is not None and ds * 2 == length else "pin length does not correspond to the selected digest")
