"""C09 - proxied traffic follows the documented routing and never leaks outside it."""
from __future__ import annotations

import ast
import itertools

from .. import astq
from ..events import evs, outcome_name, run_function
from ..interp import AV, UNK, BaseRule, Out, const
from ..model import AnalysisError
from . import resend

CP = "urllib3.connectionpool"
PM = "urllib3.poolmanager"
CN = "urllib3.connection"
PX = "urllib3.util.proxy"


def run(ctx):
    m, fold = ctx.model, ctx.fold
    ctx.assume("A1", "A4", "A5")
    ctx.decline("what the proxy and the origin actually received (bytes on the wire); decided instead: which routing the code selects, where proxy headers may flow, and the order of tunnel / TLS / request")

    # ------------------------------------------------------------------ R1 truth table
    R1 = ctx.rule("C09-R1", "tunnel <=> proxy and destination scheme != http and not (https proxy and config and forwarding opted in) - complete decision table of connection_requires_http_tunnel", "E5")
    tf = m.func(f"{PX}.connection_requires_http_tunnel")

    from ..rows import GenRule, check_decision_table, effect_rows, helper_closure
    from ..terms import K, T, destruct, subterms

    rows1 = effect_rows(ctx, tf, GenRule(ctx, tf.module))

    def env1(r):
        def present(sym):
            n_, t_ = r.is_none(sym), r.truth(sym)
            return (not n_) if n_ is not None else t_
        return {"proxy": present("p:proxy_url"), "http": r.cmp("p:destination_scheme", "==", K("http")), "pxhttps": r.cmp("p:proxy_url.scheme", "==", K("https")),
                "config": present("p:proxy_config"), "fwd": r.truth("p:proxy_config.use_forwarding_for_https")}

    n1 = check_decision_table(ctx, R1, tf, rows1, env1, lambda e: e["proxy"] and not e["http"] and not (e["pxhttps"] and e["config"] and e["fwd"]),
                              "tunnel predicate", "the documented routing is: tunnel <=> proxy, non-http destination, and not (https proxy with forwarding opted in)")
    ctx.sites(R1, n1, 4, "rows of the tunnel predicate")
    for r in rows1:
        if not r.returns:
            ctx.ob(R1, tf.qual, f"the predicate never raises ({r.out})", False, witness=r.witness(), node=tf.node)
    pc = m.cls("urllib3._base_connection.ProxyConfig")
    fields = [n.target.id for n in pc.node.body if isinstance(n, ast.AnnAssign)]
    ctx.ob(R1, pc.qual, "ProxyConfig carries use_forwarding_for_https", "use_forwarding_for_https" in fields)
    pmi = m.func(f"{PM}.ProxyManager.__init__")
    d = pmi.defaults().get("use_forwarding_for_https")
    ctx.ob(R1, pmi.qual, "forwarding for https is opt-in (default False)", isinstance(d, ast.Constant) and d.value is False)

    # ------------------------------------------------------------------ R2 one predicate, three sites
    R2 = ctx.rule("C09-R2", "one predicate, three sites: PoolManager._proxy_requires_url_absolute_form, ProxyManager.urlopen and HTTPConnectionPool.urlopen each evaluate it with the configured proxy, its config and the scheme parsed from this request's URL", "E6")
    from . import c09_rows
    c09_rows.r2_sites(ctx, R2)

    # ------------------------------------------------------------------ R3 proxy headers never enter a tunnel
    R3 = ctx.rule("C09-R3", "proxy headers (e.g. Proxy-Authorization) reach request headers only when no tunnel is used, and otherwise only set_tunnel(headers=...)", "E6 taint via E4")
    prule, pfi, pouts = resend.analyse(ctx, "pool")
    merges = [s for s in prule.sites if s.kind == "merge" and "self.proxy_headers" in s.args["what"].tags]
    ctx.sites(R3, len(merges), 1, "paths merging proxy headers into request headers")
    bad = [s for s in merges if s.st.facts.get("tunnel_required", (None, None))[0] is not False]
    ctx.ob(R3, pfi.qual, f"proxy headers merged only with tunnel-required false ({len(merges)} paths)", not bad,
           "" if not bad else "proxy credentials are added to a request that travels inside the tunnel to the origin", witness=bad[0].st.witness() if bad else None, node=pfi.node)
    for which_, (r_, f_, o_) in (("pool", (prule, pfi, pouts)), ("manager", resend.analyse(ctx, "manager"))):
        muts = [s for s in r_.sites if s.kind == "mutate-uncopied"]
        ctx.ob(R3, f_.qual, "the caller's header mapping is never modified in place (proxy headers are merged into a private copy)", not muts,
               "" if not muts else f"`{astq.text(muts[0].node)[:60]}` edits the mapping the caller (PoolManager's redirect loop, or the application) keeps using: proxy headers merged for a forwarded hop travel on into a later tunnelled hop",
               witness=muts[0].st.witness() if muts else None, node=muts[0].node if muts else f_.node)
    uncopied = [s for s in merges if "copy" not in s.args["into"].tags]
    ctx.ob(R3, pfi.qual, "every merge of proxy headers goes into a fresh copy", not uncopied, witness=uncopied[0].st.witness() if uncopied else None, node=pfi.node)
    # the request step on tunnel paths carries headers without proxy headers
    reqs = [s for s in prule.sites if s.kind == "request"]
    leak = None
    for s in reqs:
        if s.st.facts.get("tunnel_required", (None, None))[0] is True:
            h = s.args.get("headers")
            if h is not None and ("self.proxy_headers" in h.tags):
                leak = s
    ctx.ob(R3, pfi.qual, "on tunnel paths the request headers do not derive from proxy headers", leak is None, witness=leak.st.witness() if leak else None, node=pfi.node)
    c09_rows.r3_flows(ctx, R3)

    # ------------------------------------------------------------------ R4 tunnel precedes request
    R4 = ctx.rule("C09-R4", "when a tunnel is required and the connection is closed (new, or a pooled one that was closed) _prepare_proxy runs before the request; _prepare_proxy sets the tunnel then connects; close() clears the tunnel state", "E4")
    viol = None
    n_t = 0
    for s in reqs:
        tun = s.st.facts.get("tunnel_required", (None, None))[0]
        px = s.st.facts.get("self.proxy", (None, None))[1]
        closed = s.st.facts.get("field:conn.is_closed", (None, None))[0]
        if tun is True and px is False and closed is True:
            n_t += 1
            if not s.st.ts.get("prepared_proxy"):
                viol = s
    ctx.sites(R4, n_t, 1, "request paths with tunnel required on a closed connection")
    ctx.ob(R4, pfi.qual, "closed connection + tunnel required => _prepare_proxy before the request", viol is None,
           "" if viol is None else "an HTTPS request is sent to the proxy without CONNECT (in clear, to the wrong peer)", witness=viol.st.witness() if viol else None, node=pfi.node)
    # the closed-ness test is made on every tunnel path (a re-used connection that was closed must be re-tunnelled)
    untested = [s for s in reqs if s.st.facts.get("tunnel_required", (None, None))[0] is True and s.st.facts.get("self.proxy", (None, None))[1] is False
                and s.st.facts.get("field:conn.is_closed", (None, None))[0] is None]
    ctx.ob(R4, pfi.qual, "is_closed is consulted on every tunnel path", not untested,
           "" if not untested else "re-tunnelling does not depend on the connection being closed: a closed pooled connection is reused without CONNECT", witness=untested[0].st.witness() if untested else None, node=pfi.node)
    c09_rows.r4_tunnel_setup(ctx, R4)

    # ------------------------------------------------------------------ R5 order inside HTTPSConnection.connect
    R5 = ctx.rule("C09-R5", "inside HTTPSConnection.connect, tunnelling arm: TLS to the proxy (https tunnel scheme) before _tunnel() before the origin TLS wrap; proxy TLS uses the proxy's host and proxy_config assertions; tls_in_tls exactly on the https arm", "E4")
    from .c07 import run as _unused  # noqa: F401  (ConnectRule lives in c07.run's scope; re-interpret here)

    hc = f"{CN}.HTTPSConnection"
    cf = m.method(hc, "connect")

    ORIGIN_SETTINGS = ("assert_hostname", "assert_fingerprint", "cert_reqs", "ca_certs", "ca_cert_dir", "ca_cert_data", "ssl_context")

    class CR(BaseRule):
        def __init__(self):
            self.wraps = []
            self.wrap_kw = []

        def getattr(self, it, st, node, base):
            t = ast.unparse(node)
            if t == "self._connect_callback":
                return const(None)
            if base.kind == "self" and node.attr in ORIGIN_SETTINGS and ("self", node.attr) not in st.heap:
                return AV("unk", sym=f"self.{node.attr}", tags=frozenset({f"self.{node.attr}"}))
            return None

        def call(self, it, st, node, recv, pos, kw):
            t = ast.unparse(node.func)
            if t == "_ssl_wrap_socket_and_match_hostname":
                s = st.copy()
                s.ts["ev"] = s.ts.get("ev", ()) + ("origin-wrap",)
                tit = kw.get("tls_in_tls")
                self.wraps.append((tit, s))
                self.wrap_kw.append((dict(kw), s))
                return [Out("normal", s, AV("obj", "wrapped", truth=True, none=False))]
            if t == "self._connect_tls_proxy":
                s = st.copy()
                s.ts["ev"] = s.ts.get("ev", ()) + ("proxy-tls",)
                b_ = it.bind_args(node, recv, pos, kw)
                a0 = b_.get("hostname") if b_ else (pos[0] if pos else kw.get("hostname"))
                s.ts["proxy_tls_host_arg"] = (a0.sym if a0 is not None and a0.sym else (ast.unparse(node.args[0]) if node.args else "?"))
                return [Out("normal", s, AV("unk", truth=True, none=False))]
            if t == "self._tunnel":
                s = st.copy()
                s.ts["ev"] = s.ts.get("ev", ()) + ("tunnel",)
                return [Out("normal", s, const(None))]
            if t.endswith("acquire_and_get"):
                return [Out("normal", st, AV("unk", sym="probe"))]
            if it.resolve_callee(node, recv) in it.inline:
                return None  # a private helper of the connection (an extracted transport / wrap step): interpreted in place
            return [Out("normal", st, UNK)]

    cr = CR()
    from ..rows import helper_closure as _hc5
    inl5 = frozenset(q_ for q_ in _hc5(m, [cf], stop=("_connect_tls_proxy", "_tunnel", "_new_conn")) - {cf.qual}
                     if q_.rsplit(".", 1)[-1] not in ("_ssl_wrap_socket_and_match_hostname", "_connect_tls_proxy", "_tunnel", "_new_conn", "_match_hostname", "_assert_fingerprint"))
    outs, it = run_function(m, cf, cr, hc, inline=inl5, seeds={("self", "_tunnel_scheme"): AV("unk", sym="tunnel_scheme"), ("self", "proxy_is_tunneling"): AV("unk", sym="tunneling")}, record_decisions=True)
    ctx.sites(R5, len(cr.wraps), 2, "paths reaching the origin wrap")
    seen = set()
    for tit, s in cr.wraps:
        seq = s.ts.get("ev", ())
        tun = s.facts.get("tunneling", (None, None))[0]
        https = s.ts.get(("cmp", "tunnel_scheme", "==", "'https'"))
        key = (seq, tun, https, tit.val if tit is not None and tit.kind == "const" else "?")
        if key in seen:
            continue
        seen.add(key)
        if tun is True:
            want = ("proxy-tls", "tunnel", "origin-wrap") if https is True else ("tunnel", "origin-wrap")
            ok = seq == want
            ctx.ob(R5, cf.qual, f"tunnelling (https proxy={https}): events {seq}", ok,
                   "" if ok else f"expected {want}: the CONNECT would be sent before/without TLS to the proxy, or the origin handshake would precede the tunnel", witness=s.witness(), node=cf.node)
            okt = tit is not None and tit.kind == "const" and tit.val is (https is True)
            ctx.ob(R5, cf.qual, f"tls_in_tls == {https is True} on this arm", okt, witness=s.witness(), node=cf.node)
        else:
            ok = seq == ("origin-wrap",) and tit is not None and tit.kind == "const" and tit.val is False
            ctx.ob(R5, cf.qual, f"not tunnelling: events {seq}, tls_in_tls False", ok, witness=s.witness(), node=cf.node)
    # inside the tunnel the destination is verified with the connection's own settings, never with the proxy's
    seen = set()
    for kw_, s in cr.wrap_kw:
        got = tuple((p_, tuple(sorted(kw_[p_].tags)) if p_ in kw_ else None) for p_ in ORIGIN_SETTINGS)
        if got in seen:
            continue
        seen.add(got)
        bad = [p_ for p_, tg in got if tg is None or f"self.{p_}" not in tg]
        ctx.ob(R5, cf.qual, "the origin handshake is verified with the connection's own assert_hostname / assert_fingerprint / cert_reqs / CA settings", not bad,
               "" if not bad else f"{bad} handed to the origin wrap do not come from the connection's own fields ({dict(got)}): inside a tunnel the destination would be verified with the proxy's assertions (or none)",
               witness=s.witness(), node=cf.node)
    c09_rows.r5_proxy_tls(ctx, R5, [s_ for _, s_ in cr.wraps])

    # ------------------------------------------------------------------ R6 dial the proxy
    R6 = ctx.rule("C09-R6", "with a proxy an HTTPS pool dials the proxy: the connection is constructed with the proxy's host and port", "E6")
    c09_rows.r6_dial(ctx, R6)

    # ------------------------------------------------------------------ R7 bracketed CONNECT host
    R7 = ctx.rule("C09-R7", "the CONNECT target is the URL's host with IPv6 brackets kept and the pool's port: set_tunnel(host=self._tunnel_host, port=self.port) where _tunnel_host comes from the bracket-preserving normaliser", "E6")
    c09_rows.r7_connect_target(ctx, R7)
    c09_rows.r7_set_tunnel(ctx, R7)

    # ------------------------------------------------------------------ R8 request-target form
    R8 = ctx.rule("C09-R8", "request-target form: the manager hands the pool the absolute URL iff a proxy is used without tunnel, else the origin-form request_uri", "E4")
    mrule, mfi, mouts = resend.analyse(ctx, "manager")
    pcs = [s for s in mrule.sites if s.kind == "poolcall"]
    seen = set()
    for s in pcs:
        ab = s.st.facts.get("absolute_form", (None, None))[0]
        u = s.args.get("url")
        key = (ab, tuple(sorted(u.tags)) if u is not None else None)
        if key in seen:
            continue
        seen.add(key)
        if ab is True:
            ok = u is not None and "entry:url" in u.tags
            why = "a forwarded request does not carry the absolute URL"
        else:
            ok = u is not None and any(t.endswith(".request_uri") or t == "u.request_uri" for t in u.tags)
            why = "a direct or tunnelled request carries something else than the origin-form path?query"
        ctx.ob(R8, mfi.qual, f"absolute-form={ab}: target provenance {sorted(u.tags) if u is not None else None}", ok, "" if ok else why, witness=s.st.witness(), node=s.node)
    forms = {k[0] for k in seen}
    ctx.ob(R8, mfi.qual, "both forms are reachable: absolute-form for forwarded requests, origin-form otherwise", forms >= {True, False} or forms >= {True, None},
           "" if (forms >= {True, False} or forms >= {True, None}) else f"only forms {sorted(map(str, forms))} exist: requests forwarded by a proxy would carry a relative target (or vice versa)", node=mfi.node)
    c09_rows.r8_absolute_form(ctx, R8)

    # ------------------------------------------------------------------ R9 shared with C04-R8 (F11)
    from .c04 import rule_r8

    rule_r8(ctx)
    ctx.rules["C04-R8"]["decides"] = "(shared with C04, here C09-R9) " + ctx.rules["C04-R8"]["decides"]


# ---------------------------------------------------------------------------- R10 shared with C07 (added after seeded change C09/hostname-check-decided-once)
_run_base09 = run


def run(ctx):  # noqa: F811
    _run_base09(ctx)
    R10 = ctx.rule("C09-R10", "inside the tunnel the origin's certificate is checked against the destination's name whatever state the (possibly shared) SSLContext is in (shared with C07): the who-checks-the-hostname decision table of _ssl_wrap_socket_and_match_hostname has no cell in which nobody checks (C07-R3), and the name checked is the tunnel host (C07-R8)", "E5 decision table (shared with C07)")
    from .c07 import _run_base07 as _c07

    before = len(ctx.obs)
    rules_before = dict(ctx.rules)
    declined_before = list(ctx.declined)
    _c07(ctx)
    ctx.declined[:] = declined_before
    keep_rules = ("C07-R3", "C07-R8")
    ctx.obs[before:] = [o for o in ctx.obs[before:] if o.rule in keep_rules]
    for r in list(ctx.rules):
        if r.startswith("C07-") and r not in keep_rules and r not in rules_before:
            ctx.rules.pop(r)
    ctx.ob(R10, "urllib3.connection._ssl_wrap_socket_and_match_hostname", f"{len(ctx.obs) - before} shared obligations (C07-R3, C07-R8)", True)


# ---------------------------------------------------------------------------- R13 a failed CONNECT exchange is a proxy failure (F26)
_run_base09b = run


def run(ctx):  # noqa: F811
    _run_base09b(ctx)
    from ..rows import GenRule, effect_rows, helper_closure
    m = ctx.model
    R13 = ctx.rule("C09-R13", "a CONNECT exchange that fails - whatever the proxy answered: a refusal status, garbage, nothing - is reported as a proxy failure: urlopen files an error under ProxyError by "
                   "`not conn.has_connected_to_proxy`, so that flag must not be set while _tunnel() can still raise", "E10 effect rows of HTTPConnection.connect / HTTPSConnection.connect with the CONNECT exchange raising")
    n = 0
    CN = "urllib3.connection"
    for cls in (f"{CN}.HTTPConnection", f"{CN}.HTTPSConnection"):
        fi = m.method(cls, "connect")
        if fi is None or fi.clsq != cls:
            continue
        inl = set(helper_closure(m, [fi], stop=("_tunnel", "_new_conn", "_connect_tls_proxy", "_ssl_wrap_socket_and_match_hostname"))) - {fi.qual}
        rows = effect_rows(ctx, fi, GenRule(ctx, fi.module, inline=inl, raising={"_tunnel": "http.client.HTTPException"}), cls, budget=3000000)
        seen = set()
        for r in rows:
            fault = r.st.ts.get("fault")
            if not fault or not str(fault[0]).endswith("_tunnel"):
                continue
            flags = [e[3] for e in r.events("store") if e[1] == "self" and e[2] == "_has_connected_to_proxy"]
            last = flags[-1] if flags else None
            if (cls, last) in seen:
                continue
            seen.add((cls, last))
            n += 1
            ok = last != "True"
            ctx.ob(R13, fi.qual, "when the CONNECT exchange raises, the connection does not yet count as connected to the proxy", ok,
                   "" if ok else "`_has_connected_to_proxy = True` is stored before `_tunnel()`: a garbage or empty reply to CONNECT (BadStatusLine / RemoteDisconnected - http.client closes nothing there) reaches "
                   "urlopen with the flag set and is raised as ProtocolError instead of ProxyError; only replies that make http.client call close() (a refusal status) are classified as proxy failures, by the reset of the flag in close()",
                   witness=r.witness(), node=fi.node)
    ctx.sites(R13, n, 1, "rows of connect() on which the CONNECT exchange raises")
