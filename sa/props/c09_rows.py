"""C09 clauses decided on effect rows (no source-text shapes): predicate call sites, where proxy headers may flow,
tunnel set-up order, what close() resets, which address is dialled, the CONNECT target, the absolute-form predicate."""
from __future__ import annotations

import ast

from .. import astq
from ..model import AnalysisError
from ..rows import GenRule, check_decision_table, effect_rows, helper_closure
from ..terms import K, T, destruct, subterms
from . import resend

CP = "urllib3.connectionpool"
PM = "urllib3.poolmanager"
CN = "urllib3.connection"
PRED = "connection_requires_http_tunnel"


def _args(e):
    return [a for a in e[2:] if isinstance(a, str)]


def _kw(args):
    out = {}
    for a in args:
        if "=" in a and a.split("=", 1)[0].replace("_", "").replace("*", "").isalnum():
            k, v = a.split("=", 1)
            out[k] = v
    return out


def rows_of(ctx, fi, cls=None, inline=True, **kw):
    inl = (set(helper_closure(ctx.model, [fi])) - {fi.qual}) if inline else set()
    return effect_rows(ctx, fi, GenRule(ctx, fi.module, inline=inl, **kw), cls or (fi.clsq if fi.cls else None), budget=600000)


def r2_sites(ctx, R2):
    m = ctx.model
    # the two small sites: on rows
    for q, want_scheme in ((f"{PM}.PoolManager._proxy_requires_url_absolute_form", ("p:parsed_url.scheme", "idx(p:parsed_url,0)")),
                           (f"{PM}.ProxyManager.urlopen", (f"{T('parse_url', 'p:url')}.scheme", f"idx({T('parse_url', 'p:url')},0)"))):
        fi = m.func(q)
        n = 0
        seen = set()
        for r in rows_of(ctx, fi):
            for e in r.events("call"):
                if e[1] != PRED:
                    continue
                n += 1
                a = _args(e)
                pos = [x for x in a if not x.startswith("destination_scheme=")]
                k = _kw(a)
                sch = k.get("destination_scheme") or (pos[2] if len(pos) > 2 else None)
                key = tuple(a)
                if key in seen:
                    continue
                seen.add(key)
                ok = pos[:2] == ["self.proxy", "self.proxy_config"] and sch in want_scheme
                ctx.ob(R2, q, f"predicate({', '.join(a)})", ok,
                       "" if ok else "the routing decision is taken on something else than the configured proxy and this request's scheme", witness=r.witness(), node=fi.node)
        ctx.sites(R2, n, 1, f"predicate call in {q}")
    # the request driver: provenance from the shared resend analysis
    prule, pfi, pouts = resend.analyse(ctx, "pool")
    preds = [s for s in prule.sites if s.kind == "tunnel_pred"]
    ctx.sites(R2, len(preds), 1, f"predicate call in {pfi.qual}")
    seen = set()
    for s in preds:
        a = [s.args.get(f"pos{i}") for i in range(3)]
        a[2] = a[2] if a[2] is not None else s.args.get("kw:destination_scheme")
        key = tuple(tuple(sorted(x.tags)) if x is not None else None for x in a)
        if key in seen:
            continue
        seen.add(key)
        ok = a[0] is not None and a[0].tags == {"self.proxy"} and a[1] is not None and a[1].tags == {"self.proxy_config"} \
            and a[2] is not None and any(t == "parsed:entry:url.scheme" for t in a[2].tags)
        ctx.ob(R2, pfi.qual, f"predicate(provenance {key})", ok,
               "" if ok else "the routing decision is taken on something else than the configured proxy and this request's scheme", witness=s.st.witness(), node=s.node)


def r3_flows(ctx, R3):
    """Every read of a `proxy_headers` field outside the request driver (whose merges are decided by provenance) ends in one of
    the three documented sinks."""
    m = ctx.model
    prule, pfi, pouts = resend.analyse(ctx, "pool")
    driver_closure = set(ctx.extra.get("resend_inlined_helpers", {}).get("pool", [])) | {pfi.qual}
    readers = []
    for f in m.repo_funcs():
        if f.module not in (CP, PM, CN):
            continue
        if any(isinstance(n, ast.Attribute) and n.attr == "proxy_headers" and isinstance(n.ctx, ast.Load) for n in astq.walk_fn(f.node)):
            readers.append(f)
    ctx.sites(R3, len(readers), 3, "functions reading proxy_headers")
    PH = "self.proxy_headers"
    for f in readers:
        if f.qual in driver_closure:
            ctx.ob(R3, f.qual, "proxy_headers read inside the request driver: decided by the merge provenance obligations above", True)
            continue
        rows = rows_of(ctx, f, inline=False)
        bad = None
        n_use = 0
        for r in rows:
            for e in r.ev:
                strs = [x for x in e if isinstance(x, str)]
                if not any(PH in subterms(x) or PH == x or (("=" in x) and PH in subterms(x.split("=", 1)[1])) for x in strs):
                    continue
                n_use += 1
                ok = False
                if e[0] == "call" and e[1].endswith(".set_tunnel"):
                    k = _kw(_args(e))
                    ok = k.get("headers") == PH and all(PH not in subterms(v) for kk, v in k.items() if kk != "headers") and f.qual.endswith("._prepare_proxy")
                elif e[0] == "setitem":
                    ok = e[2] == K("_proxy_headers") and e[3] == PH
                elif e[0] == "store":
                    ok = e[2] == "proxy_headers"
                if not ok and bad is None:
                    bad = (e, r)
            if r.ret and PH in subterms(r.ret) and bad is None:
                bad = (("return", r.ret), r)
        ctx.ob(R3, f.qual, f"proxy_headers flows only to set_tunnel(headers=...), the pool key kwarg `_proxy_headers`, or its own field ({n_use} uses on rows)", bad is None,
               "" if bad is None else f"`{bad[0]}`: proxy headers flow somewhere other than forwarded requests, the CONNECT request or the pool key", witness=bad[1].witness() if bad else None, node=f.node)
    # forwarding headers (Host/Accept) only when not tunnelling
    pmu = m.func(f"{PM}.ProxyManager.urlopen")
    rows = rows_of(ctx, pmu, inline=False)
    n = 0
    for r in rows:
        sets = [e for e in r.events("call") if e[1] == "self._set_proxy_headers"]
        preds = [T(PRED, *_args(e)) for e in r.events("call") if e[1] == PRED]
        if not sets:
            continue
        n += 1
        ok = bool(preds) and all(r.truth(p) is False for p in preds)
        ctx.ob(R3, pmu.qual, "forwarding headers (Host/Accept) are only set when not tunnelling", ok, "" if ok else "the headers meant for the proxy are added to a request that goes through the tunnel to the origin", witness=r.witness(), node=pmu.node)
    ctx.sites(R3, n, 1, "rows of ProxyManager.urlopen that set forwarding headers")


def r4_tunnel_setup(ctx, R4):
    m = ctx.model
    pp = m.method(f"{CP}.HTTPSConnectionPool", "_prepare_proxy")
    rows = [r for r in rows_of(ctx, pp) if r.returns]
    ctx.sites(R4, len(rows), 1, "returning rows of _prepare_proxy")
    for r in rows:
        seq = [e[1].rsplit(".", 1)[-1] for e in r.events("call") if e[1].startswith("p:conn.") and e[1].rsplit(".", 1)[-1] in ("set_tunnel", "connect")]
        ok = seq == ["set_tunnel", "connect"]
        ctx.ob(R4, pp.qual, f"_prepare_proxy: set_tunnel then connect ({seq})", ok, "" if ok else "the socket is connected before (or without) the CONNECT target being set: the request goes to the proxy in clear", witness=r.witness(), node=pp.node)
    cl = m.method(f"{CN}.HTTPConnection", "close")
    rows = rows_of(ctx, cl, raising={"close": "builtins.OSError"})
    ctx.sites(R4, len(rows), 1, "rows of HTTPConnection.close")
    for r in rows:
        cleared = {e[2] for e in r.events("store") if e[1] == "self" and e[3] == "None"}
        ok = {"_tunnel_host", "_tunnel_port", "_tunnel_scheme", "sock"} <= cleared
        ctx.ob(R4, cl.qual, f"close() clears the tunnel fields and the socket on exit {r.out}", ok, f"sets to None: {sorted(cleared)}", witness=r.witness(), node=cl.node)
    ic = m.method(f"{CN}.HTTPConnection", "is_closed")
    rows = [r for r in rows_of(ctx, ic) if r.returns]
    ctx.sites(R4, len(rows), 2, "rows of is_closed")
    from ..rows import row_bool
    for r in rows:
        none = r.is_none("self.sock")
        v = row_bool(r)
        ok = none is not None and v is not None and v == none
        ctx.ob(R4, ic.qual, f"is_closed <=> no socket (sock is None={none} -> {v})", ok, witness=r.witness(), node=ic.node)


def r6_dial(ctx, R6):
    m = ctx.model
    nc = m.method(f"{CP}.HTTPSConnectionPool", "_new_conn")
    rows = [r for r in rows_of(ctx, nc) if r.returns]
    n = 0
    seen = set()
    for r in rows:
        for e in r.events("call"):
            if e[1] != "self.ConnectionCls":
                continue
            n += 1
            k = _kw(_args(e))
            px_none = r.is_none("self.proxy")
            pxh_none = r.is_none("self.proxy.host")
            key = (px_none, pxh_none, k.get("host"), k.get("port"))
            if key in seen:
                continue
            seen.add(key)
            if px_none is True:
                ok = k.get("host") == "self.host" and k.get("port") == "self.port"
                why = "without a proxy the pool must dial its own host and port"
            elif px_none is False and pxh_none is not True:
                ok = k.get("host") == "self.proxy.host" and k.get("port") == "self.proxy.port" and pxh_none is False
                why = "with a proxy the TCP connection must go to the proxy's address (the origin is reached through CONNECT)"
            else:
                ok = k.get("host") in ("self.host", "self.proxy.host")
                why = ""
            ctx.ob(R6, nc.qual, f"proxy-is-None={px_none} proxy.host-is-None={pxh_none}: dials host={k.get('host')} port={k.get('port')}", ok, "" if ok else why, witness=r.witness(), node=nc.node)
    ctx.sites(R6, n, 2, "ConnectionCls constructions on rows of HTTPSConnectionPool._new_conn")
    ctx.ob(R6, nc.qual, "both arms exist: the proxy's address with a proxy, the pool's own without", any(k_[0] is True for k_ in seen) and any(k_[0] is False and k_[2] == "self.proxy.host" for k_ in seen))
    cfh = m.func(f"{PM}.ProxyManager.connection_from_host")
    rows = [r for r in rows_of(ctx, cfh) if r.returns]
    ctx.sites(R6, len(rows), 2, "rows of ProxyManager.connection_from_host")
    for r in rows:
        https = r.cmp("p:scheme", "==", K("https"))
        calls = [e for e in r.events("call") if e[1] == "super.connection_from_host"]
        a = _args(calls[-1]) if calls else []
        pos = [x for x in a if not x.startswith("pool_kwargs=")]
        k = _kw(a)
        got = [k.get("host", pos[0] if len(pos) > 0 else None), k.get("port", pos[1] if len(pos) > 1 else None), k.get("scheme", pos[2] if len(pos) > 2 else None)]
        if https is True:
            ok = got == ["p:host", "p:port", "p:scheme"] or got == ["p:host", "p:port", K("https")]
        elif https is False:
            # (the proxy is a Url named tuple: attribute and positional access name the same fields)
            ok = got in (["self.proxy.host", "self.proxy.port", "self.proxy.scheme"], [T("idx", "self.proxy", "2"), T("idx", "self.proxy", "3"), T("idx", "self.proxy", "0")])
        else:
            ok = False
        ctx.ob(R6, cfh.qual, f"scheme==https: {https} -> pool for {got}", ok,
               "" if ok else "non-https destinations use the proxy's own pool; https destinations get a per-destination pool", witness=r.witness(), node=cfh.node)


def r7_connect_target(ctx, R7):
    m = ctx.model
    pp = m.method(f"{CP}.HTTPSConnectionPool", "_prepare_proxy")
    rows = [r for r in rows_of(ctx, pp) if r.returns]
    n = 0
    for r in rows:
        for e in r.events("call"):
            if not e[1].endswith(".set_tunnel"):
                continue
            n += 1
            a = _args(e)
            pos = [x for x in a if "=" not in x.split("(", 1)[0]]
            k = _kw(a)
            host = k.get("host", pos[0] if pos else None)
            port = k.get("port", pos[1] if len(pos) > 1 else None)
            sch = k.get("scheme")
            ok = host == "self._tunnel_host" and port == "self.port"
            ctx.ob(R7, pp.qual, f"set_tunnel(host={host}, port={port})", ok, "" if ok else "the CONNECT target is not the pool's own (bracket-preserving) host and port", witness=r.witness(), node=pp.node)
            px = r.truth("self.proxy")
            https = r.cmp("self.proxy.scheme", "==", K("https"))
            want = K("https") if (px is True and https is True) else K("http")
            oks = sch == want and (px is not True or https is not None)
            ctx.ob(R7, pp.qual, f"tunnel scheme {sch} with proxy present={px}, proxy scheme == https: {https}", oks,
                   "" if oks else "tunnel scheme is http or https according to the proxy's scheme", witness=r.witness(), node=pp.node)
    ctx.sites(R7, n, 2, "set_tunnel calls on rows")
    cpi = m.method(f"{CP}.ConnectionPool", "__init__")
    rows = [r for r in rows_of(ctx, cpi, inline=False) if r.returns]
    ctx.sites(R7, len(rows), 1, "returning rows of ConnectionPool.__init__")
    # which function the two names resolve to (the bracket-keeping URL-level normaliser vs the pool-level bracket-stripping one)
    for r in rows:
        st = [e[3] for e in r.events("store") if e[1] == "self" and e[2] == "_tunnel_host"]
        ok = False
        detail = st[-1] if st else "no store"
        if st:
            t = st[-1]
            op, a = destruct(t)
            if op == "lower" and len(a) == 1:
                t = a[0]
                op, a = destruct(t)
            ok = op == "url._normalize_host" and a[:1] == ("p:host",)
            detail = st[-1]
        ctx.ob(R7, cpi.qual, "_tunnel_host uses the URL-level normaliser (brackets kept), not the bracket-stripping one", ok, detail, witness=r.witness(), node=cpi.node)


def r7_set_tunnel(ctx, R7):
    """the connection hands the CONNECT target to the stdlib as it got it and does not rewrite it afterwards"""
    m = ctx.model
    stf = m.method(f"{CN}.HTTPConnection", "set_tunnel")
    rows = [r for r in rows_of(ctx, stf) if r.returns]
    ctx.sites(R7, len(rows), 1, "returning rows of HTTPConnection.set_tunnel")
    ph, pp_ = "p:" + stf.params()[0], "p:" + stf.params()[1]
    seen = set()
    for r in rows:
        calls = [e for e in r.events("call") if e[1] == "super.set_tunnel"]
        rewrites = [e for e in r.events("store") if e[1] == "self" and e[2] in ("_tunnel_host", "_tunnel_port")] + \
                   [e for e in r.ev if e[0] in ("setattr", "delattr") and len(e) > 2 and e[2] in ("_tunnel_host", "_tunnel_port")]
        k = (tuple(calls), tuple(rewrites))
        if k in seen:
            continue
        seen.add(k)
        ok = len(calls) == 1
        if ok:
            a = _args(calls[0])
            pos = [x for x in a if "=" not in x.split("(", 1)[0]]
            kw = _kw(a)
            ok = kw.get("host", pos[0] if pos else None) == ph and kw.get("port", pos[1] if len(pos) > 1 else None) == pp_
        ctx.ob(R7, stf.qual, "set_tunnel hands host and port to the stdlib unchanged", ok, "" if ok else f"calls {calls}: the CONNECT target differs from the one the pool asked for", witness=r.witness(), node=stf.node)
        ctx.ob(R7, stf.qual, "the CONNECT target recorded by the stdlib is not rewritten afterwards", not rewrites,
               "" if not rewrites else f"{rewrites}: the request line of CONNECT (and the name verified inside the tunnel) is no longer the URL's bracketed host", witness=r.witness(), node=stf.node)


def r8_absolute_form(ctx, R8):
    m = ctx.model
    af = m.func(f"{PM}.PoolManager._proxy_requires_url_absolute_form")
    rows = rows_of(ctx, af)

    def env(r):
        n_, t_ = r.is_none("self.proxy"), r.truth("self.proxy")
        tun = None
        for e in r.events("call"):
            if e[1] == PRED:
                tun = r.truth(T(PRED, *_args(e)))
        return {"proxy": (not n_) if n_ is not None else t_, "tunnel": tun}

    n = check_decision_table(ctx, R8, af, rows, env, lambda e: e["proxy"] and not e["tunnel"], "absolute form <=> proxy and not tunnel:",
                             "a forwarded request needs the absolute URL; a direct or tunnelled one the origin-form")
    ctx.sites(R8, n, 3, "rows of _proxy_requires_url_absolute_form")


def r5_proxy_tls(ctx, R5, wrap_states):
    m = ctx.model
    hc = f"{CN}.HTTPSConnection"
    ctp = m.method(hc, "_connect_tls_proxy")
    rows = [r for r in rows_of(ctx, ctp, inline=False) if r.returns]
    WRAP = "_ssl_wrap_socket_and_match_hostname"
    n = 0
    for r in rows:
        for e in r.events("call"):
            if e[1] != WRAP:
                continue
            n += 1
            k = _kw(_args(e))
            pcfg = "self.proxy_config"
            want = {"server_hostname": "p:hostname", "assert_hostname": f"{pcfg}.assert_hostname", "assert_fingerprint": f"{pcfg}.assert_fingerprint",
                    "ssl_context": f"{pcfg}.ssl_context", "tls_in_tls": "False"}
            got = {x: k.get(x) for x in want}
            ok = got == want
            ctx.ob(R5, ctp.qual, "proxy TLS is verified against the proxy's host with the proxy_config assertions and context", ok, str(got)[:300], witness=r.witness(), node=ctp.node)
            wt = T(WRAP, *_args(e))
            st = [x[3] for x in r.events("store") if x[1] == "self" and x[2] == "proxy_is_verified"]
            okv = bool(st) and st[-1] == f"{wt}.is_verified"
            ctx.ob(R5, ctp.qual, "proxy_is_verified is the proxy handshake's verdict", okv, (st[-1][-60:] if st else "no store"), witness=r.witness(), node=ctp.node)
    ctx.sites(R5, n, 1, "proxy TLS wrap on rows")
    # the proxy handshake names the proxy's host: argument of _connect_tls_proxy on the paths of connect() that reach the origin wrap
    args = {s.ts.get("proxy_tls_host_arg") for s in wrap_states if "proxy-tls" in s.ts.get("ev", ())}
    ctx.ob(R5, f"{hc}.connect", "the proxy handshake names the proxy's host (self.host of the proxied connection)", bool(args) and args <= {"self.host", "field:self.host"}, f"argument: {sorted(map(str, args))}")
