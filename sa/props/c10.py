"""C10 - no input can inject into or split the HTTP request on the wire."""
from __future__ import annotations

import ast
import re
import re._constants as sc

from .. import astq, rx
from ..fold import Regex
from ..model import AnalysisError
from . import resend

CN = "urllib3.connection"
CP = "urllib3.connectionpool"
URL = "urllib3.util.url"
H2 = "urllib3.http2.connection"

TCHAR = set("!#$%&'*+-.^_`|~0123456789abcdefghijklmnopqrstuvwxyzABCDEFGHIJKLMNOPQRSTUVWXYZ")
RFC3986 = set("ABCDEFGHIJKLMNOPQRSTUVWXYZabcdefghijklmnopqrstuvwxyz0123456789-._~!$&'()*+,;=:@/?")


def _bytes_probe(pattern, flags=0):
    """Pattern (bytes) -> parsed with chr-based probe (bytes patterns are latin-1 one-to-one)."""
    import re as _re
    fl = int(flags or 0) & ~int(_re.UNICODE)
    return rx.parse(pattern.decode("latin-1") if isinstance(pattern, bytes) else pattern, fl)


def _is_set_of(term, values):
    from ..terms import destruct
    """does the term denote the (frozen)set of exactly these constants - as a folded constant, by name, or as a display?"""
    o_, v_ = destruct(term)
    if o_ == "const":
        try:
            return set(v_) == set(values)
        except TypeError:
            return False
    if term.startswith("g:") and term.endswith("SKIPPABLE_HEADERS"):
        return True
    try:
        node = ast.parse(term, mode="eval").body
        if isinstance(node, ast.Call) and isinstance(node.func, ast.Name) and node.func.id in ("frozenset", "set") and len(node.args) == 1:
            node = node.args[0]
        return set(ast.literal_eval(node)) == set(values)
    except Exception:
        return False


def run(ctx):
    m, fold = ctx.model, ctx.fold
    ctx.assume("A1")
    ctx.decline("byte-level equality 'the bytes written are exactly one request'; decided instead: every caller string reaches the socket only through a validator or an encoder whose accepted language excludes the separators")
    HC = f"{CN}.HTTPConnection"

    # ------------------------------------------------------------------ R1 method gate
    R1 = ctx.rule("C10-R1", "method gate: HTTPConnection.putrequest tests the method against a pattern whose accepted characters are RFC 7230 token characters (no CTL, SP, ':') before delegating to the stdlib putrequest, which validates the target", "E3 + E7")
    import re as _re
    from ..rows import GenRule, effect_rows, helper_closure
    from ..terms import K, T, destruct, subterms
    from . import reqrows

    pr = m.method(HC, "putrequest")
    rows1 = effect_rows(ctx, pr, GenRule(ctx, pr.module, inline=set(helper_closure(m, [pr])) - {pr.qual}), HC)
    ctx.sites(R1, len(rows1), 2, "rows of putrequest")
    p0 = f"p:{pr.params()[0]}"
    # the guard: some fact about <pattern>.<method>(p:method)
    guards = {}
    for r in rows1:
        for sym in r.st.facts:
            mt = _re.fullmatch(r"rx:(\w+)\.(search|match|fullmatch)\((.*)\)", sym)
            if mt:
                guards[sym] = mt.groups()
    if len(guards) > 1:
        raise AnalysisError(f"C10-R1: putrequest decides on {sorted(guards)}: expected exactly one pattern test of the method (idiom not recognised)")
    if not guards:
        ctx.ob(R1, pr.qual, "the method is tested against the token pattern before the request line is produced", False,
               "no pattern test of the method decides any path of putrequest: the method is written without the token check", node=pr.node)
        guards = {"<none>": ("", "", "")}
    gsym, (rname, how, arg) = next(iter(guards.items()))
    ctx.ob(R1, pr.qual, f"the whole method string is tested: {gsym}", arg == p0, "" if arg == p0 else "the pattern is applied to something else than the method", node=pr.node)
    rexv = fold.need(CN, rname) if rname else Regex("[^\\x00-\\U0010ffff]", 0)
    if not isinstance(rexv, Regex):
        raise AnalysisError(f"{rname} is not a compiled pattern")
    p = list(rx.parse(rexv.pattern, rexv.flags))
    neg_class = len(p) == 1 and p[0][0] is sc.IN and any(op is sc.NEGATE for op, _ in p[0][1])
    pos_class = len(p) == 1 and p[0][0] in (sc.MAX_REPEAT, sc.MIN_REPEAT) and len(p[0][1][2]) == 1 and p[0][1][2][0][0] is sc.IN and not any(op is sc.NEGATE for op, _ in p[0][1][2][0][1])
    if neg_class and how == "search":
        allowed, raise_when = rx.PROBE_SET - rx.class_set(p[0][1]), True     # a hit anywhere = a forbidden character
    elif pos_class and how == "fullmatch":
        allowed, raise_when = rx.class_set(p[0][1][2][0][1]), False           # no full match = a forbidden character
    elif (neg_class and how in ("match", "fullmatch")) or (pos_class and how in ("match", "search")) or not rname:
        # the test constrains one position only (or nothing): every character may appear elsewhere in the method
        allowed, raise_when = set(rx.PROBE_SET), bool(neg_class)
    else:
        raise AnalysisError(f"C10-R1: method guard `{rexv.pattern}` used with {how}(): neither `search` of a negated class nor `fullmatch` of a repeated class (idiom not recognised)")
    bad = sorted(allowed - TCHAR)
    ctx.ob(R1, CN, "characters the method may contain are token characters only", not bad, f"also accepts {bad[:8]}" if bad else "")
    for ch, nm in ((" ", "SP"), ("\r", "CR"), ("\n", "LF"), ("\x00", "NUL"), (":", "colon"), ("\t", "HTAB"), ("\xe9", "non-ASCII")):
        ctx.ob(R1, CN, f"method cannot contain {nm}", ch not in allowed)
    n_del = 0
    for r in rows1:
        hit = r.truth(gsym)
        if hit is None and r.is_none(gsym) is not None:
            hit = not r.is_none(gsym)
        delegs = [e for e in r.events("call") if e[1] == "super.putrequest"]
        forbidden_found = (hit is True) if raise_when else (hit is False)
        if forbidden_found or hit is None:
            ok = not r.returns and not delegs
            ctx.ob(R1, pr.qual, f"guard says a non-token character is present (or undecided: {hit}) -> {r.out}", ok,
                   "" if ok else "the method is written without (or before) the token check", witness=r.witness(), node=pr.node)
        else:
            n_del += len(delegs)
            args = [a_ for a_ in delegs[0][2:] if isinstance(a_, str)] if delegs else []
            ok = len(delegs) == 1 and args[:2] == [p0, f"p:{pr.params()[1]}"] and r.returns
            ctx.ob(R1, pr.qual, f"token-only method: delegates ({', '.join(args[:2])}) unchanged, once", ok, str(args)[:120], witness=r.witness(), node=pr.node)
    ctx.sites(R1, n_del, 1, "delegation to the stdlib putrequest on rows")
    sp = m.find_method("http.client.HTTPConnection", "putrequest")
    if sp is None:
        raise AnalysisError("stdlib putrequest not found")
    stxt = astq.text(sp.node)
    ctx.ob(R1, sp.qual, "stdlib putrequest validates method and path (source fact)", "self._validate_method(method)" in stxt and "self._validate_path(url)" in stxt)
    vp = m.find_method("http.client.HTTPConnection", "_validate_path")
    ctx.ob(R1, "http.client.HTTPConnection._validate_path", "stdlib path validation rejects control characters and space (source fact)",
           vp is not None and "_contains_disallowed_url_pchar_re" in astq.text(vp.node))

    # ------------------------------------------------------------------ R2 target re-encoding
    R2 = ctx.rule("C10-R2", "target re-encoding: every target handed to _make_request is _encode_target(url) or parse_url(url).url; the allowed sets of the encoder are RFC 3986 characters only; the encoder emits only allowed characters or %XX", "E6 + E2")
    prule, pfi, pouts = resend.analyse(ctx, "pool")
    reqs = [s for s in prule.sites if s.kind == "request"]
    seen = set()
    for s in reqs:
        u = s.args.get("url")
        tags = tuple(sorted(u.tags)) if u is not None else ()
        if tags in seen:
            continue
        seen.add(tags)
        ok = u is not None and ("_encode_target" in u.tags or any(t == "u.url" or t.endswith(".url") for t in u.tags)) and "entry:url" in " ".join(u.tags)
        ctx.ob(R2, pfi.qual, f"request target provenance {list(tags)}", ok, "" if ok else "a caller-supplied URL reaches the request line without re-encoding", witness=s.st.witness(), node=s.node)
    ctx.sites(R2, len(seen), 2, "distinct target provenances (origin-form, absolute-form)")
    for name in ("_USERINFO_CHARS", "_PATH_CHARS", "_QUERY_CHARS", "_FRAGMENT_CHARS", "_UNRESERVED_CHARS"):
        v = fold.need(URL, name)
        badc = sorted(set(v) - RFC3986)
        ctx.ob(R2, URL, f"{name} ({len(v)} chars) within RFC 3986 unreserved/sub-delims/':@/?'", not badc and len(v) > 60,
               f"also allows {badc}" if badc else "", nontrivial=True)
        for ch, nm in ((" ", "SP"), ("\r", "CR"), ("\n", "LF"), ("#", "'#'"), ("%", "'%'")):
            if ch in v:
                ctx.ob(R2, URL, f"{name} excludes {nm}", False, f"{nm} would pass through the encoder unescaped")
    enc = m.func(f"{URL}._encode_invalid_chars")
    rows_e = [r for r in effect_rows(ctx, enc, GenRule(ctx, enc.module), None, budget=900000) if r.returns]
    ctx.sites(R2, len(rows_e), 4, "rows of the encoder")
    ALLOWED = f"p:{enc.params()[1]}"
    n_raw = n_esc = n_unrec = 0
    seen_e = set()
    for r in rows_e:
        # the byte under consideration on this row: the operand of `<byte>.decode() in allowed_chars` / `<byte> == b'%'`
        cands = set()
        for k_, v_ in r.st.ts.items():
            if isinstance(k_, tuple) and len(k_) == 4 and k_[0] == "cmp":
                if k_[2] == "in" and k_[3] == ALLOWED and destruct(k_[1])[0] == "decode":
                    cands.add(destruct(k_[1])[1][0])
                if k_[2] == "==" and k_[3] == K(b"%"):
                    cands.add(k_[1])
                if k_[2] == "<" and k_[3] == "128" and destruct(k_[1])[0] == "ord":
                    cands.add(destruct(k_[1])[1][0])
        kept = [t_ for t_ in subterms(r.ret or "") if destruct(t_)[0] == "add" and destruct(t_)[1][0] == T("bytearray")]
        exts = [e_ for e_ in r.events("call") if e_[1] in (f"{T('bytearray')}.extend", f"{T('bytearray')}.append")]
        if not kept and not exts:
            continue
        if len(cands) != 1:
            n_unrec += 1  # this row tests the byte in a way the rule does not recognise: provenance fallback below (DESIGN 13.2)
            continue
        B = next(iter(cands))
        in_allowed = r.cmp(T("decode", B), "in", ALLOWED)
        ascii_ = r.cmp(T("ord", B), "<", "128")
        is_pct = r.cmp(B, "==", K(b"%"))
        pct_enc = None
        for k_, v_ in r.st.ts.items():
            if isinstance(k_, tuple) and len(k_) == 4 and k_[0] == "cmp" and k_[2] == "==" and destruct(k_[3])[0] == "count" and destruct(k_[3])[1][-1] == K(b"%"):
                pct_enc = v_
        for t_ in kept:
            n_raw += 1
            what = destruct(t_)[1][1]
            ok = what == B and ((ascii_ is True and in_allowed is True) or (is_pct is True and pct_enc is True))
            key = ("raw", ok, ascii_, in_allowed, is_pct, pct_enc)
            if key not in seen_e:
                seen_e.add(key)
                ctx.ob(R2, enc.qual, f"raw byte kept with ascii={ascii_} allowed={in_allowed} is-%={is_pct} component-fully-percent-encoded={pct_enc}", ok,
                       "" if ok else "a byte outside the allowed set reaches the output unescaped", witness=r.witness(), node=enc.node)
        for e_ in exts:
            n_esc += 1
            a_ = [x for x in e_[2:] if isinstance(x, str)]
            st_ = set(subterms(a_[0])) if a_ else set()
            ok = bool(a_) and destruct(a_[0])[0] == "add" and destruct(a_[0])[1][0] == K(b"%") and T("hex", T("ord", B)) in st_ and any(destruct(x)[0] == "zfill" and destruct(x)[1][-1] == "2" for x in st_)
            key = ("esc", ok)
            if key not in seen_e:
                seen_e.add(key)
                ctx.ob(R2, enc.qual, "everything else is written as %XX of the byte", ok, (a_[0][:100] if a_ else ""), witness=r.witness(), node=enc.node)
    if (n_raw == 0 and n_esc == 0) or n_unrec:
        # the encoder is written in a way the rule does not recognise (DESIGN 13.2): decide provenance only - the result
        # depends on the component and the allowed set alone, and membership in the allowed set is what is tested
        tests = any(isinstance(k_, tuple) and len(k_) == 4 and k_[0] == "cmp" and k_[2] == "in" and k_[3] == ALLOWED for r in rows_e for k_ in r.st.ts)
        foreign = set()
        for r in rows_e:
            for x in subterms(r.ret or ""):
                if destruct(x)[0] is None and x.startswith(("p:", "self.")) and x not in (ALLOWED, f"p:{enc.params()[0]}"):
                    foreign.add(x)
        ctx.ob(R2, enc.qual, "encoder idiom not recognised: the result depends only on the component and the allowed set, and membership in the allowed set is tested (provenance only)",
               tests and not foreign, f"tests membership: {tests}; other inputs: {sorted(foreign)}", node=enc.node)
    if n_raw or n_esc:
        ctx.sites(R2, n_raw, 1, "raw-byte writes on encoder rows")
        ctx.sites(R2, n_esc, 1, "escaped writes on encoder rows")
    et = m.func(f"{URL}._encode_target")
    rows_t = [r for r in effect_rows(ctx, et, GenRule(ctx, et.module), None) if r.returns]
    ctx.sites(R2, len(rows_t), 2, "returning rows of _encode_target")
    for r in rows_t:
        calls = [[a_ for a_ in e_[2:] if isinstance(a_, str)] for e_ in r.events("call") if e_[1] == "_encode_invalid_chars"]
        sets_used = [c_[1] for c_ in calls if len(c_) == 2]
        # every encoded piece is a capture group of the match of the target; the result is built from encoded pieces and '?' only
        def is_group(t_):
            o_, a_ = destruct(t_)
            if o_ == "idx" and destruct(a_[0])[0].endswith(".groups"):
                return True
            return o_.endswith(".group") if o_ else False
        from_groups = all(is_group(c_[0]) for c_ in calls)
        from ..terms import norm
        parts = destruct(norm(r.ret))
        pieces = list(parts[1]) if parts[0] == "cat" else [norm(r.ret)]
        enc_terms = {norm(T("_encode_invalid_chars", *c_)) for c_ in calls}
        ok_build = all(pc in enc_terms or pc == K("?") for pc in pieces)
        def is_set(t_, name):
            """the allowed-set argument is the module's set of that name, by name or by (folded) value"""
            if t_ == f"g:{name}":
                return True
            o_, v_ = destruct(t_)
            try:
                return o_ == "const" and isinstance(v_, (set, frozenset, str)) and set(v_) == set(fold.need(URL, name))
            except Exception:
                return False
        ok_sets = (len(sets_used) == 1 and is_set(sets_used[0], "_PATH_CHARS")) or (len(sets_used) == 2 and is_set(sets_used[0], "_PATH_CHARS") and is_set(sets_used[1], "_QUERY_CHARS"))
        ok = ok_sets and from_groups and ok_build and len(pieces) == (1 if len(calls) == 1 else 3)
        ctx.ob(R2, et.qual, f"_encode_target = encoded path [+ '?' + encoded query] with the path/query sets ({[x_[:30] for x_ in sets_used]})", ok,
               "" if ok else f"result {r.ret[:120]}: a part of the target reaches the request line unencoded", witness=r.witness(), node=et.node)
    if any(isinstance(n_, ast.Name) and n_.id == "_TARGET_RE" for n_ in ast.walk(et.node)):
        tr = fold.need(URL, "_TARGET_RE")
        gp = rx.groups(rx.parse(tr.pattern, tr.flags))
        holds = sorted(g_ for g_, sub_ in gp.items() if "#" in rx.any_chars(sub_, dotall=bool(tr.flags & re.DOTALL)))
        ctx.ob(R2, URL, "_TARGET_RE drops the fragment (no capturing group can hold '#')", bool(gp) and not holds, f"{tr.pattern}: groups {holds} can contain '#'")

    # ------------------------------------------------------------------ R3 headers through the validating primitive
    R3 = ctx.rule("C10-R3", "headers go through the validating primitive: in HTTPConnection.request header lines are produced only by self.putheader and the request line only by self.putrequest; the putheader override delegates every non-skipped value to the stdlib putheader, which validates name and value", "E8")
    rq = m.method(HC, "request")
    R4 = ctx.rule("C10-R4", "nothing but the framing code writes to the socket: in connection.py (live code on this interpreter) no sock.sendall/send with a caller-derived operand; body bytes go through self.send after endheaders()", "E8 + E10 rows of request()")
    R5 = ctx.rule("C10-R5", "automatic headers: Host / Accept-Encoding are suppressed exactly when the caller supplied them (case-insensitively), User-Agent is added exactly when absent; only the three skippable headers accept the SKIP_HEADER sentinel", "E10 rows of request() and putheader()")
    reqrows.check_output_discipline(ctx, R3, R4, R5)
    ph = m.method(HC, "putheader")
    SKIP = fold.need("urllib3.util.request", "SKIP_HEADER")
    sk = fold.need("urllib3.util.request", "SKIPPABLE_HEADERS")
    ctx.ob(R5, "urllib3.util.request", f"SKIPPABLE_HEADERS == accept-encoding, host, user-agent", set(sk) == {"accept-encoding", "host", "user-agent"}, str(sorted(sk)))
    rows_h = effect_rows(ctx, ph, GenRule(ctx, ph.module, inline=set(helper_closure(m, [ph])) - {ph.qual}), HC)
    ctx.sites(R3, len(rows_h), 3, "rows of putheader")
    VALS = "p:*" + (ph.node.args.vararg.arg if ph.node.args.vararg else "values")
    n_del = 0
    for r in rows_h:
        skip_seen = any(r.cmp(T(q_, VALS), "==", K(SKIP)) is True for q_ in ("some", "each"))
        delegs = [[a_ for a_ in e_[2:] if isinstance(a_, str)] for e_ in r.events("call") if e_[1] == "super.putheader"]
        if not skip_seen:
            n_del += len(delegs)
            ok = len(delegs) == 1 and delegs[0] == [f"p:{ph.params()[0]}", f"*={VALS}"] and r.returns
            ctx.ob(R3, ph.qual, "every value that is not the SKIP_HEADER sentinel is delegated (header, *values) unchanged", ok,
                   "" if ok else f"without a sentinel: {r.out}, delegations {delegs}: the header bypasses the validating stdlib primitive or is dropped", witness=r.witness(), node=ph.node)
        else:
            member = None
            for k_, v_ in r.st.ts.items():
                if isinstance(k_, tuple) and len(k_) == 4 and k_[0] == "cmp" and k_[2] == "in" and _is_set_of(k_[3], sk):
                    member = (k_[1], v_)
            lowered = member is not None and T("lower", f"p:{ph.params()[0]}") in subterms(member[0])
            if member is None or not lowered:
                ctx.ob(R5, ph.qual, "with the sentinel the (lower-cased) header name is looked up in SKIPPABLE_HEADERS", False, f"lookup {member}", witness=r.witness(), node=ph.node)
            elif member[1] is True:
                ok = r.returns and not delegs
                ctx.ob(R5, ph.qual, "SKIP_HEADER on a skippable header emits nothing", ok, "" if ok else f"{r.out}, delegations {delegs}", witness=r.witness(), node=ph.node)
            else:
                ok = not r.returns and not delegs
                ctx.ob(R5, ph.qual, "SKIP_HEADER on any other header raises", ok, "" if ok else f"{r.out}: the sentinel string would be accepted (and the header silently dropped or sent) for arbitrary headers", witness=r.witness(), node=ph.node)
    ctx.sites(R3, n_del, 1, "delegations in putheader rows")
    sph = m.find_method("http.client.HTTPConnection", "putheader")
    stxt = astq.text(sph.node) if sph is not None else ""
    ctx.ob(R3, "http.client.HTTPConnection.putheader", "stdlib putheader validates header name and value (source fact)",
           "_is_legal_header_name(header)" in stxt and "_is_illegal_header_value(" in stxt)

    # ------------------------------------------------------------------ R4 who writes to the socket (raw writes; the order of body bytes is decided on the rows above)
    n = 0
    for f in m.repo_funcs():
        if f.module != CN:
            continue
        for c in astq.calls(f.node):
            if getattr(c, "_pruned", False):
                continue
            t = astq.call_text(c)
            if t.endswith("sock.sendall") or t.endswith("sock.send") or t.endswith("sock.sendmsg") or t.endswith(".sock.write"):
                n += 1
                ctx.ob(R4, f.qual, f"`{astq.text(c)[:60]}`", False, "raw socket write outside http.client's buffered output", node=c)
    ctx.ob(R4, CN, "no raw socket write in connection.py", n == 0)
    pruned = [x for x in m.pruned if x[0] == CN]
    ctx.extra["pruned_connection_blocks"] = [f"{a}:{b} {c}" for a, b, c in pruned]

    # ------------------------------------------------------------------ R6 HTTP/2 validators
    R6 = ctx.rule("C10-R6", "HTTP/2: the name pattern accepts only lower-case token characters and is anchored so that no trailing newline passes; the value pattern rejects NUL, CR, LF anywhere and leading/trailing SP/HTAB; both checks dominate the append to the header list", "E7 + E3")
    if H2 in m.modules:
        nm = fold.need(H2, "RE_IS_LEGAL_HEADER_NAME")
        pv = fold.need(H2, "RE_IS_ILLEGAL_HEADER_VALUE")
        p = _bytes_probe(nm.pattern, nm.flags)
        ea = rx.end_anchor(p)
        # how each pattern is applied, and by which functions: read off the effect rows of the module's functions (a validator is a
        # function whose result is the truth of one application of the pattern to its parameter)
        from ..rows import GenRule, effect_rows, helper_closure
        from ..terms import destruct, subterms

        def applications(row, const_name):
            out = []
            for k_, (t_, n_) in row.st.facts.items():
                if not isinstance(k_, str):
                    continue
                op_, as_ = destruct(k_)
                if op_ and op_.startswith(f"rx:{const_name}.") and len(as_) >= 1:
                    out.append((op_.rsplit(".", 1)[1], as_[0], t_ if t_ is not None else (None if n_ is None else not n_)))
            return out

        def validators(const_name):
            """{qual: (method, polarity)} for module functions f(x) that return the truth (polarity True) or the negated truth of PATTERN.method(x)"""
            found = {}
            for g in m.repo_funcs():
                if g.module != H2 or g.cls is not None or len(g.params()) != 1:
                    continue
                if not any(isinstance(n_, ast.Name) and n_.id == const_name for n_ in ast.walk(g.node)):
                    continue
                rws = effect_rows(ctx, g, GenRule(ctx, H2), None)
                pol = set()
                hows = set()
                for r_ in rws:
                    ap = [a_ for a_ in applications(r_, const_name) if a_[1] == "p:" + g.params()[0]]
                    if len(ap) != 1 or r_.out not in ("return:True", "return:False") or ap[0][2] is None or r_.ev:
                        pol.add(None)
                        continue
                    hows.add(ap[0][0])
                    pol.add((r_.out == "return:True") == ap[0][2])
                if len(pol) == 1 and None not in pol and len(hows) == 1 and len(rws) == 2:
                    found[g.qual] = (hows.pop(), pol.pop())
            return found
        name_validators = validators("RE_IS_LEGAL_HEADER_NAME")
        value_validators = validators("RE_IS_ILLEGAL_HEADER_VALUE")
        how = sorted({h_ for h_, _ in name_validators.values()})
        full = how == ["fullmatch"]
        ok = ea == "Z" or full
        ctx.ob(R6, H2, "RE_IS_LEGAL_HEADER_NAME end anchor", ok, "" if ok else f"ends in `$` under {how}: b'x-evil\\n' is accepted as a header name and emitted")
        ctx.ob(R6, H2, "name pattern anchored at the start", rx.start_anchor(p) is not None or how in (["match"], ["fullmatch"]))
        chars = rx.any_chars(p)
        lower_tchar = {c for c in TCHAR if not c.isupper()}
        badc = sorted(chars - lower_tchar)
        ctx.ob(R6, H2, "name characters are lower-case token characters", not badc, f"also accepts {badc[:8]}" if badc else "")
        pvp = _bytes_probe(pv.pattern, pv.flags)
        # alternatives: anywhere-class, leading class, trailing class
        br = [av for op, av in pvp if op is sc.BRANCH]
        alts = br[0][1] if br else [pvp]
        anywhere, leading, trailing = set(), set(), set()
        for alt in alts:
            alt = list(alt)
            cls = [rx.class_set(av) for op, av in alt if op is sc.IN]
            if not cls:
                continue
            if alt and alt[0][0] is sc.AT and alt[0][1] in (sc.AT_BEGINNING, sc.AT_BEGINNING_STRING):
                leading |= cls[0]
            elif alt and alt[-1][0] is sc.AT:
                trailing |= cls[0]
            else:
                anywhere |= cls[0]
        ok = {"\x00", "\r", "\n"} <= anywhere
        ctx.ob(R6, H2, "value pattern rejects NUL, CR, LF anywhere", ok, f"anywhere-class {sorted(map(repr, anywhere))}")
        ctx.ob(R6, H2, "value pattern rejects leading SP/HTAB", {" ", "\t"} <= leading)
        ctx.ob(R6, H2, "value pattern rejects trailing SP/HTAB", {" ", "\t"} <= trailing)
        howv = sorted({h_ for h_, _ in value_validators.values()})
        h2ph = m.func(f"{H2}.HTTP2Connection.putheader")
        stop = tuple(q_.rsplit(".", 1)[1] for q_ in list(name_validators) + list(value_validators))
        inl = helper_closure(m, [h2ph], stop=stop) - {h2ph.qual}
        prow = effect_rows(ctx, h2ph, GenRule(ctx, H2, inline=frozenset(inl)), h2ph.clsq)

        def verdicts(row, term, vals, const_name):
            """truths this row has established about `term` through a validator function or a direct application of the pattern:
            list of (method, says-it-matches)"""
            out = []
            for k_, (t_, n_) in row.st.facts.items():
                if not isinstance(k_, str):
                    continue
                op_, as_ = destruct(k_)
                if not op_ or not as_ or as_[0] != term:
                    continue
                if op_.startswith("rx:") and t_ is None and n_ is not None:
                    t_ = not n_  # a match object is truthy, no match is None
                if t_ is None:
                    continue
                q_ = f"{H2}.{op_}"
                if q_ in vals:
                    h_, pol_ = vals[q_]
                    out.append((h_, t_ == pol_))
                elif op_.startswith(f"rx:{const_name}."):
                    out.append((op_.rsplit(".", 1)[1], t_))
            return out
        n_app = 0
        for r_ in prow:
            for e_ in r_.ev:
                if not (e_[0] == "call" and isinstance(e_[1], str) and e_[1].startswith("self.") and e_[1].endswith((".append", ".insert", ".extend", ".__iadd__"))):
                    continue
                n_app += 1
                arg = next((a_ for a_ in e_[2:] if isinstance(a_, str)), "")
                op_, as_ = destruct(arg)
                if op_ not in ("tuple", "list") or len(as_) != 2:
                    ctx.ob(R6, h2ph.qual, "what is appended to the header list is a (name, value) pair", False, f"appended: {arg}", witness=r_.witness(), node=h2ph.node)
                    continue
                N_, V_ = as_
                vn = verdicts(r_, N_, name_validators, "RE_IS_LEGAL_HEADER_NAME")
                okn = any(matches and (h_ == "fullmatch" or ea == "Z") and (h_ in ("match", "fullmatch") or rx.start_anchor(p) is not None) for h_, matches in vn)
                ctx.ob(R6, h2ph.qual, "the appended name is the very value that passed the name check", okn,
                       "" if okn else f"`{N_}` is appended but the name pattern was established for {[k_ for k_ in r_.st.facts if isinstance(k_, str) and 'HEADER_NAME' in k_ or 'legal_header_name' in str(k_)]}", witness=r_.witness(), node=h2ph.node)
                vv = verdicts(r_, V_, value_validators, "RE_IS_ILLEGAL_HEADER_VALUE")
                okv = any((not matches) and h_ == "search" for h_, matches in vv)
                ctx.ob(R6, h2ph.qual, "the appended value is the very value the illegal-value search did not match, for each value", okv,
                       "" if okv else f"`{V_}` is appended but the value check was made on {[k_ for k_ in r_.st.facts if isinstance(k_, str) and 'HEADER_VALUE' in k_ or 'illegal_header_value' in str(k_)]}", witness=r_.witness(), node=h2ph.node)
        ctx.sites(R6, n_app, 1, "append to the HTTP/2 header list")
        ctx.ob(R6, H2, "the value pattern is searched over the whole value", howv == ["search"] or not value_validators, str(howv))

    # ------------------------------------------------------------------ R7 shared with C11-R6
    from .c11 import rule_r6

    rule_r6(ctx)
    ctx.rules["C11-R6"]["decides"] = "(shared with C11, here C10-R7) a Content-Length computed by urllib3 is len()/nbytes of the very object written: a shorter declared length lets the surplus bytes be parsed as a second request (smuggling) - " + ctx.rules["C11-R6"]["decides"]


# ---------------------------------------------------------------------------- R8 the URL host cannot carry a line break to the proxy (F27)
_run_base10 = run


def run(ctx):  # noqa: F811
    _run_base10(ctx)
    m, fold = ctx.model, ctx.fold
    URLM = "urllib3.util.url"
    R8 = ctx.rule("C10-R8", "the host of a URL reaches start lines that http.client does not validate (the CONNECT line written for a tunnelling proxy): the host alternatives of the URL grammar admit no CR, LF, NUL or SP, "
                  "or the tunnel host is validated before set_tunnel", "E7 character sets of the host group of _HOST_PORT_RE + E8 validators on the path to set_tunnel")
    hpr = fold.need(URLM, "_HOST_PORT_RE")
    hpp = rx.parse(hpr.pattern, hpr.flags)
    gp = rx.groups(hpp)
    host_group = gp.get(min(gp)) if gp else None
    if host_group is None:
        raise AnalysisError("_HOST_PORT_RE has no host group")
    chars = rx.any_chars(host_group, dotall=bool(hpr.flags & re.DOTALL))
    hostile = sorted(c for c in ("\r", "\n", "\x00", " ", "\t") if c in chars)
    # a validator between the parse and the CONNECT line: on every row of HTTPConnection.set_tunnel that reaches the stdlib's
    # set_tunnel, a pattern covering the hostile characters was searched in the host and did not match
    from ..rows import GenRule, effect_rows
    CNM = "urllib3.connection"
    st_ = m.method(f"{CNM}.HTTPConnection", "set_tunnel")
    validated, why_not = False, "HTTPConnection.set_tunnel not found"
    if st_ is not None:
        HOSTP = "p:" + st_.params()[0]
        rows_ = [r for r in effect_rows(ctx, st_, GenRule(ctx, CNM), f"{CNM}.HTTPConnection") if any(e[1] == "super.set_tunnel" for e in r.events("call"))]
        ctx.sites(R8, len(rows_), 1, "rows of HTTPConnection.set_tunnel that hand the host to http.client")
        validated, why_not = bool(rows_), "no row reaches the stdlib's set_tunnel"
        for r in rows_:
            covered = set()
            for k_, v_ in r.st.facts.items():
                if isinstance(k_, str) and k_.startswith("rx:") and k_.endswith(f"({HOSTP})") and (".search(" in k_) and (v_[1] is True or v_[0] is False):
                    name_ = k_[3:].split(".", 1)[0]
                    try:
                        rg = fold.need(CNM, name_)
                        covered |= rx.any_chars(rx.parse(rg.pattern, rg.flags))
                    except Exception:
                        pass
            if not set(hostile) <= covered:
                validated, why_not = False, f"a row reaches super().set_tunnel({HOSTP}) with {[repr(c) for c in hostile if c not in covered]} not excluded"
    ok = not hostile or validated
    ctx.ob(R8, URLM, "the URL host admits no CR / LF / NUL / SP (or the tunnel host is validated before the CONNECT line is written)", ok,
           "" if ok else f"the host alternatives of _HOST_PORT_RE admit {[repr(c) for c in hostile]} and nothing on the way to set_tunnel() rejects them: through a tunnelling proxy "
           "`https://a\\r\\nx-injected\\r\\n\\r\\nGET /smuggled\\r\\nb/` writes `CONNECT a\\r\\nx-injected\\r\\n\\r\\nget :443 HTTP/1.1...` to the proxy (http.client validates header values and request targets, not the tunnel host, on this interpreter); " + why_not)
