"""C10 - no input can inject into or split the HTTP request on the wire."""
from __future__ import annotations

import ast
import re._constants as sc

from .. import astq, rx
from ..fold import Regex
from ..model import AnalysisError
from . import resend

CN = "urllib3.connection"
CP = "urllib3.connectionpool"
URL = "urllib3.util.url"
H2 = "urllib3.http2.connection"

TCHAR = set("!#$%&'*+-.^_`|~0123456789abcdefghijklmnopqrstuvwxyzABCDEFGHIJKLMNOPQRSTUVWXYZ")
RFC3986 = set("ABCDEFGHIJKLMNOPQRSTUVWXYZabcdefghijklmnopqrstuvwxyz0123456789-._~!$&'()*+,;=:@/?")


def _bytes_probe(pattern):
    """Pattern (bytes) -> parsed with chr-based probe (bytes patterns are latin-1 one-to-one)."""
    return rx.parse(pattern.decode("latin-1") if isinstance(pattern, bytes) else pattern)


def run(ctx):
    m, fold = ctx.model, ctx.fold
    ctx.assume("A1")
    ctx.decline("byte-level equality 'the bytes written are exactly one request'; decided instead: every caller string reaches the socket only through a validator or an encoder whose accepted language excludes the separators")
    HC = f"{CN}.HTTPConnection"

    # ------------------------------------------------------------------ R1 method gate
    R1 = ctx.rule("C10-R1", "method gate: HTTPConnection.putrequest tests the method against a pattern whose accepted characters are RFC 7230 token characters (no CTL, SP, ':') before delegating to the stdlib putrequest, which validates the target", "E3 + E7")
    pr = m.method(HC, "putrequest")
    rexv = fold.need(CN, "_CONTAINS_CONTROL_CHAR_RE")
    if not isinstance(rexv, Regex):
        raise AnalysisError("_CONTAINS_CONTROL_CHAR_RE is not a compiled pattern")
    p = list(rx.parse(rexv.pattern, rexv.flags))
    ok = len(p) == 1 and p[0][0] is sc.IN and any(op is sc.NEGATE for op, _ in p[0][1])
    allowed = rx.PROBE_SET - rx.class_set(p[0][1]) if ok else set()
    ctx.ob(R1, CN, "method pattern is a single negated class (search finds any forbidden character)", ok, rexv.pattern)
    bad = sorted(allowed - TCHAR)
    ctx.ob(R1, CN, "characters the method may contain are token characters only", ok and not bad, f"also accepts {bad[:8]}" if bad else "")
    for ch, nm in ((" ", "SP"), ("\r", "CR"), ("\n", "LF"), ("\x00", "NUL"), (":", "colon"), ("\t", "HTAB"), ("\xe9", "non-ASCII")):
        ctx.ob(R1, CN, f"method cannot contain {nm}", ch not in allowed)
    uses = [c for c in astq.calls(pr.node) if isinstance(c.func, ast.Attribute) and astq.text(c.func.value) == "_CONTAINS_CONTROL_CHAR_RE"]
    ok = bool(uses) and uses[0].func.attr == "search" and astq.text(uses[0].args[0]) == pr.params()[0]
    ctx.ob(R1, pr.qual, "the whole method string is searched for a forbidden character", ok, astq.text(uses[0]) if uses else "no use of the pattern", node=pr.node)
    # the test dominates the delegation: if match: raise ; then super().putrequest
    deleg = [c for c in astq.calls(pr.node) if astq.call_text(c) == "super().putrequest"]
    ctx.sites(R1, len(deleg), 1, "delegation to the stdlib putrequest")
    guards = [n for n in astq.walk_fn(pr.node) if isinstance(n, ast.If) and astq.all_paths_end_in(n.body, lambda s: isinstance(s, ast.Raise))]
    dom = False
    for g in guards:
        srcs = astq.sources_of(pr.node, g.test)
        if any(isinstance(s, ast.Call) and isinstance(s.func, ast.Attribute) and astq.text(s.func.value) == "_CONTAINS_CONTROL_CHAR_RE" for s in srcs):
            dom = all(g.lineno < d.lineno and astq.enclosing(d, ast.If) is None for d in deleg)
    ctx.ob(R1, pr.qual, "a forbidden character raises before the request line is produced", dom,
           "" if dom else "the method is written without (or before) the token check", node=pr.node)
    for d in deleg:
        ok = len(d.args) >= 2 and astq.text(d.args[0]) == "method" and astq.text(d.args[1]) == "url"
        ctx.ob(R1, pr.qual, "delegates (method, url) unchanged", ok, astq.text(d), node=d)
    sp = m.find_method("http.client.HTTPConnection", "putrequest")
    if sp is None:
        raise AnalysisError("stdlib putrequest not found")
    stxt = astq.text(sp.node)
    ctx.ob(R1, sp.qual, "stdlib putrequest validates method and path (source fact)", "self._validate_method(method)" in stxt and "self._validate_path(url)" in stxt)
    vp = m.find_method("http.client.HTTPConnection", "_validate_path")
    ctx.ob(R1, "http.client.HTTPConnection._validate_path", "stdlib path validation rejects control characters and space (source fact)",
           vp is not None and "_contains_disallowed_url_pchar_re" in astq.text(vp.node))

    # ------------------------------------------------------------------ R2 target re-encoding
    R2 = ctx.rule("C10-R2", "target re-encoding: every target handed to _make_request is _encode_target(url) or parse_url(url).url; the allowed sets of the encoder are RFC 3986 characters only; the encoder emits only allowed characters or %XX", "E6 + E2")
    prule, pfi, pouts = resend.analyse(ctx, "pool")
    reqs = [s for s in prule.sites if s.kind == "request"]
    seen = set()
    for s in reqs:
        u = s.args.get("url")
        tags = tuple(sorted(u.tags)) if u is not None else ()
        if tags in seen:
            continue
        seen.add(tags)
        ok = u is not None and ("_encode_target" in u.tags or any(t == "u.url" or t.endswith(".url") for t in u.tags)) and "entry:url" in " ".join(u.tags)
        ctx.ob(R2, pfi.qual, f"request target provenance {list(tags)}", ok, "" if ok else "a caller-supplied URL reaches the request line without re-encoding", witness=s.st.witness(), node=s.node)
    ctx.sites(R2, len(seen), 2, "distinct target provenances (origin-form, absolute-form)")
    for name in ("_USERINFO_CHARS", "_PATH_CHARS", "_QUERY_CHARS", "_FRAGMENT_CHARS", "_UNRESERVED_CHARS"):
        v = fold.need(URL, name)
        badc = sorted(set(v) - RFC3986)
        ctx.ob(R2, URL, f"{name} ({len(v)} chars) within RFC 3986 unreserved/sub-delims/':@/?'", not badc and len(v) > 60,
               f"also allows {badc}" if badc else "", nontrivial=True)
        for ch, nm in ((" ", "SP"), ("\r", "CR"), ("\n", "LF"), ("#", "'#'"), ("%", "'%'")):
            if ch in v:
                ctx.ob(R2, URL, f"{name} excludes {nm}", False, f"{nm} would pass through the encoder unescaped")
    enc = m.func(f"{URL}._encode_invalid_chars")
    appends = []
    outs_ = set(astq.assigned_from(enc.node, lambda v: isinstance(v, ast.Call) and astq.call_text(v) == "bytearray"))
    for n in astq.walk_fn(enc.node):
        if isinstance(n, ast.AugAssign) and astq.text(n.target) in outs_:
            appends.append(("raw", n))
        if isinstance(n, ast.Call) and isinstance(n.func, ast.Attribute) and n.func.attr in ("extend", "append") and astq.text(n.func.value) in outs_:
            appends.append(("ext", n))
    ctx.sites(R2, len(appends), 2, "writes to the encoder's output")
    for kind, n in appends:
        if kind == "raw":
            g = astq.enclosing(n, ast.If)
            t = astq.itext(enc.node, g.test).replace('"', "'") if g is not None else ""
            val = astq.itext(enc.node, n.value)
            disj = [astq.itext(enc.node, v).replace('"', "'") for v in g.test.values] if g is not None and isinstance(g.test, ast.BoolOp) and isinstance(g.test.op, ast.Or) else []
            ok = len(disj) == 2 and any(d.endswith("== b'%'") and "count(b'%')" in d for d in disj) \
                and any(d.startswith("ord(") and "< 128 and" in d and d.endswith(".decode() in allowed_chars") for d in disj)
            # the byte kept is the byte tested
            ok = ok and all(val in d for d in disj)
            ctx.ob(R2, enc.qual, f"raw byte kept only if allowed ASCII or '%' of a fully percent-encoded component", ok, t[:160], node=n)
        else:
            a = astq.itext(enc.node, n.args[0]).replace('"', "'")
            ok = a.startswith("b'%' + ") and "hex(ord(" in a and ".zfill(2)" in a
            ctx.ob(R2, enc.qual, f"everything else is written as %XX", ok, a[:100], node=n)
    et = m.func(f"{URL}._encode_target")
    txt = astq.text(et.node)
    encs = [c for c in astq.calls(et.node) if astq.call_text(c) == "_encode_invalid_chars" and len(c.args) == 2]
    sets_used = sorted(astq.text(c.args[1]) for c in encs)
    from_groups = all(any("groups()" in astq.text(x) for x in astq.sources_of(et.node, c.args[0])) for c in encs)
    ok = sets_used == ["_PATH_CHARS", "_QUERY_CHARS"] and from_groups
    ctx.ob(R2, et.qual, "_encode_target encodes path and query with the path/query sets", ok, f"{sets_used}")
    tr = fold.need(URL, "_TARGET_RE")
    gp = rx.groups(rx.parse(tr.pattern, tr.flags))
    ctx.ob(R2, URL, "_TARGET_RE drops the fragment (no capturing group after '#')", len(gp) == 2 and "(?:#.*)?" in tr.pattern, tr.pattern)

    # ------------------------------------------------------------------ R3 headers through the validating primitive
    R3 = ctx.rule("C10-R3", "headers go through the validating primitive: in HTTPConnection.request header lines are produced only by self.putheader and the request line only by self.putrequest; the putheader override delegates every non-skipped value to the stdlib putheader, which validates name and value", "E8")
    rq = m.method(HC, "request")
    writers = {}
    for c in astq.calls(rq.node):
        t = astq.call_text(c)
        if t.startswith("self.") and t.split(".")[1] in ("putheader", "putrequest", "endheaders", "send", "_send_output", "_output", "_send_request"):
            writers.setdefault(t, []).append(c)
        if ".sendall" in t or t.endswith("sock.send") or t.startswith("self._buffer") or t == "self._output":
            writers.setdefault(t, []).append(c)
    ok = set(writers) <= {"self.putheader", "self.putrequest", "self.endheaders", "self.send"}
    ctx.ob(R3, rq.qual, f"output primitives used: {sorted(writers)}", ok, "" if ok else "the request writes bytes through something other than putrequest/putheader/endheaders/send", node=rq.node)
    ctx.sites(R3, len(writers.get("self.putheader", [])), 3, "putheader calls in request")
    hl = [c for c in writers.get("self.putheader", []) if astq.enclosing(c, ast.For) is not None]
    loop_ = astq.enclosing(hl[0], ast.For) if hl else None
    ok = bool(hl) and astq.text(loop_.iter) == "headers.items()" and isinstance(loop_.target, ast.Tuple) \
        and [astq.text(a) for a in hl[0].args] == [astq.text(e) for e in loop_.target.elts]
    ctx.ob(R3, rq.qual, "every caller header (name, value) goes through putheader", ok, node=rq.node)
    ph = m.method(HC, "putheader")
    deleg = [c for c in astq.calls(ph.node) if astq.call_text(c) == "super().putheader"]
    ctx.sites(R3, len(deleg), 1, "delegation in putheader")
    for d in deleg:
        ok = astq.text(d.args[0]) == "header" and isinstance(d.args[1], ast.Starred) and astq.text(d.args[1].value) == "values"
        ctx.ob(R3, ph.qual, "delegates (header, *values) unchanged", ok, astq.text(d), node=d)
        g = astq.enclosing(d, ast.If)
        ok = g is not None and "SKIP_HEADER" in astq.text(g.test) and astq.text(g.test).startswith("not any(")
        ctx.ob(R3, ph.qual, "every value that is not the SKIP_HEADER sentinel is delegated", ok, astq.text(g.test) if g is not None else "", node=d)
    sph = m.find_method("http.client.HTTPConnection", "putheader")
    stxt = astq.text(sph.node) if sph is not None else ""
    ctx.ob(R3, "http.client.HTTPConnection.putheader", "stdlib putheader validates header name and value (source fact)",
           "_is_legal_header_name(header)" in stxt and "_is_illegal_header_value(" in stxt)

    # ------------------------------------------------------------------ R4 who writes to the socket
    R4 = ctx.rule("C10-R4", "nothing but the framing code writes to the socket: in connection.py (live code on this interpreter) no sock.sendall/send with a caller-derived operand; body bytes go through self.send after endheaders()", "E8")
    n = 0
    for f in m.repo_funcs():
        if f.module != CN:
            continue
        for c in astq.calls(f.node):
            if getattr(c, "_pruned", False):
                continue
            t = astq.call_text(c)
            if t.endswith("sock.sendall") or t.endswith("sock.send") or t.endswith("sock.sendmsg") or t.endswith(".sock.write"):
                n += 1
                ctx.ob(R4, f.qual, f"`{astq.text(c)[:60]}`", False, "raw socket write outside http.client's buffered output", node=c)
    ctx.ob(R4, CN, "no raw socket write in connection.py", n == 0)
    sends = writers.get("self.send", [])
    eh = writers.get("self.endheaders", [])
    ok = bool(eh) and all(s.lineno > eh[0].lineno for s in sends) and len(eh) == 1
    ctx.ob(R4, rq.qual, "body bytes are sent only after endheaders()", ok, node=rq.node)
    pruned = [x for x in m.pruned if x[0] == CN]
    ctx.extra["pruned_connection_blocks"] = [f"{a}:{b} {c}" for a, b, c in pruned]

    # ------------------------------------------------------------------ R5 automatic headers
    R5 = ctx.rule("C10-R5", "automatic headers: Host / Accept-Encoding are suppressed exactly when the caller supplied them (case-insensitively), User-Agent is added exactly when absent; only the three skippable headers accept the SKIP_HEADER sentinel", "E5 on request")
    txt = astq.text(rq.node)
    keyset = "frozenset((to_str(k.lower()) for k in headers))"
    prc = writers.get("self.putrequest", [])
    sh = astq.itext(rq.node, astq.kwarg(prc[0], "skip_host")) if prc and astq.kwarg(prc[0], "skip_host") is not None else ""
    sa_ = astq.itext(rq.node, astq.kwarg(prc[0], "skip_accept_encoding")) if prc and astq.kwarg(prc[0], "skip_accept_encoding") is not None else ""
    ok = keyset in sh and keyset in sa_
    ctx.ob(R5, rq.qual, "caller header names are lower-cased for the presence tests", ok, sh[:120])
    ok = sh == f"'host' in {keyset}" and sa_ == f"'accept-encoding' in {keyset}"
    ctx.ob(R5, rq.qual, "skip flags are presence of host / accept-encoding among the caller's headers", ok, f"{sh} | {sa_}"[:200])
    ok = len(prc) == 1 and [astq.text(a) for a in prc[0].args] == ["method", "url"]
    ctx.ob(R5, rq.qual, "putrequest(method, url, skip flags) - one request line", ok)
    ua = [c for c in writers.get("self.putheader", []) if c.args and isinstance(c.args[0], ast.Constant) and c.args[0].value == "User-Agent"]
    ok = len(ua) == 1 and astq.enclosing(ua[0], ast.If) is not None and astq.itext(rq.node, astq.enclosing(ua[0], ast.If).test) == f"'user-agent' not in {keyset}"
    ctx.ob(R5, rq.qual, "default User-Agent iff the caller gave none", ok)
    sk = fold.need("urllib3.util.request", "SKIPPABLE_HEADERS")
    ctx.ob(R5, "urllib3.util.request", f"SKIPPABLE_HEADERS == accept-encoding, host, user-agent", set(sk) == {"accept-encoding", "host", "user-agent"}, str(sorted(sk)))
    el = [n_ for n_ in astq.walk_fn(ph.node) if isinstance(n_, ast.If) and isinstance(n_.test, ast.Compare) and len(n_.test.ops) == 1
          and isinstance(n_.test.ops[0], ast.NotIn) and astq.text(n_.test.comparators[0]) == "SKIPPABLE_HEADERS" and "lower()" in astq.text(n_.test.left)]
    ok = bool(el) and astq.all_paths_end_in(el[0].body, lambda s: isinstance(s, ast.Raise))
    ctx.ob(R5, ph.qual, "SKIP_HEADER on any other header raises", ok)

    # ------------------------------------------------------------------ R6 HTTP/2 validators
    R6 = ctx.rule("C10-R6", "HTTP/2: the name pattern accepts only lower-case token characters and is anchored so that no trailing newline passes; the value pattern rejects NUL, CR, LF anywhere and leading/trailing SP/HTAB; both checks dominate the append to the header list", "E7 + E3")
    if H2 in m.modules:
        nm = fold.need(H2, "RE_IS_LEGAL_HEADER_NAME")
        pv = fold.need(H2, "RE_IS_ILLEGAL_HEADER_VALUE")
        p = _bytes_probe(nm.pattern)
        ea = rx.end_anchor(p)
        fn = m.func(f"{H2}._is_legal_header_name")
        how = [c.func.attr for c in astq.calls(fn.node) if isinstance(c.func, ast.Attribute) and astq.text(c.func.value) == "RE_IS_LEGAL_HEADER_NAME"]
        full = how == ["fullmatch"]
        ok = ea == "Z" or full
        ctx.ob(R6, H2, "RE_IS_LEGAL_HEADER_NAME end anchor", ok, "" if ok else f"ends in `$` under {how}: b'x-evil\\n' is accepted as a header name and emitted")
        ctx.ob(R6, H2, "name pattern anchored at the start", rx.start_anchor(p) is not None or how in (["match"], ["fullmatch"]))
        chars = rx.any_chars(p)
        lower_tchar = {c for c in TCHAR if not c.isupper()}
        badc = sorted(chars - lower_tchar)
        ctx.ob(R6, H2, "name characters are lower-case token characters", not badc, f"also accepts {badc[:8]}" if badc else "")
        pvp = _bytes_probe(pv.pattern)
        # alternatives: anywhere-class, leading class, trailing class
        br = [av for op, av in pvp if op is sc.BRANCH]
        alts = br[0][1] if br else [pvp]
        anywhere, leading, trailing = set(), set(), set()
        for alt in alts:
            alt = list(alt)
            cls = [rx.class_set(av) for op, av in alt if op is sc.IN]
            if not cls:
                continue
            if alt and alt[0][0] is sc.AT and alt[0][1] in (sc.AT_BEGINNING, sc.AT_BEGINNING_STRING):
                leading |= cls[0]
            elif alt and alt[-1][0] is sc.AT:
                trailing |= cls[0]
            else:
                anywhere |= cls[0]
        ok = {"\x00", "\r", "\n"} <= anywhere
        ctx.ob(R6, H2, "value pattern rejects NUL, CR, LF anywhere", ok, f"anywhere-class {sorted(map(repr, anywhere))}")
        ctx.ob(R6, H2, "value pattern rejects leading SP/HTAB", {" ", "\t"} <= leading)
        ctx.ob(R6, H2, "value pattern rejects trailing SP/HTAB", {" ", "\t"} <= trailing)
        fv = m.func(f"{H2}._is_illegal_header_value")
        howv = [c.func.attr for c in astq.calls(fv.node) if isinstance(c.func, ast.Attribute) and astq.text(c.func.value) == "RE_IS_ILLEGAL_HEADER_VALUE"]
        ctx.ob(R6, fv.qual, "the value pattern is searched over the whole value", howv == ["search"], str(howv))
        h2ph = m.func(f"{H2}.HTTP2Connection.putheader")
        apps = [c for c in astq.calls(h2ph.node) if astq.call_text(c) == "self._headers.append"]
        ctx.sites(R6, len(apps), 1, "append to the HTTP/2 header list")
        checks = [n_ for n_ in astq.walk_fn(h2ph.node) if isinstance(n_, ast.If) and astq.all_paths_end_in(n_.body, lambda s: isinstance(s, ast.Raise))]
        tn = [n_ for n_ in checks if "_is_legal_header_name(header)" in astq.text(n_.test) and astq.text(n_.test).startswith("not ")]
        vloop = [n_ for n_ in astq.walk_fn(h2ph.node) if isinstance(n_, ast.For) and astq.text(n_.iter) == "values"]
        # the value that is checked and appended is the loop variable (possibly re-bound to its encoded form)
        vname = astq.text(vloop[0].target) if vloop else "value"
        tv = [n_ for n_ in checks if astq.text(n_.test) == f"_is_illegal_header_value({vname})"]
        for a in apps:
            okn = bool(tn) and tn[0].lineno < a.lineno
            okv = bool(tv) and tv[0].lineno < a.lineno and astq.enclosing(tv[0], ast.For) is astq.enclosing(a, ast.For)
            ctx.ob(R6, h2ph.qual, "name check raises before the append", okn, node=a)
            ctx.ob(R6, h2ph.qual, "value check raises before the append, for each value", okv, node=a)
            ok = [astq.text(x) for x in a.args[0].elts] == ["header", vname] if isinstance(a.args[0], ast.Tuple) else False
            ctx.ob(R6, h2ph.qual, "what is appended is what was checked", ok, node=a)
        # the lower-casing happens before the name check (so the check sees what is sent)
        low = [n_ for n_ in astq.walk_fn(h2ph.node) if isinstance(n_, ast.Assign) and astq.text(n_.value) == "header.lower()"]
        ctx.ob(R6, h2ph.qual, "name is lower-cased before it is checked", bool(low) and bool(tn) and low[0].lineno < tn[0].lineno)

    # ------------------------------------------------------------------ R7 shared with C11-R6
    from .c11 import rule_r6

    rule_r6(ctx)
    ctx.rules["C11-R6"]["decides"] = "(shared with C11, here C10-R7) a Content-Length computed by urllib3 is len()/nbytes of the very object written: a shorter declared length lets the surplus bytes be parsed as a second request (smuggling) - " + ctx.rules["C11-R6"]["decides"]
