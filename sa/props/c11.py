"""C11 - request bodies are framed exactly and re-sent identically."""
from __future__ import annotations

import ast
import itertools

from .. import astq
from ..events import outcome_name, run_function
from ..interp import AV, BASE_TOP, EXT_TOP, UNK, BaseRule, Out, const, exc
from ..model import AnalysisError
from . import resend

CN = "urllib3.connection"
CP = "urllib3.connectionpool"
PM = "urllib3.poolmanager"
RQ = "urllib3.util.request"
HC = f"{CN}.HTTPConnection"


class FrameRule(BaseRule):
    """request(): classify framing headers and body sends."""

    def __init__(self, chunks_kind, cl_kind):
        self.chunks_kind, self.cl_kind = chunks_kind, cl_kind

    def getattr(self, it, st, node, base):
        is_res = base.kind == "obj" and base.val == "chunks_and_cl"
        if is_res and node.attr == "chunks":
            return const(None) if self.chunks_kind == "none" else AV("obj", "chunks", truth=True, none=False)
        if is_res and node.attr == "content_length":
            return const(None) if self.cl_kind == "none" else AV("unk", sym="content_length", none=False, tags=frozenset({"content_length"}))
        return None

    def for_iter(self, it, st, stmt, itv):
        if itv.kind == "obj" and itv.val == "chunks":
            n = st.ts.get("chunk_iters", 0)
            if n >= 1:
                return [(st.copy(), False)]
            s = st.copy()
            s.ts["chunk_iters"] = n + 1
            s.ts["chunk_var"] = ast.unparse(stmt.target)
            it.assign(s, stmt.target, AV("unk", sym="chunk", tags=frozenset({"chunk"})))
            return [(s, True), (st.copy(), False)]
        # header loop: one symbolic iteration, not interesting
        s = st.copy()
        k = ("hl", stmt.lineno)
        if st.ts.get(k):
            return [(st.copy(), False)]
        s.ts[k] = True
        it.assign(s, stmt.target, UNK)
        return [(s, True), (st.copy(), False)]

    def call(self, it, st, node, recv, pos, kw):
        t = ast.unparse(node.func)
        if t == "frozenset":
            return [Out("normal", st, AV("unk", sym="header_keys", none=False))]
        if t == "self.putheader":
            name = pos[0].val if pos and pos[0].kind == "const" else "?"
            s = st.copy()
            if isinstance(name, str) and name.lower() in ("transfer-encoding", "content-length"):
                val = pos[1] if len(pos) > 1 else UNK
                s.ts["framing"] = s.ts.get("framing", ()) + ((name.lower(), val.val if val.kind == "const" else tuple(sorted(val.tags))),)
            return [Out("normal", s, const(None))]
        if t == "self.send":
            s = st.copy()
            a = node.args[0]
            txt = ast.unparse(a)
            if isinstance(a, ast.Constant) and a.value == b"0\r\n\r\n":
                s.ts["sends"] = s.ts.get("sends", ()) + ("terminator",)
            elif isinstance(a, ast.BinOp) and isinstance(a.op, ast.Mod) and isinstance(a.left, ast.Constant) and a.left.value == b"%x\r\n%b\r\n":
                elts = [ast.unparse(e) for e in a.right.elts] if isinstance(a.right, ast.Tuple) else []
                s.ts["sends"] = s.ts.get("sends", ()) + ("chunk-framed:" + ",".join(elts),)
            elif isinstance(a, ast.Name):
                s.ts["sends"] = s.ts.get("sends", ()) + ("raw:" + ("chunk" if a.id == st.ts.get("chunk_var") else a.id),)
            else:
                s.ts["sends"] = s.ts.get("sends", ()) + ("other:" + txt[:30],)
            # chunk emptiness / encoding facts at send time
            ch = st.env.get(it.var(st.ts.get("chunk_var", "chunk")))
            if ch is not None:
                chv = st.view(ch)
                s.ts["chunk_truth_at_send"] = chv.truth
                s.ts["chunk_tags_at_send"] = tuple(sorted(chv.tags))
            return [Out("normal", s, const(None))]
        if t == "str" and pos:
            return [Out("normal", st, AV("unk", tags=frozenset(pos[0].tags | {"str"}), none=False))]
        if isinstance(node.func, ast.Attribute) and node.func.attr == "encode" and recv is not None and "chunk" in recv.tags:
            return [Out("normal", st, AV("unk", sym=recv.sym, tags=frozenset(recv.tags | {"utf8-encoded:" + (str(pos[0].val) if pos and pos[0].kind == "const" else "?")}), typ="builtins.bytes"))]
        if t == "body_to_chunks":
            return [Out("normal", st, AV("obj", "chunks_and_cl", truth=True, none=False))]
        if t in ("self.putrequest", "self.endheaders", "_ResponseOptions", "to_str", "_get_default_user_agent", "self.sock.settimeout", "headers.items"):
            return [Out("normal", st, UNK)]
        return [Out("normal", st, UNK)]


def run(ctx):
    m, fold = ctx.model, ctx.fold
    ctx.assume("A1", "A5")
    ctx.decline("payload byte equality (the framed payload equals the body's bytes); decided instead: which framing is chosen for which body kind, the chunk-encoding structure, and that every resend threads body and recorded position")

    # ------------------------------------------------------------------ R1 framing table
    R1 = ctx.rule("C11-R1", "framing decision table of HTTPConnection.request over chunked flag x caller Content-Length/Transfer-Encoding x body shape: caller framing is respected; otherwise exactly one of Content-Length / Transfer-Encoding: chunked, nothing for body-less requests whose method expects no body and Content-Length: 0 for the others; the send mode follows the framing", "E5")
    rq = m.method(HC, "request")
    from . import reqrows
    nb = fold.need(RQ, "_METHODS_NOT_EXPECTING_BODY")
    ctx.ob(R1, RQ, f"_METHODS_NOT_EXPECTING_BODY contains GET, HEAD, DELETE, OPTIONS", {"GET", "HEAD", "DELETE", "OPTIONS"} <= set(nb) and "POST" not in nb and "PUT" not in nb and "PATCH" not in nb, str(sorted(nb)))

    # ------------------------------------------------------------------ R2 chunk encoding
    R2 = ctx.rule("C11-R2", "chunk encoding: empty chunks are skipped, str chunks are UTF-8 encoded before they are measured, the size prefix is the hex length of the very bytes sent, the terminator is sent once after the loop iff chunked", "E10 rows of request()")
    reqrows.check_framing(ctx, R1, R2)

    rule_r6(ctx)

    # ------------------------------------------------------------------ R3 position threading
    R3 = ctx.rule("C11-R3", "every resend passes on the body it sent (None only after 303) and the position recorded by set_file_position before the first attempt", "E6 sibling cross-check")
    for which in ("pool", "manager"):
        rule, fi, outs = resend.analyse(ctx, which)
        sites = [s for s in rule.sites if s.kind == "resend"]
        seen = set()
        for s in sites:
            bp = s.args.get("body_pos")
            body = s.args.get("body")
            key = (s.node.lineno, tuple(sorted(bp.tags)) if bp is not None else None, body is not None and body.kind == "const")
            if key in seen:
                continue
            seen.add(key)
            if which == "pool":
                ok = bp is not None and ("filepos" in bp.tags or (bp.kind == "const" and bp.val is None and body is not None and body.kind == "const" and body.val is None))
                ctx.ob(R3, fi.qual, f"resend passes body_pos recorded by set_file_position ({sorted(bp.tags) if bp is not None else 'absent'})", ok,
                       "" if ok else "the retry/redirect does not rewind the body: a partially consumed file is re-sent from where the first attempt stopped", witness=s.st.witness(), node=s.node)
            else:
                has = bp is not None
                ctx.ob(R3, fi.qual, "resend passes no body_pos", has,
                       "" if has else "PoolManager.urlopen resends **kw without the position recorded by the pool-level call: after a cross-host 307/308 a seekable body is re-sent from its end (empty)", witness=s.st.witness(), node=s.node)
        ctx.sites(R3, len(seen), 1, f"resend sites in {fi.qual}")
    # body and position travel together (a position without its body makes rewind_body raise ValueError on the body-less follow-up)
    R7 = ctx.rule("C11-R7", "body and recorded position travel together: a resend whose body is None (after a 303) carries no position", "E6 sibling cross-check")
    for which in ("pool", "manager"):
        rule, fi, outs = resend.analyse(ctx, which)
        seen7 = set()
        for s in [x for x in rule.sites if x.kind == "resend"]:
            body, bp = s.args.get("body"), s.args.get("body_pos")
            if body is None or not (body.kind == "const" and body.val is None):
                continue
            key = (s.node.lineno, bp.val if bp is not None and bp.kind == "const" else (tuple(sorted(bp.tags)) if bp is not None else None))
            if key in seen7:
                continue
            seen7.add(key)
            ok = bp is None or (bp.kind == "const" and bp.val is None)
            ctx.ob(R7, fi.qual, f"body-less resend carries body_pos={key[1]}", ok,
                   "" if ok else "set_file_position(None, pos) -> rewind_body(None, pos) raises ValueError('body_pos must be of type integer'): a 303 after a request with a seekable body fails with a raw builtin error", witness=s.st.witness(), node=s.node)
        if which == "pool":
            ctx.sites(R7, len(seen7), 1, "body-less (303) resend paths")
    prule, pfi, pouts = resend.analyse(ctx, "pool")
    reqs = [s for s in prule.sites if s.kind == "request"]
    rec = {s.st.ts.get("filepos_args") for s in reqs}
    okrec = bool(reqs) and rec == {(("entry:body",), ("entry:body_pos",))}
    ctx.ob(R3, pfi.qual, "the position is recorded before the first attempt: set_file_position(body, body_pos) on the caller's body and position precedes every request step", okrec,
           "" if okrec else f"request steps are reached with set_file_position arguments {sorted(map(str, rec))}")
    okb = all("entry:body" in s.args["body"].tags for s in reqs if "body" in s.args) and reqs
    ctx.ob(R3, pfi.qual, "the body sent is the caller's body object", bool(okb))

    # ------------------------------------------------------------------ R4 rewind-or-refuse
    R4 = ctx.rule("C11-R4", "rewind or refuse: with a recorded position the body is seek()ed or UnrewindableBodyError is raised; a failed tell() (_FAILEDTELL) always refuses", "E5 on set_file_position / rewind_body")
    sfp = m.func(f"{RQ}.set_file_position")
    rb = m.func(f"{RQ}.rewind_body")
    from ..rows import GenRule, effect_rows, helper_closure
    from ..terms import K, T, destruct, subterms

    FAILED = None
    fv = fold.module_const(RQ, "_FAILEDTELL")
    from ..interp import AV as _AV
    from ..terms import term_of
    FAILED = term_of(_AV("const", ("enum", str(fv)), truth=True, none=False))
    raising = {"seek": "builtins.OSError", "tell": "builtins.OSError", "rewind_body": "urllib3.exceptions.UnrewindableBodyError"}
    # ---- rewind_body
    rows_rb = effect_rows(ctx, rb, GenRule(ctx, rb.module, raising=raising, inline=set(helper_closure(m, [rb])) - {rb.qual}), None)
    ctx.sites(R4, len(rows_rb), 4, "rows of rewind_body")
    POS, BODY = f"p:{rb.params()[1]}", f"p:{rb.params()[0]}"
    seen4 = set()
    for r in rows_rb:
        is_int = r.isinst(POS, "int")
        failed = r.cmp(POS, "is", FAILED)
        seeks = [[a_ for a_ in e_[2:] if isinstance(a_, str)] for e_ in r.events("call") if e_[1] == f"{BODY}.seek"]
        key = (r.out, is_int, failed, tuple(map(tuple, seeks)), r.st.ts.get("fault"))
        if key in seen4:
            continue
        seen4.add(key)
        if r.returns:
            ok = seeks == [[POS]] and not r.st.ts.get("fault")
            ctx.ob(R4, rb.qual, f"normal exit only after seek(body_pos) succeeded (int position={is_int})", ok, "" if ok else "rewind_body returns without having rewound", witness=r.witness(), node=rb.node)
        else:
            ok = r.out in ("raise:UnrewindableBodyError", "raise:ValueError") and (r.out == "raise:UnrewindableBodyError" or (failed is not True and not r.st.ts.get("fault")))
            ctx.ob(R4, rb.qual, f"refusal {r.out} (failed-tell marker={failed}, seek fault={bool(r.st.ts.get('fault'))})", ok,
                   "" if ok else "a failed tell() or a failing seek() must surface as UnrewindableBodyError", witness=r.witness(), node=rb.node)
        if failed is True:
            ctx.ob(R4, rb.qual, "_FAILEDTELL never rewinds silently: the path raises UnrewindableBodyError", r.out == "raise:UnrewindableBodyError",
                   "" if not r.returns else "a body whose position could not be recorded is re-sent as if rewound", witness=r.witness(), node=rb.node)
    ctx.ob(R4, rb.qual, "a failing seek() is refused with UnrewindableBodyError", any(r.out == "raise:UnrewindableBodyError" and r.st.ts.get("fault") for r in rows_rb))
    ctx.ob(R4, rb.qual, "the failed-tell marker is tested", any(r.cmp(POS, "is", FAILED) is True for r in rows_rb), "" if any(r.cmp(POS, "is", FAILED) is True for r in rows_rb) else "no path distinguishes _FAILEDTELL")
    # ---- set_file_position
    rows_s = effect_rows(ctx, sfp, GenRule(ctx, sfp.module, raising=raising, quiet=("log.debug",), inline=set(helper_closure(m, [sfp])) - {sfp.qual} - {rb.qual}), None)
    SP, SB = f"p:{sfp.params()[1]}", f"p:{sfp.params()[0]}"
    TELLATTR = T("getattr", SB, K("tell"), "None")
    n = 0
    seen_s = set()
    uncovered = []
    for r in rows_s:
        pos_none = r.is_none(SP)
        rew = [[a_ for a_ in e_[2:] if isinstance(a_, str)] for e_ in r.events("call") if e_[1] == "rewind_body"]
        if pos_none is None:
            # decided by type instead of by None-ness: an int is a position; "not an int" still includes the failed-tell marker,
            # which is a recorded position too (it must reach rewind_body, whose job it is to refuse it)
            isi = [v_ for k_, v_ in r.st.ts.items() if isinstance(k_, tuple) and k_ and k_[0] == "isinst" and k_[1] == SP]
            if isi and isi[-1] is True:
                pos_none = False
            elif isi and isi[-1] is False:
                kq = ("not-int", r.out, tuple(map(tuple, rew)))
                if kq not in seen_s:
                    seen_s.add(kq)
                    n += 1
                    okq = bool(rew) or r.out == "raise:UnrewindableBodyError"
                    ctx.ob(R4, sfp.qual, "a recorded position that is not an int (the failed-tell marker) still reaches rewind_body", okq,
                           "" if okq else "the marker left by a failed tell() is treated like 'no position yet': tell() is tried again, fails again, and the resend goes out with an empty body instead of UnrewindableBodyError",
                           witness=r.witness(), node=sfp.node)
                continue
        has_tell = r.is_none(TELLATTR)
        has_tell = (not has_tell) if has_tell is not None else (r.truth(T("hasattr", SB, K("tell"))))
        key = (r.out, pos_none, tuple(map(tuple, rew)), has_tell, r.ret, r.st.ts.get("fault"))
        if key in seen_s:
            continue
        seen_s.add(key)
        if pos_none is False:
            n += 1
            if r.returns:
                ctx.ob(R4, sfp.qual, "a given position => rewind_body is called", rew == [[SB, SP]], f"rewind calls {rew}", witness=r.witness(), node=sfp.node)
                keeps = r.ret == SP
                ctx.ob(R4, sfp.qual, "a given position is handed back unchanged (so the next resend rewinds to the same place)", keeps,
                       "" if keeps else "after the first rewind the recorded start position is forgotten: a second resend records the end of the file as its start and sends an empty body", witness=r.witness(), node=sfp.node)
            else:
                ok = r.out == "raise:UnrewindableBodyError"
                ctx.ob(R4, sfp.qual, f"a given position that cannot be rewound to: {r.out}", ok, witness=r.witness(), node=sfp.node)
        elif pos_none is True and r.returns:
            if has_tell is True:
                fault = r.st.ts.get("fault")
                ok = (r.ret == FAILED) if fault else (r.ret == T(f"{SB}.tell"))
                ctx.ob(R4, sfp.qual, f"first attempt on a body with tell(): position recorded or marked failed ({'tell() failed -> ' if fault else ''}{r.ret[:50]})", ok, witness=r.witness(), node=sfp.node)
            else:
                if r.ret in ("None", SP):
                    uncovered.append(r)
    ctx.sites(R4, n, 1, "set_file_position rows with a position")
    ctx.ob(R4, sfp.qual, "a failing tell() is remembered as the failed-tell marker", any(r.returns and r.ret == FAILED and r.st.ts.get("fault") for r in rows_s))

    # ------------------------------------------------------------------ R5 classifier agreement
    R5 = ctx.rule("C11-R5", "classifier agreement: every body kind that body_to_chunks turns into a one-shot chunk source (generator over read(), iter(body)) gets a rewind position or the failed-tell marker from set_file_position on the first attempt", "sibling cross-check on effect rows")
    # rows of set_file_position with no position yet and no tell(): what do they say about read() / iterability, and what do they return?
    READ = T("hasattr", SB, K("read"))
    unc_read = [r for r in uncovered if r.truth(READ) is not False and r.is_none(T("getattr", SB, K("read"), "None")) is not True]
    unc_iter = [r for r in uncovered if r.truth(READ) is not True]
    covers_read_without_tell = not unc_read
    covers_iterables = not unc_iter
    ctx.ob(R5, sfp.qual, "file-like body without tell() gets a position or the failed marker", covers_read_without_tell,
           "" if covers_read_without_tell else "only a body with tell() gets a position: a file-like body without tell() yields None, is consumed by the first attempt and re-sent empty on retry instead of raising UnrewindableBodyError",
           witness=unc_read[0].witness() if unc_read else None, node=sfp.node)
    ctx.ob(R5, sfp.qual, "iterator/generator body gets the failed marker", covers_iterables,
           "" if covers_iterables else "an iterator/generator body yields position None: after a retry/307 the exhausted iterator is re-sent as an empty body instead of raising UnrewindableBodyError",
           witness=unc_iter[0].witness() if unc_iter else None, node=sfp.node)


def rule_r6(ctx):
    """C11-R6 (shared with C10): the declared length is measured on the very object that is sent."""
    m, fold = ctx.model, ctx.fold
    # ------------------------------------------------------------------ R6 length is measured on what is sent
    R6 = ctx.rule("C11-R6", "body_to_chunks: per body kind, a non-None content_length is len()/nbytes of the very object placed in chunks (after str->bytes), 0 for no body with a body-expecting method, None otherwise / for one-shot sources", "E4 provenance")
    btc = m.func(f"{RQ}.body_to_chunks")
    from ..rows import GenRule, effect_rows
    from ..terms import K, T, destruct

    from ..rows import helper_closure as _hc6
    # private helpers that are not generators (an extracted `iter(body)` with its error message, ...) are interpreted in place
    inl6 = frozenset(q_ for q_ in _hc6(m, [btc]) - {btc.qual}
                     if not any(isinstance(n_, (ast.Yield, ast.YieldFrom)) for n_ in astq.walk_fn(m.funcs[q_].node)))
    rows = [r for r in effect_rows(ctx, btc, GenRule(ctx, btc.module, inline=inl6, raising={"memoryview": "builtins.TypeError", "iter": "builtins.TypeError"}), None) if r.returns]
    B = f"p:{btc.params()[0]}"
    seen = set()
    for r in rows:
        op, args = destruct(r.ret or "")
        if op != "new:ChunksAndContentLength":
            ctx.ob(R6, btc.qual, f"returns a ChunksAndContentLength ({(r.ret or '')[:60]})", False, witness=r.witness(), node=btc.node)
            continue
        kw = {}
        for i_, a_ in enumerate(args):
            if a_.startswith("chunks="):
                kw["chunks"] = a_[7:]
            elif a_.startswith("content_length="):
                kw["content_length"] = a_[15:]
            else:
                kw[("chunks", "content_length")[i_] if i_ < 2 else str(i_)] = a_
        ch, cl = kw.get("chunks"), kw.get("content_length")
        body_none = r.is_none(B)
        strb = r.isinst(B, "str", "bytes")
        if strb is None:
            # isinstance(body, str) or isinstance(body, bytes): two tests instead of one
            parts_ = {}
            for k_, v_ in r.st.ts.items():
                if isinstance(k_, tuple) and k_ and k_[0] == "isinst" and k_[1] == B and len(k_[2]) == 1 and k_[2][0] in ("builtins.str", "builtins.bytes"):
                    parts_[k_[2][0]] = v_
            if any(parts_.values()):
                strb = True
            elif len(parts_) == 2:
                strb = False
        has_read = r.truth(T("hasattr", B, K("read")))
        if has_read is None and r.is_none(T("getattr", B, K("read"), "None")) is not None:
            has_read = not r.is_none(T("getattr", B, K("read"), "None"))
        key = (body_none, strb, has_read, ch, cl)
        if key in seen:
            continue
        seen.add(key)
        if body_none is True:
            in_set = None
            for k_, v_ in r.st.ts.items():
                if isinstance(k_, tuple) and len(k_) == 4 and k_[0] == "cmp" and k_[2] == "in" and k_[1] == T("upper", f"p:{btc.params()[1]}") and k_[3] in ("g:_METHODS_NOT_EXPECTING_BODY", ) + tuple(x for x in (K(frozenset(fold.need(RQ, "_METHODS_NOT_EXPECTING_BODY"))),)):
                    in_set = v_
            want_cl = "None" if in_set is True else ("0" if in_set is False else "?")
            ok = ch == "None" and cl == want_cl
            what = f"no body, method-expects-no-body={in_set}: chunks None, length {want_cl}"
        elif strb is True:
            X = T("to_bytes", B)
            ok = ch == T("tuple", X) and cl == T("len", X)
            what = "str/bytes: one chunk of bytes, length = len of that chunk"
        elif has_read is True:
            opc, ac = destruct(ch or "")
            is_gen = False
            if opc and opc.startswith("nested:"):
                is_gen = True
            elif opc and f"{btc.module}.{opc}" in m.funcs:
                gf = m.funcs[f"{btc.module}.{opc}"]
                is_gen = any(isinstance(n_, (ast.Yield, ast.YieldFrom)) for n_ in astq.walk_fn(gf.node)) and B in ac
            ok = is_gen and cl == "None"
            what = "file-like: generator over read(), length unknown"
        elif destruct(ch or "")[0] == "tuple":
            ok = ch == T("tuple", B) and cl == f"{T('memoryview', B)}.nbytes" and not r.st.ts.get("fault")
            what = "buffer: the object itself, length = memoryview(body).nbytes"
        else:
            ok = ch == T("iter", B) and cl == "None"
            what = "iterable: iter(body), length unknown"
        ctx.ob(R6, btc.qual, f"{what}", ok, "" if ok else f"chunks={ch} content_length={cl}: the declared length is not measured on what is sent", witness=r.witness(), node=btc.node)
    ctx.sites(R6, len(seen), 5, "body kinds of body_to_chunks")


# ---------------------------------------------------------------------------- R8 (added after seeded change C11/short-read-taken-for-eof)
def _run_r8(ctx):
    from ..model import FuncInfo
    from ..rows import GenRule, effect_rows
    from ..terms import K, T, destruct, subterms

    m = ctx.model
    R8 = ctx.rule("C11-R8", "a file body is read to its end: the block reader inside body_to_chunks stops only when a read returned nothing (a short read is not end-of-file: raw streams, pipes and sockets return what they have), and every block it read is yielded (UTF-8 encoded for text files)", "E10 effect rows of the nested reader generator")
    btc = m.func("urllib3.util.request.body_to_chunks")
    def reads(n):
        return any(isinstance(c, ast.Call) and isinstance(c.func, ast.Attribute) and c.func.attr == "read" for c in ast.walk(n))

    inner = [n for n in ast.walk(btc.node) if isinstance(n, (ast.FunctionDef,)) and n is not btc.node and reads(n)]
    # a reader hoisted to module level (a generator function body_to_chunks calls) is the same reader
    for c in astq.calls(btc.node):
        if isinstance(c.func, ast.Name):
            gf = m.funcs.get(f"{btc.module}.{c.func.id}")
            if gf is not None and gf.cls is None and reads(gf.node) and any(isinstance(n_, (ast.Yield, ast.YieldFrom)) for n_ in astq.walk_fn(gf.node)) and gf.node not in inner:
                inner.append(gf.node)
    ctx.sites(R8, len(inner), 1, "block readers of body_to_chunks (nested or hoisted generators)")

    class Reader(GenRule):
        def call_hook(self, it, st, node, recv, pos, kw):
            f = node.func
            if isinstance(f, ast.Attribute) and f.attr == "read":
                s = st.copy()
                n = (s.ts.get("reads", 0) + 1) % 2
                s.ts["reads"] = n
                sym = T("block", str(n))  # a fresh value per read (two generations are enough for the loop fixpoint)
                s.facts.pop(sym, None)
                s.ts["last_block"] = sym
                s.ts["pending"] = sym
                return [Out("normal", s, AV("unk", sym=sym))]
            return super().call_hook(it, st, node, recv, pos, kw)

        def on_yield(self, it, stmt, av, outs):
            from ..terms import term_of
            res = []
            for o in outs:
                if o.kind != "normal":
                    continue
                t = term_of(av)
                gen = t.replace("block(0)", "block(*)").replace("block(1)", "block(*)")
                ys = set(o.st.ts.get("yields", ()))
                ys.add(gen)
                o.st.ts["yields"] = tuple(sorted(ys))  # a set, so that the loop reaches a fixpoint
                lb = o.st.ts.get("pending")
                if lb and (t == lb or lb in list(subterms(t))):
                    o.st.ts["pending"] = None
                res.append(o)
            return res

    from ..interp import AV, Out
    for node in inner:
        fi = FuncInfo(qual=f"{btc.qual}.{node.name}", module=btc.module, cls=None, name=node.name, node=node)
        rows = [r for r in effect_rows(ctx, fi, Reader(ctx, btc.module), None) if r.returns]
        ends = 0
        seen = set()
        for r in rows:
            lb = r.st.ts.get("last_block")
            empty = r.truth(lb) if lb else None
            pend = r.st.ts.get("pending")
            key = (empty, bool(pend), r.st.ts.get("yields", ()))
            if key in seen:
                continue
            seen.add(key)
            ends += 1
            ok = empty is False
            ctx.ob(R8, fi.qual, f"the reader ends with the last read known empty={empty is False}", ok,
                   "" if ok else "the reader stops after a read that returned data (e.g. on a short read): the rest of the file is never sent, the request is framed as complete", witness=r.witness(), node=node)
        ctx.sites(R8, ends, 1, f"ways {node.name} ends")
        ys = sorted({y for r in rows for y in r.st.ts.get("yields", ())})
        oky = bool(ys) and all("block(*)" in y for y in ys)
        ctx.ob(R8, fi.qual, "every yield hands on a block that was read (possibly encoded)", oky, str(ys[:3]))


_run_base11 = run


def run(ctx):  # noqa: F811
    _run_base11(ctx)
    _run_r8(ctx)
