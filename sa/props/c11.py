"""C11 - request bodies are framed exactly and re-sent identically."""
from __future__ import annotations

import ast
import itertools

from .. import astq
from ..events import outcome_name, run_function
from ..interp import AV, BASE_TOP, EXT_TOP, UNK, BaseRule, Out, const, exc
from ..model import AnalysisError
from . import resend

CN = "urllib3.connection"
CP = "urllib3.connectionpool"
PM = "urllib3.poolmanager"
RQ = "urllib3.util.request"
HC = f"{CN}.HTTPConnection"


class FrameRule(BaseRule):
    """request(): classify framing headers and body sends."""

    def __init__(self, chunks_kind, cl_kind):
        self.chunks_kind, self.cl_kind = chunks_kind, cl_kind

    def getattr(self, it, st, node, base):
        is_res = base.kind == "obj" and base.val == "chunks_and_cl"
        if is_res and node.attr == "chunks":
            return const(None) if self.chunks_kind == "none" else AV("obj", "chunks", truth=True, none=False)
        if is_res and node.attr == "content_length":
            return const(None) if self.cl_kind == "none" else AV("unk", sym="content_length", none=False, tags=frozenset({"content_length"}))
        return None

    def for_iter(self, it, st, stmt, itv):
        if itv.kind == "obj" and itv.val == "chunks":
            n = st.ts.get("chunk_iters", 0)
            if n >= 1:
                return [(st.copy(), False)]
            s = st.copy()
            s.ts["chunk_iters"] = n + 1
            s.ts["chunk_var"] = ast.unparse(stmt.target)
            it.assign(s, stmt.target, AV("unk", sym="chunk", tags=frozenset({"chunk"})))
            return [(s, True), (st.copy(), False)]
        # header loop: one symbolic iteration, not interesting
        s = st.copy()
        k = ("hl", stmt.lineno)
        if st.ts.get(k):
            return [(st.copy(), False)]
        s.ts[k] = True
        it.assign(s, stmt.target, UNK)
        return [(s, True), (st.copy(), False)]

    def call(self, it, st, node, recv, pos, kw):
        t = ast.unparse(node.func)
        if t == "frozenset":
            return [Out("normal", st, AV("unk", sym="header_keys", none=False))]
        if t == "self.putheader":
            name = pos[0].val if pos and pos[0].kind == "const" else "?"
            s = st.copy()
            if isinstance(name, str) and name.lower() in ("transfer-encoding", "content-length"):
                val = pos[1] if len(pos) > 1 else UNK
                s.ts["framing"] = s.ts.get("framing", ()) + ((name.lower(), val.val if val.kind == "const" else tuple(sorted(val.tags))),)
            return [Out("normal", s, const(None))]
        if t == "self.send":
            s = st.copy()
            a = node.args[0]
            txt = ast.unparse(a)
            if isinstance(a, ast.Constant) and a.value == b"0\r\n\r\n":
                s.ts["sends"] = s.ts.get("sends", ()) + ("terminator",)
            elif isinstance(a, ast.BinOp) and isinstance(a.op, ast.Mod) and isinstance(a.left, ast.Constant) and a.left.value == b"%x\r\n%b\r\n":
                elts = [ast.unparse(e) for e in a.right.elts] if isinstance(a.right, ast.Tuple) else []
                s.ts["sends"] = s.ts.get("sends", ()) + ("chunk-framed:" + ",".join(elts),)
            elif isinstance(a, ast.Name):
                s.ts["sends"] = s.ts.get("sends", ()) + ("raw:" + ("chunk" if a.id == st.ts.get("chunk_var") else a.id),)
            else:
                s.ts["sends"] = s.ts.get("sends", ()) + ("other:" + txt[:30],)
            # chunk emptiness / encoding facts at send time
            ch = st.env.get(it.var(st.ts.get("chunk_var", "chunk")))
            if ch is not None:
                chv = st.view(ch)
                s.ts["chunk_truth_at_send"] = chv.truth
                s.ts["chunk_tags_at_send"] = tuple(sorted(chv.tags))
            return [Out("normal", s, const(None))]
        if t == "str" and pos:
            return [Out("normal", st, AV("unk", tags=frozenset(pos[0].tags | {"str"}), none=False))]
        if isinstance(node.func, ast.Attribute) and node.func.attr == "encode" and recv is not None and "chunk" in recv.tags:
            return [Out("normal", st, AV("unk", sym=recv.sym, tags=frozenset(recv.tags | {"utf8-encoded:" + (str(pos[0].val) if pos and pos[0].kind == "const" else "?")}), typ="builtins.bytes"))]
        if t == "body_to_chunks":
            return [Out("normal", st, AV("obj", "chunks_and_cl", truth=True, none=False))]
        if t in ("self.putrequest", "self.endheaders", "_ResponseOptions", "to_str", "_get_default_user_agent", "self.sock.settimeout", "headers.items"):
            return [Out("normal", st, UNK)]
        return [Out("normal", st, UNK)]


def run(ctx):
    m, fold = ctx.model, ctx.fold
    ctx.assume("A1", "A5")
    ctx.decline("payload byte equality (the framed payload equals the body's bytes); decided instead: which framing is chosen for which body kind, the chunk-encoding structure, and that every resend threads body and recorded position")

    # ------------------------------------------------------------------ R1 framing table
    R1 = ctx.rule("C11-R1", "framing decision table of HTTPConnection.request over chunked flag x caller Content-Length/Transfer-Encoding x body shape: caller framing is respected; otherwise exactly one of Content-Length / Transfer-Encoding: chunked, nothing for body-less requests whose method expects no body and Content-Length: 0 for the others; the send mode follows the framing", "E5")
    rq = m.method(HC, "request")
    rows = {}
    steps = 0
    for chunks_kind, cl_kind in (("none", "none"), ("none", "value"), ("some", "value"), ("some", "none")):
        rule = FrameRule(chunks_kind, cl_kind)
        outs, it = run_function(m, rq, rule, HC, params={"chunked": AV("unk", sym="p:chunked"), "headers": AV("unk", sym="p:headers", truth=True, none=False)},
                                seeds={("self", "sock"): const(None)}, record_decisions=True)
        steps += it.budget.steps
        for o in outs:
            if o.kind == "raise":
                continue
            ts = o.st.ts
            ch = o.st.facts.get("p:chunked", (None, None))[0]
            has_cl = ts.get(("cmp", "'content-length'", "in", "header_keys"))
            has_te = ts.get(("cmp", "'transfer-encoding'", "in", "header_keys"))
            framing = tuple(x[0] for x in ts.get("framing", ()))
            sends = ts.get("sends", ())
            looped = ts.get("chunk_iters", 0)
            key = (chunks_kind, cl_kind, ch, has_cl, has_te, framing, tuple(s.split(":")[0] for s in sends), looped)
            rows.setdefault(key, o)
    ctx.states += steps
    ctx.sites(R1, len(rows), 12, "rows of the framing table")
    for key, o in sorted(rows.items(), key=str):
        chunks_kind, cl_kind, ch, has_cl, has_te, framing, sends, looped = key
        want_framing = None
        want_chunked = None
        if ch is True:
            want_framing = () if has_te is True else ("transfer-encoding",)
            want_chunked = True
        elif ch is False:
            if has_cl is True:
                want_framing, want_chunked = (), False
            elif has_te is True:
                want_framing, want_chunked = (), True
            elif has_cl is False and has_te is False:
                if cl_kind == "none":
                    if chunks_kind == "some":
                        want_framing, want_chunked = ("transfer-encoding",), True
                    else:
                        want_framing, want_chunked = (), False
                else:
                    want_framing, want_chunked = ("content-length",), False
        if want_framing is None:
            ctx.ob(R1, rq.qual, f"row {key[:5]}: framing decided on all of chunked flag / caller CL / caller TE", False,
                   "a path emits framing without having consulted the caller's framing headers", witness=o.st.witness(), node=rq.node)
            continue
        okf = framing == want_framing
        body_sends = tuple(s for s in sends if s != "terminator")
        term = sends.count("terminator")
        okm = (term == (1 if want_chunked else 0)) and (sends[-1] == "terminator" if want_chunked else True)
        if looped and chunks_kind == "some":
            okm = okm and all((s == "chunk-framed") == want_chunked for s in body_sends)
        desc = f"chunks={chunks_kind} length={cl_kind} chunked={ch} callerCL={has_cl} callerTE={has_te}"
        ctx.ob(R1, rq.qual, f"[{desc}] emits {framing or 'no framing header'}; sends {sends}", okf and okm,
               "" if (okf and okm) else f"expected framing {want_framing}, chunked-mode {want_chunked}: the message would carry both/neither framing or its body encoding would not match its headers", witness=o.st.witness(), node=rq.node)
    # Content-Length value is the measured length
    for key, o in rows.items():
        for name, val in o.st.ts.get("framing", ()):
            if name == "content-length":
                ok = isinstance(val, tuple) and "content_length" in val and "str" in val
                ctx.ob(R1, rq.qual, "Content-Length value is str(content_length) from body_to_chunks", ok, f"value provenance {val}", node=rq.node)
                break
        else:
            continue
        break
    nb = fold.need(RQ, "_METHODS_NOT_EXPECTING_BODY")
    ctx.ob(R1, RQ, f"_METHODS_NOT_EXPECTING_BODY contains GET, HEAD, DELETE, OPTIONS", {"GET", "HEAD", "DELETE", "OPTIONS"} <= set(nb) and "POST" not in nb and "PUT" not in nb and "PATCH" not in nb, str(sorted(nb)))
    btc_call = [c for c in astq.calls(rq.node) if astq.call_text(c) == "body_to_chunks"]
    ok = len(btc_call) == 1 and astq.text(btc_call[0].args[0]) == "body" and astq.text(astq.kwarg(btc_call[0], "method")) == "method"
    ctx.ob(R1, rq.qual, "body_to_chunks(body, method=method, ...) classifies this request's body", ok)

    # ------------------------------------------------------------------ R2 chunk encoding
    R2 = ctx.rule("C11-R2", "chunk encoding: empty chunks are skipped, str chunks are UTF-8 encoded before they are measured, the size prefix is the hex length of the very bytes sent, the terminator is sent once after the loop iff chunked", "E4")
    n2 = 0
    for key, o in rows.items():
        sends_full = o.st.ts.get("sends", ())
        for s in sends_full:
            if s.startswith("chunk-framed:"):
                n2 += 1
                parts = s.split(":", 1)[1].split(",")
                ok = len(parts) == 2 and parts[0] == f"len({parts[1]})"
                ctx.ob(R2, rq.qual, f"chunk frame is (len(x), x) of one object: {parts}", ok, "" if ok else "the size line does not measure the bytes that follow", node=rq.node)
                break
        if n2:
            break
    ctx.sites(R2, n2, 1, "chunk-framed sends")
    empt = [o for o in rows.values() if o.st.ts.get("chunk_truth_at_send") is not True and any(s.startswith(("chunk-framed", "raw:chunk")) for s in o.st.ts.get("sends", ()))]
    ctx.ob(R2, rq.qual, "a chunk is sent only when non-empty", not empt, "" if not empt else "an empty chunk in chunked mode ends the body early", witness=empt[0].st.witness() if empt else None, node=rq.node)
    # str -> utf-8 before measuring
    chunk_srcs = set(astq.assigned_from(rq.node, lambda v: isinstance(v, ast.Attribute) and v.attr == "chunks"))
    loop = [n for n in astq.walk_fn(rq.node) if isinstance(n, ast.For) and isinstance(n.iter, ast.Name) and n.iter.id in chunk_srcs]
    ok = False
    if loop:
        body = loop[0].body
        cv = astq.text(loop[0].target)
        enc_i = [i for i, s in enumerate(body) if isinstance(s, ast.If) and astq.text(s.test) == f"isinstance({cv}, str)"
                 and any(astq.text(x).replace('"', "'") == f"{cv} = {cv}.encode('utf-8')" for x in s.body)]
        send_i = [i for i, s in enumerate(body) if any(astq.call_text(c) == "self.send" for c in astq.calls(s))]
        ok = bool(enc_i) and bool(send_i) and enc_i[0] < send_i[0]
    ctx.ob(R2, rq.qual, "str chunks are UTF-8 encoded before being measured and sent", ok)

    rule_r6(ctx)

    # ------------------------------------------------------------------ R3 position threading
    R3 = ctx.rule("C11-R3", "every resend passes on the body it sent (None only after 303) and the position recorded by set_file_position before the first attempt", "E6 sibling cross-check")
    for which in ("pool", "manager"):
        rule, fi, outs = resend.analyse(ctx, which)
        sites = [s for s in rule.sites if s.kind == "resend"]
        seen = set()
        for s in sites:
            bp = s.args.get("body_pos")
            body = s.args.get("body")
            key = (s.node.lineno, tuple(sorted(bp.tags)) if bp is not None else None, body is not None and body.kind == "const")
            if key in seen:
                continue
            seen.add(key)
            if which == "pool":
                ok = bp is not None and ("filepos" in bp.tags or (bp.kind == "const" and bp.val is None and body is not None and body.kind == "const" and body.val is None))
                ctx.ob(R3, fi.qual, f"resend passes body_pos recorded by set_file_position ({sorted(bp.tags) if bp is not None else 'absent'})", ok,
                       "" if ok else "the retry/redirect does not rewind the body: a partially consumed file is re-sent from where the first attempt stopped", witness=s.st.witness(), node=s.node)
            else:
                has = bp is not None
                ctx.ob(R3, fi.qual, "resend passes no body_pos", has,
                       "" if has else "PoolManager.urlopen resends **kw without the position recorded by the pool-level call: after a cross-host 307/308 a seekable body is re-sent from its end (empty)", witness=s.st.witness(), node=s.node)
        ctx.sites(R3, len(seen), 1, f"resend sites in {fi.qual}")
    # body and position travel together (a position without its body makes rewind_body raise ValueError on the body-less follow-up)
    R7 = ctx.rule("C11-R7", "body and recorded position travel together: a resend whose body is None (after a 303) carries no position", "E6 sibling cross-check")
    for which in ("pool", "manager"):
        rule, fi, outs = resend.analyse(ctx, which)
        seen7 = set()
        for s in [x for x in rule.sites if x.kind == "resend"]:
            body, bp = s.args.get("body"), s.args.get("body_pos")
            if body is None or not (body.kind == "const" and body.val is None):
                continue
            key = (s.node.lineno, bp.val if bp is not None and bp.kind == "const" else (tuple(sorted(bp.tags)) if bp is not None else None))
            if key in seen7:
                continue
            seen7.add(key)
            ok = bp is None or (bp.kind == "const" and bp.val is None)
            ctx.ob(R7, fi.qual, f"body-less resend carries body_pos={key[1]}", ok,
                   "" if ok else "set_file_position(None, pos) -> rewind_body(None, pos) raises ValueError('body_pos must be of type integer'): a 303 after a request with a seekable body fails with a raw builtin error", witness=s.st.witness(), node=s.node)
        if which == "pool":
            ctx.sites(R7, len(seen7), 1, "body-less (303) resend paths")
    prule, pfi, pouts = resend.analyse(ctx, "pool")
    txt = astq.text(pfi.node)
    ctx.ob(R3, pfi.qual, "the position is recorded before the first attempt: body_pos = set_file_position(body, body_pos) precedes the request", "body_pos = set_file_position(body, body_pos)" in txt)
    reqs = [s for s in prule.sites if s.kind == "request"]
    okb = all("entry:body" in s.args["body"].tags for s in reqs if "body" in s.args) and reqs
    ctx.ob(R3, pfi.qual, "the body sent is the caller's body object", bool(okb))

    # ------------------------------------------------------------------ R4 rewind-or-refuse
    R4 = ctx.rule("C11-R4", "rewind or refuse: with a recorded position the body is seek()ed or UnrewindableBodyError is raised; a failed tell() (_FAILEDTELL) always refuses", "E5 on set_file_position / rewind_body")
    sfp = m.func(f"{RQ}.set_file_position")
    rb = m.func(f"{RQ}.rewind_body")

    class RW(BaseRule):
        def call(self, it, st, node, recv, pos, kw):
            t = ast.unparse(node.func)
            if t == "getattr":
                return [Out("normal", st, AV("unk", sym="attr:" + ast.unparse(node.args[1])))]
            fv = st.view(st.env.get(it.var(node.func.id))) if isinstance(node.func, ast.Name) and it.var(node.func.id) in st.env else None
            if fv is not None and fv.sym == "attr:'seek'":
                s = st.copy()
                s.ts["seeked"] = tuple(sorted(pos[0].tags)) if pos else ()
                return [Out("normal", s, UNK), Out("raise", st.copy(), exc("builtins.OSError"))]
            if t == "body.tell":
                return [Out("normal", st, AV("unk", tags=frozenset({"tell"}), none=False)), Out("raise", st.copy(), exc("builtins.OSError"))]
            if t == "rewind_body":
                s = st.copy()
                s.ts["rewind_called"] = True
                return [Out("normal", s, const(None)), Out("raise", st.copy(), exc("urllib3.exceptions.UnrewindableBodyError"))]
            if t == "type":
                return [Out("normal", st, UNK)]
            q = it.resolve_callee(node, recv)
            if q and it.m.is_exception_class(q):
                return [Out("normal", st, AV("exc", it.m.norm(q), truth=True, none=False))]
            return [Out("normal", st, UNK)]

        def global_value(self, it, name):
            if name == "_FAILEDTELL":
                return AV("const", ("enum", "_FAILEDTELL"), truth=True, none=False)
            return None

    # rewind_body with an int position
    outs, it = run_function(m, rb, RW(), params={"body_pos": AV("unk", sym="pos", tags=frozenset({"pos"}), none=False, typ="builtins.int")}, record_decisions=True)
    kinds = set()
    for o in outs:
        seek_known = o.st.facts.get("attr:'seek'", (None, None))[1]
        if o.kind in ("normal", "return"):
            ok = o.st.ts.get("seeked") == ("pos",)
            ctx.ob(R4, rb.qual, f"int position: normal exit only after seek(body_pos)", ok, "" if ok else "rewind_body returns without having rewound", witness=o.st.witness(), node=rb.node)
        elif o.val.val not in (EXT_TOP.val, BASE_TOP.val):
            kinds.add(o.val.val.rsplit(".", 1)[-1])
    ctx.ob(R4, rb.qual, f"int position: failures are {sorted(kinds)}", kinds <= {"UnrewindableBodyError", "ValueError"} and "UnrewindableBodyError" in kinds)
    outs, it = run_function(m, rb, RW(), params={"body_pos": AV("const", ("enum", "_FAILEDTELL"), truth=True, none=False)}, record_decisions=True)
    oks = [o for o in outs if o.kind != "raise"]
    ctx.ob(R4, rb.qual, "_FAILEDTELL never rewinds silently: every path raises", not oks and all(o.val.val.endswith("UnrewindableBodyError") for o in outs if o.val.val not in (EXT_TOP.val, BASE_TOP.val)),
           "" if not oks else "a body whose position could not be recorded is re-sent as if rewound", witness=oks[0].st.witness() if oks else None, node=rb.node)
    un = [o for o in outs if o.kind == "raise" and o.val.val.endswith("UnrewindableBodyError")]
    ctx.ob(R4, rb.qual, "_FAILEDTELL raises UnrewindableBodyError", bool(un))
    # set_file_position
    outs, it = run_function(m, sfp, RW(), record_decisions=True)
    n = 0
    seen_ret = set()
    for o in outs:
        pos_none = o.st.facts.get("p:pos", (None, None))[1]
        if pos_none is False and o.kind != "raise":
            n += 1
            v = o.st.view(o.val) if o.val is not None else None
            keeps = v is not None and v.sym == "p:pos"
            key = (bool(o.st.ts.get("rewind_called")), keeps)
            if key in seen_ret:
                continue
            seen_ret.add(key)
            ctx.ob(R4, sfp.qual, "a given position => rewind_body is called", bool(o.st.ts.get("rewind_called")), witness=o.st.witness(), node=sfp.node)
            ctx.ob(R4, sfp.qual, "a given position is handed back unchanged (so the next resend rewinds to the same place)", keeps,
                   "" if keeps else "after the first rewind the recorded start position is forgotten: a second resend records the end of the file as its start and sends an empty body", witness=o.st.witness(), node=sfp.node)
    for o in outs:
        if o.kind == "return" and o.st.facts.get("p:pos", (None, None))[1] is True and o.st.facts.get("attr:'tell'", (None, None))[1] is False:
            v = o.st.view(o.val)
            ok = "tell" in v.tags or (v.kind == "const" and v.val == ("enum", "_FAILEDTELL"))
            ctx.ob(R4, sfp.qual, f"first attempt on a body with tell(): position recorded or marked failed ({'tell' if 'tell' in v.tags else v.val})", ok, witness=o.st.witness(), node=sfp.node)
    ctx.sites(R4, n, 1, "set_file_position rows with a position")

    # ------------------------------------------------------------------ R5 classifier agreement
    R5 = ctx.rule("C11-R5", "classifier agreement: every body kind that body_to_chunks turns into a one-shot chunk source (generator over read(), iter(body)) gets a rewind position or the failed-tell marker from set_file_position on the first attempt", "sibling cross-check")
    # one-shot kinds per R6 rows: file-like (has read) and iterable. set_file_position records only when the body has tell().
    tell_gate = [n_ for n_ in astq.walk_fn(sfp.node) if isinstance(n_, ast.If) and "tell" in astq.text(n_.test)]
    gate_txt = astq.text(tell_gate[0].test) if tell_gate else ""
    covers_read_without_tell = False
    covers_iterables = False
    for n_ in astq.walk_fn(sfp.node):
        if isinstance(n_, ast.If):
            t = astq.text(n_.test)
            if "'read'" in t.replace('"', "'") or "hasattr(body, 'read')" in t.replace('"', "'"):
                covers_read_without_tell = True
            if "iter(" in t or "Iterable" in t or "__iter__" in t or "__next__" in t:
                covers_iterables = True
    ctx.ob(R5, sfp.qual, "file-like body without tell() gets a position or the failed marker", covers_read_without_tell,
           "" if covers_read_without_tell else f"only `{gate_txt}` records a position: a file-like body without tell() yields None, is consumed by the first attempt and re-sent empty on retry instead of raising UnrewindableBodyError", node=sfp.node)
    ctx.ob(R5, sfp.qual, "iterator/generator body gets the failed marker", covers_iterables,
           "" if covers_iterables else "an iterator/generator body yields position None: after a retry/307 the exhausted iterator is re-sent as an empty body instead of raising UnrewindableBodyError", node=sfp.node)


def rule_r6(ctx):
    """C11-R6 (shared with C10): the declared length is measured on the very object that is sent."""
    m, fold = ctx.model, ctx.fold
    # ------------------------------------------------------------------ R6 length is measured on what is sent
    R6 = ctx.rule("C11-R6", "body_to_chunks: per body kind, a non-None content_length is len()/nbytes of the very object placed in chunks (after str->bytes), 0 for no body with a body-expecting method, None otherwise / for one-shot sources", "E4 provenance")
    btc = m.func(f"{RQ}.body_to_chunks")

    class BRule(BaseRule):
        def call(self, it, st, node, recv, pos, kw):
            t = ast.unparse(node.func)
            if t == "to_bytes":
                return [Out("normal", st, AV("unk", tags=frozenset(pos[0].tags | {"to_bytes"}), none=False))]
            if t == "len":
                a = pos[0] if pos else UNK
                return [Out("normal", st, AV("unk", tags=frozenset({"len-of:" + ",".join(sorted(a.tags))}), none=False))]
            if t == "hasattr":
                return [Out("normal", st, AV("unk", sym="has:" + ast.unparse(node.args[1])))]
            if t == "memoryview":
                return [Out("normal", st, AV("obj", "mv", truth=True, none=False, tags=frozenset({"mv:" + ast.unparse(node.args[0])}))), Out("raise", st.copy(), exc("builtins.TypeError"))]
            if t == "iter":
                return [Out("normal", st, AV("unk", tags=frozenset({"iter:" + ast.unparse(node.args[0])}), none=False)), Out("raise", st.copy(), exc("builtins.TypeError"))]
            if t == "chunk_readable":
                return [Out("normal", st, AV("unk", tags=frozenset({"generator-over-read"}), none=False))]
            if t == "ChunksAndContentLength":
                s = st.copy()
                s.ts["result"] = (kw.get("chunks", pos[0] if pos else UNK), kw.get("content_length", pos[1] if len(pos) > 1 else UNK))
                return [Out("normal", s, AV("obj", "result", truth=True, none=False))]
            if t == "method.upper":
                return [Out("normal", st, AV("unk", sym="METHOD"))]
            if t == "to_bytes" and not pos:
                return [Out("normal", st, UNK)]
            q = it.resolve_callee(node, recv)
            if q and it.m.is_exception_class(q):
                return [Out("normal", st, AV("exc", it.m.norm(q), truth=True, none=False))]
            return [Out("normal", st, UNK)]

        def global_value(self, it, name):
            if name == "_METHODS_NOT_EXPECTING_BODY":
                return AV("unk", sym="NOBODY_SET", none=False)
            return None

        def getattr(self, it, st, node, base):
            if base.kind == "obj" and base.val == "mv" and node.attr == "nbytes":
                return AV("unk", tags=frozenset({"nbytes-of:" + ",".join(sorted(base.tags))}), none=False)
            return None

    outs, it = run_function(m, btc, BRule(), record_decisions=True)
    seen = set()
    for o in outs:
        if o.kind != "return" or "result" not in o.st.ts:
            continue
        ch, cl = o.st.ts["result"]
        ch, cl = o.st.view(ch), o.st.view(cl)
        body_none = o.st.facts.get("p:body", (None, None))[1]
        strb = o.st.ts.get(("isinst", "p:body", ("builtins.str", "builtins.bytes")))
        has_read = o.st.facts.get("has:'read'", (None, None))[0]
        nobody_m = o.st.ts.get(("cmp", "METHOD", "in", "_METHODS_NOT_EXPECTING_BODY")) if False else None
        key = (body_none, strb, has_read, ch.val if ch.kind == "const" else tuple(sorted(ch.tags)) or ch.kind, cl.val if cl.kind == "const" else tuple(sorted(cl.tags)) or "?")
        if key in seen:
            continue
        seen.add(key)
        if body_none is True:
            in_set = o.st.ts.get(("cmp", "METHOD", "in", "NOBODY_SET"))
            want_cl = None if in_set is True else (0 if in_set is False else "?")
            ok = ch.kind == "const" and ch.val is None and cl.kind == "const" and cl.val == want_cl and not isinstance(cl.val, bool)
            what = f"no body, method-expects-no-body={in_set}: chunks None, length {want_cl}"
            key = key + (in_set,)
        elif strb is True:
            ok = ch.kind == "tuple" and len(ch.val) == 1 and "to_bytes" in ch.val[0].tags and any(t.startswith("len-of:") and "to_bytes" in t for t in cl.tags)
            what = "str/bytes: one chunk of bytes, length = len of that chunk"
        elif has_read is True:
            ok = "generator-over-read" in ch.tags and cl.kind == "const" and cl.val is None
            what = "file-like: generator over read(), length unknown"
        elif ch.kind == "tuple":
            ok = len(ch.val) == 1 and "entry" not in "" and any(t.startswith("nbytes-of:mv:body") for t in cl.tags)
            what = "buffer: the object itself, length = memoryview(body).nbytes"
        else:
            ok = any(t.startswith("iter:body") for t in ch.tags) and cl.kind == "const" and cl.val is None
            what = "iterable: iter(body), length unknown"
        ctx.ob(R6, btc.qual, f"{what}", ok, "" if ok else f"chunks={key[3]} content_length={key[4]}: the declared length is not measured on what is sent", witness=o.st.witness(), node=btc.node)
    ctx.sites(R6, len(seen), 5, "body kinds of body_to_chunks")
    # method gate for the no-body case
    txt = astq.text(btc.node)
    inner = [n for n in ast.walk(btc.node) if isinstance(n, ast.FunctionDef) and n is not btc.node]
    ok = False
    for fn_ in inner:
        flags = astq.assigned_from(fn_, lambda v: isinstance(v, ast.Call) and astq.text(v) == "isinstance(body, io.TextIOBase)")
        for n in ast.walk(fn_):
            if isinstance(n, ast.If) and isinstance(n.test, ast.Name) and n.test.id in flags:
                ok = ok or any(isinstance(x, ast.Assign) and isinstance(x.value, ast.Call) and isinstance(x.value.func, ast.Attribute) and x.value.func.attr == "encode"
                               and astq.text(x.value.func.value) == astq.text(x.targets[0]) and x.value.args and getattr(x.value.args[0], "value", None) == "utf-8" for x in n.body)
    ctx.ob(R6, btc.qual, "text-mode files are UTF-8 encoded block by block", ok)



# ---------------------------------------------------------------------------- R8 (added after seeded change C11/short-read-taken-for-eof)
def _run_r8(ctx):
    from ..model import FuncInfo
    from ..rows import GenRule, effect_rows
    from ..terms import K, T, destruct, subterms

    m = ctx.model
    R8 = ctx.rule("C11-R8", "a file body is read to its end: the block reader inside body_to_chunks stops only when a read returned nothing (a short read is not end-of-file: raw streams, pipes and sockets return what they have), and every block it read is yielded (UTF-8 encoded for text files)", "E10 effect rows of the nested reader generator")
    btc = m.func("urllib3.util.request.body_to_chunks")
    inner = [n for n in ast.walk(btc.node) if isinstance(n, (ast.FunctionDef,)) and n is not btc.node
             and any(isinstance(c, ast.Call) and isinstance(c.func, ast.Attribute) and c.func.attr == "read" for c in ast.walk(n))]
    ctx.sites(R8, len(inner), 1, "block readers nested in body_to_chunks")

    class Reader(GenRule):
        def call_hook(self, it, st, node, recv, pos, kw):
            f = node.func
            if isinstance(f, ast.Attribute) and f.attr == "read":
                s = st.copy()
                n = (s.ts.get("reads", 0) + 1) % 2
                s.ts["reads"] = n
                sym = T("block", str(n))  # a fresh value per read (two generations are enough for the loop fixpoint)
                s.facts.pop(sym, None)
                s.ts["last_block"] = sym
                s.ts["pending"] = sym
                return [Out("normal", s, AV("unk", sym=sym))]
            return super().call_hook(it, st, node, recv, pos, kw)

        def on_yield(self, it, stmt, av, outs):
            from ..terms import term_of
            res = []
            for o in outs:
                if o.kind != "normal":
                    continue
                t = term_of(av)
                gen = t.replace("block(0)", "block(*)").replace("block(1)", "block(*)")
                ys = set(o.st.ts.get("yields", ()))
                ys.add(gen)
                o.st.ts["yields"] = tuple(sorted(ys))  # a set, so that the loop reaches a fixpoint
                lb = o.st.ts.get("pending")
                if lb and (t == lb or lb in list(subterms(t))):
                    o.st.ts["pending"] = None
                res.append(o)
            return res

    from ..interp import AV, Out
    for node in inner:
        fi = FuncInfo(qual=f"{btc.qual}.{node.name}", module=btc.module, cls=None, name=node.name, node=node)
        rows = [r for r in effect_rows(ctx, fi, Reader(ctx, btc.module), None) if r.returns]
        ends = 0
        seen = set()
        for r in rows:
            lb = r.st.ts.get("last_block")
            empty = r.truth(lb) if lb else None
            pend = r.st.ts.get("pending")
            key = (empty, bool(pend), r.st.ts.get("yields", ()))
            if key in seen:
                continue
            seen.add(key)
            ends += 1
            ok = empty is False
            ctx.ob(R8, fi.qual, f"the reader ends with the last read known empty={empty is False}", ok,
                   "" if ok else "the reader stops after a read that returned data (e.g. on a short read): the rest of the file is never sent, the request is framed as complete", witness=r.witness(), node=node)
        ctx.sites(R8, ends, 1, f"ways {node.name} ends")
        ys = sorted({y for r in rows for y in r.st.ts.get("yields", ())})
        oky = bool(ys) and all("block(*)" in y for y in ys)
        ctx.ob(R8, fi.qual, "every yield hands on a block that was read (possibly encoded)", oky, str(ys[:3]))


_run_base11 = run


def run(ctx):  # noqa: F811
    _run_base11(ctx)
    _run_r8(ctx)
