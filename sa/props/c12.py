"""C12 - every way of reading a response yields the same bytes (structural necessary conditions)."""
from __future__ import annotations

import ast

from .. import astq
from ..events import outcome_name, run_function
from ..interp import AV, BASE_TOP, EXT_TOP, UNK, BaseRule, Out, const, exc
from ..model import AnalysisError

RS = "urllib3.response"
HR = f"{RS}.HTTPResponse"


def buffer_field(m):
    """The self.<f> assigned a BytesQueueBuffer() in HTTPResponse.__init__."""
    init = m.method(HR, "__init__")
    for n in astq.walk_fn(init.node):
        if isinstance(n, ast.Assign) and isinstance(n.value, ast.Call) and astq.call_text(n.value) == "BytesQueueBuffer" and astq.is_self_attr(n.targets[0]):
            return n.targets[0].attr
    raise AnalysisError("decoded-byte queue not found: no `self.<f> = BytesQueueBuffer()` in HTTPResponse.__init__")


class ReadRule(BaseRule):
    """Tracks where delivered bytes come from: the raw stream, the decoder, or the decoded-byte queue."""

    def __init__(self, bf):
        self.bf = bf
        self.delivered = []  # (kind, AV, state, node)
        self.decodes = []
        self.decode_data = []  # truthiness of the raw bytes handed to each _decode call (None: may be empty)
        self.gets = []  # (guarded, state, node): a sized get() and whether the queue is known to hold an element there

    def _is_buf(self, node):
        return astq.is_self_attr(node, self.bf)

    def truth_as(self, it, st, node):
        # `if self._decoded_buffer:` / `if not queue_alias:` - the queue defines __len__ and no __bool__, so this is len(queue) > 0
        if not getattr(self, "queue_truth_is_len", False):
            return None
        vals, _ = it.eval(st, node)
        if len(vals) == 1 and vals[0][1].sym == "decoded-queue":
            alt = ast.Compare(left=ast.Call(func=ast.Name(id="len", ctx=ast.Load()), args=[node], keywords=[]), ops=[ast.Gt()], comparators=[ast.Constant(0)])
            ast.copy_location(alt, node)
            ast.fix_missing_locations(alt)
            return alt
        return None

    def getattr(self, it, st, node, base):
        if base.kind == "self" and node.attr == self.bf and isinstance(node.ctx, ast.Load):
            return AV("unk", sym="decoded-queue", none=False)  # the queue, by identity (a local alias keeps it)
        return None

    def call(self, it, st, node, recv, pos, kw):
        t = ast.unparse(node.func)
        f = node.func
        if t in ("self._raw_read", "self._handle_chunk"):
            s = st.copy()
            s.facts.pop("data", None)
            return [Out("normal", s, AV("unk", sym="data", tags=frozenset({"raw"})))]
        if t == "self._decode":
            s = st.copy()
            fl = kw.get("flush_decoder", pos[2] if len(pos) > 2 else None)
            dc = kw.get("decode_content", pos[1] if len(pos) > 1 else None)
            self.decodes.append((st.view(fl) if fl is not None else None, st.view(dc) if dc is not None else None, s, node))
            flv_ = st.view(fl) if fl is not None else None
            if flv_ is not None and (flv_.truth is True or (flv_.kind == "const" and flv_.val is True)):
                s.ts["flushed"] = True
            d0 = kw.get("data", pos[0] if pos else None)
            self.decode_data.append(st.view(d0).truth if d0 is not None else None)
            # decoding with decode_content false returns the raw bytes
            dcv = st.view(dc) if dc is not None else UNK
            tags = {"raw"} if dcv.truth is False else {"decoded"}
            return [Out("normal", s, AV("unk", sym=f"decoded@{node.lineno}", tags=frozenset(tags)))]
        if t == "self._flush_decoder":
            return [Out("normal", st, AV("unk", sym=f"flushed@{node.lineno}", tags=frozenset({"decoded"})))]
        if isinstance(f, ast.Attribute) and (self._is_buf(f.value) or (recv is not None and recv.sym == "decoded-queue")):
            if f.attr == "put":
                s = st.copy()
                a = pos[0] if pos else UNK
                kind = tuple(sorted(a.tags))
                if kind not in s.ts.get("puts", ()):
                    s.ts["puts"] = s.ts.get("puts", ()) + (kind,)
                s.ts["buf_state"] = "maybe-nonempty"
                s.ts["deque"] = "has-element"  # put() appends its argument, empty or not
                g = (s.ts.get("bufgen", 0) + 1) % 2
                s.ts["bufgen"] = g
                sym = f"buflen#{g}"
                s.facts.pop(sym, None)
                for k in [k for k in s.ts if isinstance(k, tuple) and len(k) == 4 and k[0] == "cmp" and (k[1] == sym or k[3] == sym)]:
                    s.ts.pop(k)
                return [Out("normal", s, const(None))]
            if f.attr in ("get", "get_all"):
                s = st.copy()
                if f.attr == "get" and pos:
                    n_ = st.view(pos[0])
                    sym = f"buflen#{st.ts.get('bufgen', 0)}"
                    sized = any(isinstance(k, tuple) and len(k) == 4 and k[0] == "cmp" and ((k[1] == sym and ((k[2] in (">=", ">") and v is True) or (k[2] in ("<", "<=") and v is False)))
                                                                                          or (k[3] == sym and ((k[2] in ("<=", "<") and v is True) or (k[2] in (">", ">=") and v is False))))
                                for k, v in st.ts.items())
                    zero = n_.kind == "const" and n_.val == 0
                    self.gets.append((st.ts.get("deque") == "has-element" or sized or zero or st.facts.get(sym, (None, None))[0] is True, st, node))
                s.ts["deque"] = "unknown"
                if f.attr == "get_all":
                    s.ts["buf_state"] = "empty"
                return [Out("normal", s, AV("unk", sym=f"from-buffer@{node.lineno}", tags=frozenset({"from-buffer"})))]
        if t == "len" and node.args and (self._is_buf(node.args[0]) or (pos and pos[0].sym == "decoded-queue")):
            if st.ts.get("buf_state") == "empty":
                return [Out("normal", st, const(0))]
            return [Out("normal", st, AV("unk", sym=f"buflen#{st.ts.get('bufgen', 0)}"))]
        if t == "len":
            return [Out("normal", st, AV("unk", sym="len:" + ast.unparse(node.args[0]) if node.args else None))]
        if t in ("self._init_decoder", "is_fp_closed", "self.supports_chunked_reads", "self._update_chunk_length", "is_response_to_head",
                 "self._original_response.close", "self._fp.fp.readline", "self._error_catcher"):
            if t == "is_fp_closed":
                return [Out("normal", st, AV("unk", sym=f"fp_closed#{st.ts.get('reads', 0)}"))]
            if t == "self._fp.fp.readline":
                return [Out("normal", st, AV("unk", sym="line"))]
            return [Out("normal", st, UNK)]
        if t in ("self.read", "self.read_chunked"):
            s = st.copy()
            s.ts["reads"] = (s.ts.get("reads", 0) + 1) % 2
            s.facts.pop(f"piece#{s.ts['reads']}", None)
            s.facts.pop(f"fp_closed#{s.ts['reads']}", None)
            return [Out("normal", s, AV("unk", sym=f"piece#{s.ts['reads']}", tags=frozenset({"via-" + t.split(".")[1]})))]
        q = it.resolve_callee(node, recv)
        if q and it.m.is_exception_class(q):
            return [Out("normal", st, AV("exc", it.m.norm(q), truth=True, none=False))]
        if q in it.inline:
            return None  # an unmodelled private helper of the response: interpreted in place
        return [Out("normal", st, UNK)]

    def with_stmt(self, it, stmt, st):
        return it.exec_block(stmt.body, [st])

    def getitem(self, it, st, node):
        # a slice of bytes keeps their provenance
        if isinstance(node.slice, ast.Slice) and isinstance(node.value, ast.Name):
            v = st.env.get(it.var(node.value.id))
            if v is not None and v.kind == "unk":
                return AV("unk", tags=v.tags, sym=None)
        return None

    def on_yield(self, it, stmt, av, outs):
        for o in outs:
            if o.kind == "normal":
                self.delivered.append(("yield", o.st.view(av), o.st, stmt))
        return [o for o in outs if o.kind == "normal"]


def _buffer_known_empty(st):
    """On this path the decoded-byte queue was established empty after the last put / before delivery."""
    if st.ts.get("buf_state") == "empty":
        return True
    sym = f"buflen#{st.ts.get('bufgen', 0)}"
    if st.ts.get(("cmp", sym, ">", "0")) is False or st.ts.get(("cmp", sym, "==", "0")) is True:
        return True
    if st.facts.get(sym, (None, None))[0] is False:
        return True
    return False


def analyse_reader(ctx, name, params=None):
    m = ctx.model
    bf = buffer_field(m)
    fi = m.method(HR, name)
    rule = ReadRule(bf)
    bq_ = m.classes.get(f"{RS}.BytesQueueBuffer")
    rule.queue_truth_is_len = bq_ is not None and "__len__" in bq_.methods and "__bool__" not in bq_.methods
    modelled = {"_raw_read", "_handle_chunk", "_decode", "_flush_decoder", "_init_decoder", "_update_chunk_length", "_error_catcher", "_fp_read", "_init_length"}
    helpers = set()
    for cq in (HR, f"{RS}.BaseHTTPResponse"):
        for n_, f_ in m.cls(cq).methods.items():
            if n_.startswith("_") and not n_.startswith("__") and n_ not in modelled:
                helpers.add(f_.qual)
    outs, it = run_function(m, fi, rule, HR, inline=frozenset(helpers), params=params or {}, record_decisions=True,
                            seeds={("self", "_has_decoded_content"): AV("unk", sym="has_decoded"), ("self", "decode_content"): AV("unk", sym="self.decode_content"),
                                   ("self", "chunked"): AV("unk", sym="chunked"), ("self", "_fp"): AV("obj", "fp", truth=True, none=False),
                                   ("self", "chunk_left"): AV("unk", sym="chunk_left")})
    ctx.states += it.budget.steps
    for o in outs:
        if o.kind == "return" and o.val is not None:
            rule.delivered.append(("return", o.st.view(o.val), o.st, fi.node))
    return fi, rule, outs



def stale_flush_clause(ctx, R6, fi, rule):
    """(C12-R6, shared with C13) the flush flag belongs to the bytes it accompanies."""
    # the flag belongs to the bytes it accompanies: bytes that may be empty (the raw stream may just have ended) are never decoded
    # under a flag that is definitely false - a flag computed from an EARLIER read of the same call is stale at the end of the body
    seen_s = set()
    for (flv, dcv, st, node), dt in zip(rule.decodes, rule.decode_data):
        fl = flv.val if (flv is not None and flv.kind == "const") else (flv.truth if flv is not None else None)
        amt_av = st.view(st.env.get("f0:amt", UNK))
        amt0 = st.ts.get(("cmp", "p:amt", "==", "0")) if amt_av.kind != "const" else (amt_av.val == 0)
        if dt is True or fl is not False or amt0 is True:
            continue
        k_ = (node.lineno, dt)
        if k_ in seen_s:
            continue
        seen_s.add(k_)
        ctx.ob(R6, fi.qual, f"decode at line {node.lineno}: bytes that may be empty (end of the raw stream) are not decoded under a definitely-false flush flag", False,
               "the flush flag was decided on an earlier read of this call: when the refill read hits the end of the body the decoder is never flushed, so an incomplete zstd frame "
               "(or a held-back tail) goes unnoticed and read(n) / stream(n) end normally", witness=st.witness(), node=node)

def eof_return_flush_clause(ctx, R6, fi, rule, outs):
    """(C12-R6, shared with C13) read() does not report the end of the body before the decoder was flushed."""
    # a return on which the raw stream has just ended (no data) and nothing is queued is the end of the body as the caller sees it; if
    # bytes of this body went through the decoder earlier (by earlier calls), the decoder is flushed on that path - an incomplete zstd
    # frame is reported by flush() only, and a read(n) loop whose n divides what was decoded so far arrives here with an empty queue
    seen = set()
    n = 0
    for o in outs:
        if o.kind != "return":
            continue
        st = o.st
        data_t = st.facts.get("data", (None, None))[0]
        if data_t is not False:
            continue
        rv = st.view(o.val) if o.val is not None else None
        if rv is None or "from-buffer" in rv.tags or "decoded" in rv.tags:
            continue
        amt_av = st.view(st.env.get("f0:amt", UNK))
        amt0 = st.ts.get(("cmp", "p:amt", "==", "0")) if amt_av.kind != "const" else (amt_av.val == 0)
        if amt0 is True:
            continue
        dc = st.view(st.env.get("f0:decode_content", UNK))
        if dc.truth is False:
            continue
        had = st.facts.get("has_decoded", (None, None))[0]
        key = (had, bool(st.ts.get("flushed")), amt_av.none)
        if key in seen:
            continue
        seen.add(key)
        n += 1
        ok = bool(st.ts.get("flushed")) or had is False
        ctx.ob(R6, fi.qual, f"end of the body reported (no data, nothing queued; earlier decoding={had}): the decoder was flushed first (flushed={bool(st.ts.get('flushed'))})", ok,
               "" if ok else "read() returns the empty end-of-body without flushing a decoder that earlier calls fed: a zstd frame cut at a block boundary ends read(n) loops and stream(n) normally "
               "whenever n divides the bytes decoded so far (read() and read1() raise DecodeError for the same body)", witness=st.witness(), node=fi.node)
    ctx.sites(R6, n, 1, "end-of-body returns of read with the decoder possibly fed")


def multidecoder_flush_clause(ctx, R4):
    """(C12-R4, shared with C13-R4) MultiDecoder.flush reaches every layer of a stacked coding."""
    from ..rows import GenRule, effect_rows
    from ..terms import T, destruct
    m = ctx.model
    md = f"{RS}.MultiDecoder"
    DEC = "self._decoders"
    LEN = T("len", DEC)
    REV = (T("reversed", DEC), T("slice", DEC, "", "", "-1"), T("list", T("star", T("reversed", DEC))), T("reversed", T("list", DEC)))
    REV_IDX = (T("range", T("sub", LEN, "1"), "-1", "-1"), T("reversed", T("range", LEN)), T("reversed", T("range", "0", LEN)), T("slice", T("range", LEN), "", "", "-1"))
    fl = m.method(md, "flush")
    frows = [r for r in effect_rows(ctx, fl, GenRule(ctx, RS), md) if r.returns]
    # every decoder of the stack is flushed, in the order decompress() applies them (reverse header order), each one after having been fed
    # what the previous flush released: an incomplete stream is only noticed by the flush of its OWN decoder (zstd raises there), so a
    # flush() that reaches only one layer lets a truncated outer coding end normally (F23, repaired in /repo)
    walks = []
    for r in frows:
        for e in r.events("call"):
            lp = e[-1][1:] if isinstance(e[-1], tuple) and e[-1][:1] == ("in",) else ()
            if e[1].endswith(".flush") and len(lp) == 1 and (lp[0] in REV and e[1] == f"each({lp[0]}).flush" or lp[0] in REV_IDX and e[1] == T("idx", DEC, T("each", lp[0])) + ".flush"):
                walks.append(lp[0])
    single = sorted({r.ret for r in frows if destruct(r.ret or "")[0] and ".flush" in (r.ret or "") and "each(" not in (r.ret or "")})
    ok = bool(walks) and not single
    ctx.ob(R4, fl.qual, "flush() flushes every decoder of the stack, in the order decompress() applies them", ok,
           "" if ok else f"returns {'; '.join(r.ret for r in frows)[:120]}: only one layer is flushed - with `Content-Encoding: gzip, zstd` a truncated zstd layer is never asked whether its frame is complete "
           "and the body ends normally with bytes missing", node=fl.node)
    loops_ = [n_ for n_ in astq.walk_fn(fl.node) if isinstance(n_, ast.For)]
    fed = any(isinstance(c_.func, ast.Attribute) and c_.func.attr == "decompress" for l_ in loops_ for c_ in astq.calls(l_))
    ctx.ob(R4, fl.qual, "what one decoder's flush releases is fed to the next decoder before that one is flushed", fed or not walks,
           "" if (fed or not walks) else "the bytes released by the outer decoder's flush are returned undecoded by the inner codings", node=fl.node)



def run(ctx):
    m, fold = ctx.model, ctx.fold
    ctx.assume("A1")
    ctx.decline("equality of the concatenation of returned pieces with the decoded payload over arbitrary call sequences, the read(n) size contract and independence from network segmentation - these quantify over byte values; only necessary structural conditions are decided")
    bf = buffer_field(m)

    # ------------------------------------------------------------------ R1 single ordered route for decoded bytes
    R1 = ctx.rule("C12-R1", "single ordered route for decoded bytes: whenever the decoded-byte queue may hold bytes from earlier partial reads, freshly decoded bytes are delivered only through the queue (put, then get), never past it", "E4 + E6 over read, read1, read_chunked")
    for name in ("read", "read1", "read_chunked"):
        fi, rule, outs = analyse_reader(ctx, name)
        n = 0
        seen = set()
        for kind, av, st, node in rule.delivered:
            if "decoded" not in av.tags:
                continue
            n += 1
            ok = _buffer_known_empty(st)
            amt_none = st.view(st.env.get("f0:amt", UNK)).none
            key = (kind, ok, amt_none if ok else None)
            if key in seen:
                continue
            seen.add(key)
            ctx.ob(R1, fi.qual, f"{kind} of freshly decoded bytes with amt-is-None={amt_none}: queue known empty" if ok else f"{kind} of freshly decoded bytes past the queue", ok,
                   "" if ok else "decoded bytes bypass the queue while it may still hold earlier bytes: those bytes are skipped (lost or reordered) for the caller", witness=st.witness(), node=node)
        from_buf = [d for d in rule.delivered if "from-buffer" in d[1].tags]
        ctx.rules[R1]["sites"] += n + len(from_buf)
        if name != "read_chunked":
            ctx.ob(R1, fi.qual, f"{len(from_buf)} delivering paths take their bytes from the queue", bool(from_buf))
        # what is put into the queue is decoder output only
        badput = [st for kind, av, st, node in rule.delivered for p in st.ts.get("puts", ()) if "decoded" not in p and "raw" in p and st.facts.get("p:decode_content", (None, None))[0] is not False]
    # ------------------------------------------------------------------ R10 a sized take from the queue cannot hit an empty deque
    R10 = ctx.rule("C12-R10", "no reader fails on its own bookkeeping: every sized get() on the decoded-byte queue happens after a put() on the same path (put appends even an empty piece) or under a test that the queue holds at least the requested bytes - BytesQueueBuffer.get(n) raises RuntimeError on an empty deque, which would end a read(n) sequence with an exception instead of b''", "E4 typestate over read, read1, read_chunked")
    n10 = 0
    for name in ("read", "read1", "read_chunked"):
        fi, rule, outs = analyse_reader(ctx, name)
        seen = set()
        for guarded, st, node in rule.gets:
            n10 += 1
            k = (node.lineno, guarded)
            if k in seen:
                continue
            seen.add(k)
            ctx.ob(R10, fi.qual, f"get() at line {node.lineno}: the queue holds an element (put earlier on the path, or size tested)", guarded,
                   "" if guarded else "on this path nothing was put since the queue was last emptied and its size was not tested: when the decoder produced no output (e.g. only the gzip trailer arrived) the read raises RuntimeError('buffer is empty') instead of returning b''",
                   witness=st.witness(), node=node)
    ctx.sites(R10, n10, 2, "sized get() calls on the decoded-byte queue")

    # ------------------------------------------------------------------ R2 no empty piece
    R2 = ctx.rule("C12-R2", "streaming never yields an empty piece: every yield of body bytes in stream / read_chunked is guarded by the truthiness of the yielded value", "E3")
    ny = 0
    for name in ("stream", "read_chunked"):
        fi, rule, outs = analyse_reader(ctx, name)
        seen = set()
        for kind, av, st, node in rule.delivered:
            if kind != "yield":
                continue
            is_from = isinstance(getattr(node, "value", None), ast.YieldFrom)
            if is_from:
                ny += 1
                key = ("from", ast.unparse(node.value.value)[:40])
                if key in seen:
                    continue
                seen.add(key)
                ok = isinstance(node.value.value, ast.Call) and astq.call_text(node.value.value) == "self.read_chunked"
                ctx.ob(R2, fi.qual, f"`yield from {astq.text(node.value.value)[:40]}` delegates to read_chunked", ok, node=node)
                continue
            ny += 1
            v = st.view(av)
            key = (v.truth, tuple(sorted(v.tags)))
            if key in seen:
                continue
            seen.add(key)
            ok = v.truth is True
            ctx.ob(R2, fi.qual, f"a piece is yielded only when it is known to be non-empty (provenance {sorted(v.tags)})", ok,
                   "" if ok else "an empty bytes object can be yielded (callers treat it as end of stream)", witness=st.witness(), node=node)
    ctx.sites(R2, ny, 3, "yields in stream / read_chunked")

    # ------------------------------------------------------------------ R3 decoder typestate
    R3 = ctx.rule("C12-R3", "decoder objects are used within their API typestate: a zstandard decompressobj is never fed after it reached eof; a gzip decoder starts a new decompressobj before feeding the unused_data of a finished member", "E4 with object-invariant entry state (API table, A1)")

    class DecRule(BaseRule):
        def __init__(self, single_use):
            self.single_use = single_use
            self.viol = []
            self.feeds = 0

        def getattr(self, it, st, node, base):
            t = ast.unparse(node)
            if t == "self._obj":
                return AV("obj", st.ts.get("cur", "entry"), truth=True, none=False)
            if base.kind == "obj" and node.attr == "eof":
                if st.ts.get(("fresh", base.val)):
                    return const(False)
                return AV("unk", sym=f"eof:{base.val}:{st.ts.get(('gen', base.val), 0)}")
            if base.kind == "obj" and node.attr == "unused_data":
                return AV("unk", sym=f"unused:{base.val}:{st.ts.get(('gen', base.val), 0)}", tags=frozenset({f"unused-of:{base.val}"}))
            return None

        def setattr(self, it, st, target, base, av):
            if ast.unparse(target) == "self._obj" and av.kind == "obj":
                st.ts["cur"] = av.val

        def call(self, it, st, node, recv, pos, kw):
            t = ast.unparse(node.func)
            if t.endswith("decompressobj"):
                s = st.copy()
                label = f"new@{node.lineno}#0"
                if st.ts.get("cur") == label:
                    label = f"new@{node.lineno}#1"
                s.ts[("fresh", label)] = True
                s.ts[("gen", label)] = 0
                return [Out("normal", s, AV("obj", label, truth=True, none=False))]
            if isinstance(node.func, ast.Attribute) and node.func.attr == "decompress" and recv is not None and recv.kind == "obj":
                self.feeds += 1
                lab = recv.val
                fresh = st.ts.get(("fresh", lab))
                eof = st.facts.get(f"eof:{lab}:{st.ts.get(('gen', lab), 0)}", (None, None))[0]
                a = pos[0] if pos else UNK
                if self.single_use and not fresh and eof is not False:
                    self.viol.append((f"decompress() on a decompressobj that may already be at eof (object `{lab}`, eof {'unknown' if eof is None else eof})", st, node))
                if f"unused-of:{lab}" in a.tags:
                    self.viol.append((f"the unused_data of a finished member is fed back into the same decompressobj `{lab}`", st, node))
                s = st.copy()
                s.ts[("fresh", lab)] = False
                s.ts[("gen", lab)] = (s.ts.get(("gen", lab), 0) + 1) % 2
                s.facts.pop(f"eof:{lab}:{s.ts[('gen', lab)]}", None)
                s.facts.pop(f"unused:{lab}:{s.ts[('gen', lab)]}", None)
                outs = [Out("normal", s, AV("unk", none=False))]
                if not self.single_use:
                    outs.append(Out("raise", st.copy(), exc("zlib.error")))
                return outs
            if t in ("zstd.ZstdDecompressor", "bytearray", "bytes"):
                return [Out("normal", st, AV("unk", none=False, truth=None))]
            return [Out("normal", st, UNK)]

    for clsname, single in (("ZstdDecoder", True), ("GzipDecoder", False)):
        cq = f"{RS}.{clsname}"
        if cq not in m.classes:
            if clsname == "ZstdDecoder":
                raise AnalysisError("ZstdDecoder not found")
            continue
        fi = m.method(cq, "decompress")
        rule = DecRule(single)
        outs, it = run_function(m, fi, rule, cq, params={"data": AV("unk", sym="p:data", tags=frozenset({"input"}))}, seeds={("self", "_state"): AV("unk", sym="state")})
        ctx.states += it.budget.steps
        ctx.sites(R3, rule.feeds, 1, f"decompress calls in {clsname}")
        seen = set()
        for text, st, node in rule.viol:
            if text in seen:
                continue
            seen.add(text)
            ctx.ob(R3, fi.qual, astq.text(node), False, text, witness=st.witness(), node=node)
        if not rule.viol:
            ctx.ob(R3, fi.qual, f"all {rule.feeds} decompress() calls respect the decompressobj typestate", True)
    zf = m.method(f"{RS}.ZstdDecoder", "flush")
    from ..rows import GenRule as _GR, effect_rows as _er
    zrows = _er(ctx, zf, _GR(ctx, RS), f"{RS}.ZstdDecoder")
    inc = [r for r in zrows if r.truth("self._obj.eof") is False]
    okz = bool(inc) and all(r.out == "raise:DecodeError" for r in inc)
    ctx.ob(R3, zf.qual, "flush() raises DecodeError when the frame is incomplete (not eof)", okz, "; ".join(r.out for r in inc))

    # ------------------------------------------------------------------ R4 reverse order
    R4 = ctx.rule("C12-R4", "stacked codings are undone in reverse order of the header; flush flushes the decoder applied last", "E6")
    md = f"{RS}.MultiDecoder"
    from ..rows import GenRule, effect_rows, private_helpers
    from ..terms import K, T, destruct, norm, subterms

    DEC = "self._decoders"
    dec = m.method(md, "decompress")
    drows = [r for r in effect_rows(ctx, dec, GenRule(ctx, RS), md) if r.returns]
    pdata = "p:" + dec.params()[0]
    REV = (T("reversed", DEC), T("slice", DEC, "", "", "-1"), T("list", T("star", T("reversed", DEC))), T("reversed", T("list", DEC)))
    # the same walk by index: for i in range(len(D) - 1, -1, -1) / reversed(range(len(D)))
    LEN = T("len", DEC)
    REV_IDX = (T("range", T("sub", LEN, "1"), "-1", "-1"), T("reversed", T("range", LEN)), T("reversed", T("range", "0", LEN)), T("slice", T("range", LEN), "", "", "-1"))
    it_rows = [r for r in drows if r.events("call")]
    ctx.sites(R4, len(it_rows), 1, "rows of MultiDecoder.decompress that decode")
    seen = set()
    for r in it_rows:
        calls = r.events("call")
        key = tuple(calls)
        if key in seen:
            continue
        seen.add(key)
        c = calls[0]
        loops = c[-1][1:] if isinstance(c[-1], tuple) and c[-1][:1] == ("in",) else ()
        ok_order = len(loops) == 1 and loops[0] in REV
        by_index = len(loops) == 1 and loops[0] in REV_IDX
        ok_order = ok_order or by_index
        ctx.ob(R4, dec.qual, f"the decoders are applied in the reverse of header order (iterates {loops[0][:50] if loops else 'nothing'})", ok_order,
               "" if ok_order else "codings are undone in the order they were applied: gzip-then-deflate bodies come out as garbage", witness=r.witness(), node=dec.node)
        I = loops[0] if loops else "?"
        elem = T("idx", DEC, T("each", I)) if by_index else f"each({I})"
        ok_chain = c[1] == f"{elem}.decompress" and c[2] == pdata and r.ret == T(f"{elem}.decompress", pdata) and len(calls) == 1
        ctx.ob(R4, dec.qual, "each decoder consumes the previous decoder's output and the last output is returned", ok_chain, f"calls {calls}, returns {r.ret}", witness=r.witness(), node=dec.node)
    ini = m.method(md, "__init__")
    irows = [r for r in effect_rows(ctx, ini, GenRule(ctx, RS, pure_self=("_get_decoder",)), md) if r.returns]
    pm = "p:" + ini.params()[0]
    ok = bool(irows)
    for r in irows:
        st_ = [e for e in r.events("store") if e[2] == "_decoders"]
        v = st_[-1][3] if st_ else ""
        op, args = destruct(v)
        SPL = T("split", pm, K(","))
        ELT = T("_get_decoder", T("strip", T("each", SPL)))
        if op == "list":
            # built by appending in a loop over the codings: exactly one element per coding, in order
            okl = list(args) == [T("rep", ELT, SPL)] or list(args) == [T("star", T("listcomp", ELT, SPL))] or list(args) == [T("star", T("gen", ELT, SPL))]
        else:
            okl = True
        ok = ok and op in ("listcomp", "list") and SPL in v and (ELT in v) and okl
    ctx.ob(R4, ini.qual, "decoders are listed in header order, one per comma-separated coding", ok, "; ".join(str(r.events("store"))[:100] for r in irows[:1]))
    fl = m.method(md, "flush")
    frows = [r for r in effect_rows(ctx, fl, GenRule(ctx, RS), md) if r.returns]
    # rows on which the list of decoders is not empty flush its first element; an (unreachable) empty list yields nothing
    multidecoder_flush_clause(ctx, R4)

    # ------------------------------------------------------------------ R5 registry / guard agreement
    R5 = ctx.rule("C12-R5", "codec registry agreement: each optional codec is added to CONTENT_DECODERS, to _get_decoder and to DECODER_ERROR_CLASSES under the same availability guard", "E8")
    base = m.cls(f"{RS}.BaseHTTPResponse")
    guards = {"CONTENT_DECODERS": {}, "DECODER_ERROR_CLASSES": {}}
    for n in base.node.body:
        if isinstance(n, ast.If):
            g = astq.text(n.test)
            for s in n.body:
                if isinstance(s, ast.AugAssign) and isinstance(s.target, ast.Name) and s.target.id in guards:
                    guards[s.target.id][g] = astq.text(s.value)
    gd = m.func(f"{RS}._get_decoder")
    gg = {}
    from ..rows import helper_closure as _hc5
    for q_ in sorted(_hc5(m, [gd], stop=("MultiDecoder",))):
        f_ = m.funcs.get(q_)
        if f_ is None or f_.cls is not None and q_ != gd.qual:
            continue
        for n in astq.walk_fn(f_.node):
            if not isinstance(n, ast.If):
                continue
            # `if <guard> and mode == "br": return BrotliDecoder()`  or  `if <guard>: table["br"] = BrotliDecoder`
            parts = [astq.text(v) for v in n.test.values] if isinstance(n.test, ast.BoolOp) and isinstance(n.test.op, ast.And) else [astq.text(n.test)]
            for i_, g_ in enumerate(parts):
                rest = parts[:i_] + parts[i_ + 1:] + [astq.text(b_) for b_ in n.body]
                prev = gg.get(g_, ([], ""))
                gg[g_] = (prev[0] + rest, prev[1] or astq.text(n.body[0]))
    for g, name, mode in (("brotli is not None", "br", "'br'"), ("HAS_ZSTD", "zstd", "'zstd'")):
        ok1 = g in guards["CONTENT_DECODERS"] and name in guards["CONTENT_DECODERS"][g]
        ok2 = g in guards["DECODER_ERROR_CLASSES"]
        ok3 = g in gg and any(mode in p.replace('"', "'") for p in gg[g][0])
        ctx.ob(R5, f"{RS}.BaseHTTPResponse", f"codec {name}: advertised, constructed and error-mapped under `{g}`", ok1 and ok2 and ok3,
               "" if (ok1 and ok2 and ok3) else f"registered={ok1} error-class={ok2} constructor={ok3}: a body in this coding is either not decoded or its decoder's errors escape untranslated")
    first = [n for n in base.node.body if isinstance(n, (ast.Assign, ast.AnnAssign)) and astq.text(n.targets[0] if isinstance(n, ast.Assign) else n.target) == "CONTENT_DECODERS"]
    bc = fold.ev(first[0].value, RS) if first else []
    ctx.ob(R5, f"{RS}.BaseHTTPResponse", "always-on codecs: gzip, x-gzip, deflate", {"gzip", "x-gzip", "deflate"} <= set(bc), str(bc))
    idc = m.method(f"{RS}.BaseHTTPResponse", "_init_decoder")
    ctx.ob(R5, idc.qual, "content-encoding is matched case-insensitively",
           any(isinstance(c.func, ast.Attribute) and c.func.attr in ("lower", "casefold") for q_ in sorted(_hc5(m, [idc], stop=("_get_decoder",))) if q_ in m.funcs for c in astq.calls(m.funcs[q_].node)))

    # ------------------------------------------------------------------ R6 flush at end
    R6 = ctx.rule("C12-R6", "the decoder is flushed at the end of the body: flush_decoder is true when reading everything (amt None) or when a sized read returned no data, and false otherwise", "E5 on read")
    fi, rule, outs = analyse_reader(ctx, "read")
    seen = set()
    for flv, dcv, st, node in rule.decodes:
        amt_av = st.view(st.env.get("f0:amt", UNK))
        amt_none = amt_av.none
        if amt_none is not True and amt_av.kind != "const" and (st.ts.get(("cmp", "p:amt", ">=", "0")) is False or st.ts.get(("cmp", "p:amt", "<", "0")) is True):
            amt_none = True  # a negative amt asks for everything, like None (whether or not the variable is re-bound to None)
        data_t = st.facts.get("data", (None, None))[0]
        amt0 = st.ts.get(("cmp", "p:amt", "==", "0")) if amt_av.kind != "const" else (amt_av.val == 0)
        fl = flv.val if (flv is not None and flv.kind == "const") else (flv.truth if flv is not None else None)
        key = (amt_none, data_t, amt0, fl)
        if key in seen:
            continue
        seen.add(key)
        if amt_none is True:
            want = True
        elif data_t is False and amt0 is not True:
            want = True
        elif data_t is True:
            want = False
        else:
            want = None
        if want is None:
            continue
        ctx.ob(R6, fi.qual, f"amt-is-None={amt_none} data-truthy={data_t} amt==0:{amt0} -> flush={fl}", fl == want,
               "" if fl == want else "the tail held back by the decoder is never delivered (or the decoder is flushed mid-stream)", witness=st.witness(), node=node)
    ctx.sites(R6, len(seen), 3, "decode calls in read with decided flush flag")
    stale_flush_clause(ctx, R6, fi, rule)
    eof_return_flush_clause(ctx, R6, fi, rule, outs)

    # ------------------------------------------------------------------ R7 stream drains the queue
    R7 = ctx.rule("C12-R7", "stream()'s loop ends only when the stdlib response is closed and the decoded-byte queue is empty", "E4")
    sf = m.method(HR, "stream")
    wl = [n for n in astq.walk_fn(sf.node) if isinstance(n, ast.While)]
    ctx.sites(R7, len(wl), 1, "loop in stream")
    for w in wl:
        t = w.test
        parts = [astq.text(v) for v in t.values] if isinstance(t, ast.BoolOp) and isinstance(t.op, ast.Or) else []
        B_ = f"self.{bf}"
        nonempty = {f"len({B_}) > 0", f"len({B_}) != 0", f"len({B_}) >= 1", f"0 < len({B_})", f"len({B_})", f"bool(len({B_}))", f"not len({B_}) == 0"}
        bq = m.classes.get(f"{RS}.BytesQueueBuffer")
        if bq is not None and "__len__" in bq.methods and "__bool__" not in bq.methods:
            nonempty |= {B_, f"bool({B_})"}  # truthiness of the queue is its __len__
        ok = len(parts) == 2 and "not is_fp_closed(self._fp)" in parts and bool(nonempty & set(parts))
        ctx.ob(R7, sf.qual, f"loop condition `{astq.text(t)}`", ok, "" if ok else "the loop can stop while decoded bytes are still queued (or spin after the end)", node=w)
        brk = [n for n in ast.walk(w) if isinstance(n, (ast.Break, ast.Return))]
        ctx.ob(R7, sf.qual, "no early exit from the loop", not brk, node=w)
        calls_ = [c for c in astq.calls(w) if astq.call_text(c) == "self.read"]
        rd_params = m.method(HR, "read").params()
        bound = {}
        if len(calls_) == 1:
            for i_, a_ in enumerate(calls_[0].args):
                if i_ < len(rd_params) and not isinstance(a_, ast.Starred):
                    bound[rd_params[i_]] = astq.text(a_)
            for k_ in calls_[0].keywords:
                if k_.arg:
                    bound[k_.arg] = astq.text(k_.value)
        ok = len(calls_) == 1 and bound.get("amt") == "amt" and bound.get("decode_content") == "decode_content"
        ctx.ob(R7, sf.qual, "each iteration reads through read(amt, decode_content)", ok)
    # readinto / __iter__ / data use the same readers
    ri = m.method(f"{RS}.BaseHTTPResponse", "readinto")
    def _bound(call, callee):
        ps = callee.params()
        b_ = {ps[i_]: a_ for i_, a_ in enumerate(call.args) if i_ < len(ps) and not isinstance(a_, ast.Starred)}
        b_.update({k_.arg: k_.value for k_ in call.keywords if k_.arg})
        return b_
    # readinto: the bytes come from self.read(<the length of the caller's buffer>) and from nowhere else
    rcalls = [c for c in astq.calls(ri.node) if astq.call_text(c) == "self.read"]
    other = [astq.call_text(c) for c in astq.calls(ri.node) if astq.call_text(c).startswith(("self._fp", "self._raw_read", "self.read1", "self.read_chunked"))]
    bp = ri.params()[0] if ri.params() else "b"
    ok_ri = len(rcalls) == 1 and not other
    if ok_ri:
        amt_ = _bound(rcalls[0], m.method(HR, "read")).get("amt")
        src_ = list(astq.sources_of(ri.node, amt_)) if amt_ is not None else []
        ok_ri = any(isinstance(x_, ast.Call) and astq.call_text(x_) == "len" and x_.args and astq.text(x_.args[0]) == bp for x_ in src_)
    ctx.ob(R7, ri.qual, "readinto reads through read(len(b))", ok_ri)
    itf = m.method(HR, "__iter__")
    scalls = [c for c in astq.calls(itf.node) if astq.call_text(c) == "self.stream"]
    ok_it = len(scalls) == 1
    if ok_it:
        dc_ = _bound(scalls[0], m.method(HR, "stream")).get("decode_content")
        ok_it = isinstance(dc_, ast.Constant) and dc_.value is True
    ctx.ob(R7, itf.qual, "iteration reads through stream(decode_content=True)", ok_it)

    # ------------------------------------------------------------------ shared with C13-R1: the raw reader neither hides a short body nor cuts a good one
    from . import c13_rows
    from .c13 import R1_TEXT
    R13_1 = ctx.rule("C13-R1", "(shared with C13) " + R1_TEXT, "E5 decision table on _raw_read")
    c13_rows.r1_raw_read(ctx, R13_1)

    # ------------------------------------------------------------------ R8 shared with C13-R9
    from .c13 import rule_chunk_state

    rule_chunk_state(ctx)
    ctx.rules["C13-R9"]["decides"] = "(shared with C13, here C12-R8) " + ctx.rules["C13-R9"]["decides"]


# ---------------------------------------------------------------------------- R9 (added after seeded change C12/deflate-fallback-only-on-first-call)
def _run_r9(ctx):
    from ..rows import GenRule, effect_rows
    from ..terms import K, T, destruct, norm, subterms

    m = ctx.model
    R9 = ctx.rule("C12-R9", "deflate with or without the zlib wrapper decodes the same however the body is segmented: while no output has been produced the decoder stays in its trial phase and keeps every byte it was fed; on a zlib header error it switches to raw deflate and replays ALL of those bytes (zlib cannot reject a stream before it has seen both header bytes, so a 1-byte first piece must not end the trial)", "E10 effect rows of DeflateDecoder.decompress")
    dd = f"{RS}.DeflateDecoder"
    dec = m.method(dd, "decompress")
    pd = "p:" + dec.params()[0]
    from ..rows import helper_closure as _hc9
    rows = effect_rows(ctx, dec, GenRule(ctx, RS, raising={"decompress": "zlib.error"}, field_consts={}, inline=set(_hc9(m, [dec])) - {dec.qual}), dd)
    trial_flag = None
    # the trial flag: the boolean field tested first thing and set False when the trial ends
    for r in rows:
        for e in r.events("store"):
            if e[1] == "self" and e[3] == "False" and r.truth(f"self.{e[2]}") is True:
                trial_flag = e[2]
    if trial_flag is None:
        raise AnalysisError("DeflateDecoder.decompress: no trial-phase flag found (a boolean field set False once the stream kind is known)")
    F = f"self.{trial_flag}"
    bufs = set()
    for r in rows:
        for e in r.events("store"):
            if e[1] == "self" and pd in e[3] and e[2] != trial_flag and destruct(e[3])[0] in ("add", "cat"):
                bufs.add(e[2])
    n_trial = 0
    seen = set()
    for r in rows:
        if r.truth(F) is not True:
            continue
        stores = {}
        for e in r.events("store"):
            if e[1] == "self":
                stores.setdefault(e[2], e[3])  # the first value stored on the path (a later reset to None is bookkeeping)
        last_flag = [e[3] for e in r.events("store") if e[1] == "self" and e[2] == trial_flag]
        calls = r.events("call")
        fault = r.st.ts.get("fault")
        # the fresh raw-deflate object installed on this path (calls on it are the replay, by whatever route they are made)
        fresh = [e[3] for e in r.events("store") if e[1] == "self" and e[2] == "_obj"]
        fresh_calls = {f"{t_}.decompress" for t_ in fresh}
        if fault is not None and (fault[0] == "self.decompress" or fault[0] in fresh_calls):
            continue  # the replay itself failing: the stream is corrupt either way
        out_truth = None
        for k, v in r.st.facts.items():
            if k.startswith("self._obj.decompress(") and v[0] is not None:
                out_truth = v[0]
        key = (bool(fault), out_truth, tuple(sorted(stores.items())), tuple(c[1:3] for c in calls), r.out.split(":")[0])
        if key in seen:
            continue
        seen.add(key)
        n_trial += 1
        acc_terms = {norm(T("add", f"self.{b}", pd)) for b in bufs} | {T("add", f"self.{b}", pd) for b in bufs}
        if fault is None and out_truth is False:
            # nothing decoded yet: still in the trial, input kept
            ok = (not last_flag or last_flag[-1] != "False") and any(b in stores and (stores[b] in acc_terms or norm(stores[b]) in acc_terms) for b in bufs)
            ctx.ob(R9, dec.qual, "no output yet: the trial phase continues and the input is kept", ok,
                   "" if ok else f"stores {stores}: the trial ends (or the bytes are dropped) before zlib could judge the header - a raw-deflate body whose first piece is one byte then fails with a header error", witness=r.witness(), node=dec.node)
        elif fault is not None and fault[1] == "zlib.error" and not any(c[1] == "self._obj.decompress" for c in calls[1:]) and not any(c[1] == "self.decompress" or c[1] in fresh_calls for c in calls):
            ctx.ob(R9, dec.qual, "a header error in the trial phase falls back to raw deflate", r.returns and False, f"outcome {r.out}, calls {calls}: the zlib error escapes (or nothing is re-decoded)", witness=r.witness(), node=dec.node)
        elif fault is not None or any(c[1] == "self.decompress" for c in calls):
            replay = [c for c in calls if c[1] in ("self.decompress",) or c[1] in fresh_calls] + [c for c in calls[1:] if c[1] == "self._obj.decompress"]
            if not replay:
                continue
            arg = replay[-1][2] if len(replay[-1]) > 2 else "?"
            ok = arg in acc_terms or norm(arg) in acc_terms or any(arg == f"self.{b}" and b in stores and (stores[b] in acc_terms or norm(stores[b]) in acc_terms) for b in bufs)
            ctx.ob(R9, dec.qual, f"the raw-deflate fallback replays everything fed so far ({arg[:60]})", ok,
                   "" if ok else "only the current piece is re-decoded: the bytes of earlier pieces are lost and the body is corrupt", witness=r.witness(), node=dec.node)
    ctx.sites(R9, n_trial, 3, "trial-phase rows of DeflateDecoder.decompress")


def _run_r11(ctx):
    """C12-R11: a chunked body has ONE reader position."""
    m = ctx.model
    R11 = ctx.rule("C12-R11", "the position inside a chunked body has a single owner: urllib3's own chunk reader (which reads the socket file below http.client's chunk layer and keeps self.chunk_left) "
                   "and the readers that delegate to http.client's chunked read()/read1() (which keeps its own chunk_left) are never both usable on one response, unless one synchronises the other's position", "E8 ownership / sibling agreement over HTTPResponse")
    cls = m.cls(HR)
    below, through, sync = [], [], []
    for name, f in sorted(cls.methods.items()):
        for n in astq.walk_fn(f.node):
            if isinstance(n, ast.Attribute):
                t = astq.text(n)
                if isinstance(n.ctx, ast.Load) and (t.startswith("self._fp.fp.read") or t == "self._fp._safe_read"):
                    below.append((f, n))
                elif isinstance(n.ctx, ast.Load) and t in ("self._fp.read", "self._fp.read1", "self._fp.readinto"):
                    through.append((f, n))
                elif isinstance(n.ctx, (ast.Store, ast.Del)) and t in ("self._fp.chunk_left", "self._fp.chunked", "self._fp.length"):
                    sync.append((f, n))
    ctx.sites(R11, len(below), 1, "reads below http.client's chunk layer (self._fp.fp.readline / self._fp._safe_read)")
    ctx.sites(R11, len(through), 1, "reads through http.client's own (chunk-aware) read / read1")
    # a guard that refuses to switch readers: a public reader that raises when the other reader has started (a state flag tested first)
    entry = {"read": m.method(HR, "read"), "read1": m.method(HR, "read1"), "read_chunked": m.method(HR, "read_chunked")}
    def tests_chunk_state(f):
        return any(isinstance(n, ast.Attribute) and astq.text(n) in ("self.chunk_left", "self._fp.chunk_left") and isinstance(n.ctx, ast.Load) for n in astq.walk_fn(f.node))
    guarded = tests_chunk_state(entry["read"]) and tests_chunk_state(entry["read1"])
    ok = not (below and through) or bool(sync) or guarded
    ctx.ob(R11, HR, "a chunked body has one reader position: urllib3's chunk reader and http.client's are not both usable on one response, or one synchronises the other", ok,
           "" if ok else f"{len(below)} reads below the stdlib's chunk layer in {sorted({f.name for f, _ in below})}, {len(through)} through it in {sorted({f.name for f, _ in through})}, synchronising stores={len(sync)}, "
           f"read()/read1() test the chunk position={guarded}: read_chunked()/stream() parse chunk framing themselves (self.chunk_left) while read()/read(n)/read1() leave it to http.client (its own chunk_left): after one family consumed part of a chunk "
           "the other resumes in the middle of the framing - `next(r.stream(4)); r.read()` and `r.read(4); list(r.stream(7))` raise ProtocolError on an intact chunked body", node=cls.node)


_run_base12 = run


def run(ctx):  # noqa: F811
    _run_base12(ctx)
    _run_r9(ctx)
    _run_r11(ctx)
