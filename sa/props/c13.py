"""C13 - a cut-off or corrupt response is never presented as complete."""
from __future__ import annotations

import ast

from .. import astq
from ..events import outcome_name, run_function
from ..interp import AV, BASE_TOP, EXT_TOP, UNK, BaseRule, Out, const, exc
from ..model import AnalysisError

RS = "urllib3.response"
HR = f"{RS}.HTTPResponse"
CP = "urllib3.connectionpool"
CN = "urllib3.connection"


R1_TEXT = ("EOF with bytes outstanding raises: in _raw_read, (no data and amt != 0 and enforce_content_length and length_remaining not in (None, 0)) => IncompleteRead, "
           "unless the stdlib read on that row raises it itself (read() without amount); and urllib3 never ends the stream early itself: a non-empty piece is returned "
           "together with closing the stdlib response only when the declared remaining length, before this piece is counted, equals the piece's length")


def run(ctx):
    m, fold = ctx.model, ctx.fold
    ctx.assume("A1", "A3")
    ctx.decline("'for every cut position' as an enumeration of byte streams; decided instead: every end-of-stream branch with bytes outstanding raises, framing errors raise after closing, chunk payloads use the length-enforcing primitive, decoder errors are wrapped, an unclean exit closes the connection")

    # ------------------------------------------------------------------ R1 EOF with bytes outstanding raises
    R1 = ctx.rule("C13-R1", R1_TEXT, "E5 decision table on _raw_read + stdlib source facts")
    from . import c13_rows
    rr = m.method(HR, "_raw_read")
    c13_rows.r1_raw_read(ctx, R1)
    sr = m.find_method("http.client.HTTPResponse", "_safe_read")
    srd = m.find_method("http.client.HTTPResponse", "read")
    ok = sr is not None and "IncompleteRead" in astq.text(sr.node) and srd is not None and "_safe_read" in astq.text(srd.node)
    ctx.ob(R1, "http.client.HTTPResponse.read", "stdlib read() without amount reads the declared length through _safe_read, which raises IncompleteRead (source fact)", ok)

    # ------------------------------------------------------------------ R2 chunk-size line
    R2 = ctx.rule("C13-R2", "a malformed or missing chunk-size line closes the response and raises (InvalidChunkLength / ProtocolError); an empty line is not accepted as zero; the size is parsed base 16 after cutting chunk extensions at ';'", "E4 on _update_chunk_length")
    R10 = ctx.rule("C13-R10", "a chunk-size line is accepted only if it consists of hex digits: int(x, 16) alone also accepts '+', '-', blanks, '_' and '0x', so one corrupted byte can turn a size into the terminating zero", "E10 effect rows of _update_chunk_length (a decision about the field's shape on the accepting path)")
    c13_rows.r2_chunk_size_line(ctx, R2, R10)
    # read() / read(n) / read1() on a chunked body do not use urllib3's chunk reader at all: http.client parses the size lines itself.
    # Its source is read the same way as _safe_read's (A1): the same int(line, 16) without a test of the line's shape is the same hole.
    rn = m.find_method("http.client.HTTPResponse", "_read_next_chunk_size")
    if rn is not None:
        ints = [c for c in astq.calls(rn.node) if astq.call_text(c) == "int" and len(c.args) == 2 and astq.text(c.args[1]) == "16"]
        shape = [c for c in astq.calls(rn.node) if (isinstance(c.func, ast.Attribute) and c.func.attr in ("fullmatch", "match", "isalnum", "isdigit", "issubset", "translate")) or astq.call_text(c) == "all"]
        ctx.sites(R10, len(ints), 1, "int(line, 16) in http.client's chunk-size reader")
        ctx.ob(R10, "http.client.HTTPResponse._read_next_chunk_size", "the standard library's chunk-size reader (used by read / read(n) / read1 on chunked bodies) checks the line's shape before converting it", bool(shape),
               "" if shape else "http.client converts the size line with int(line, 16) alone: '+0', '-0', ' 0' end the body normally for read(), read(n) and read1() whatever urllib3's own chunk reader does", node=rn.node)

    # ------------------------------------------------------------------ R3 chunk payload primitive
    R3 = ctx.rule("C13-R3", "chunk payloads and their CRLFs are read only through the length-enforcing primitive _safe_read (which raises IncompleteRead on a short chunk)", "E8")
    hc = m.method(HR, "_handle_chunk")
    from ..rows import GenRule, effect_rows, private_helpers
    from ..terms import K, T, destruct, norm, subterms

    hrows = [r for r in effect_rows(ctx, hc, GenRule(ctx, RS), HR) if r.returns]
    ctx.sites(R3, len(hrows), 3, "returning rows of _handle_chunk")
    seen3 = set()
    n_reads = 0
    for r in hrows:
        calls = [e for e in r.events("call") if e[1].startswith("self._fp")]
        stores = [e for e in r.events("store") if e[1] == "self" and e[2] == "chunk_left"]
        finished = bool(stores) and stores[-1][3] == "None"
        key = (tuple(c[1] for c in calls), tuple(c[2] if len(c) > 2 else "" for c in calls), finished)
        if key in seen3:
            continue
        seen3.add(key)
        n_reads += len(calls)
        bad = [c for c in calls if c[1] != "self._fp._safe_read"]
        ctx.ob(R3, hc.qual, f"chunk bytes are read through _safe_read only ({[c[1].rsplit('.', 1)[-1] for c in calls]})", not bad and bool(calls),
               "" if not bad and calls else "a chunk is read with a primitive that returns short data silently at EOF", witness=r.witness(), node=hc.node)
        if finished:
            ok = len(calls) >= 2 and calls[-1][1] == "self._fp._safe_read" and calls[-1][2] == "2"
            ctx.ob(R3, hc.qual, "finishing a chunk consumes its trailing CRLF through _safe_read(2), after the payload", ok,
                   "" if ok else f"reads {[(c[1].rsplit('.', 1)[-1], c[2]) for c in calls]}: the CRLF that ends the chunk stays on the wire and is parsed as the next size line", witness=r.witness(), node=hc.node)
    ctx.sites(R3, n_reads, 3, "stdlib reads in _handle_chunk")

    rule_chunk_state(ctx)

    # ------------------------------------------------------------------ R4 decoder errors
    R4 = ctx.rule("C13-R4", "undecodable content raises DecodeError: _decode catches DECODER_ERROR_CLASSES (zlib.error, OSError and each enabled codec's error root) and raises DecodeError; flushing an incomplete zstd frame raises", "E3 + E1")
    df = m.method(f"{RS}.BaseHTTPResponse", "_decode")
    base = m.cls(f"{RS}.BaseHTTPResponse")
    first = [n_ for n_ in base.node.body if isinstance(n_, (ast.Assign, ast.AnnAssign)) and astq.text(n_.targets[0] if isinstance(n_, ast.Assign) else n_.target) == "DECODER_ERROR_CLASSES"]
    roots = [astq.text(e) for e in first[0].value.elts] if first and isinstance(first[0].value, ast.Tuple) else []
    ok = "zlib.error" in roots and ("IOError" in roots or "OSError" in roots)
    ctx.ob(R4, f"{RS}.BaseHTTPResponse", f"DECODER_ERROR_CLASSES base = {roots}", ok)
    root_classes = [m.norm(m.resolve_name(RS, e) or astq.text(e)) for e in (first[0].value.elts if first and isinstance(first[0].value, ast.Tuple) else [])]
    root_classes = ["builtins.OSError" if c in ("builtins.IOError", "IOError") else c for c in root_classes]

    class DecRule(GenRule):
        def handler_classes(self, it, h, classes):
            if h.type is not None and astq.text(h.type).endswith("DECODER_ERROR_CLASSES"):
                return list(root_classes)
            return classes

    n_dec = 0
    for err in ("zlib.error", "builtins.OSError"):
        from ..rows import helper_closure as _hc
        rows_d = effect_rows(ctx, df, DecRule(ctx, RS, raising={"decompress": err}, pure_self=("_flush_decoder",), inline=set(_hc(m, [df], stop=("_flush_decoder", "_init_decoder"))) - {df.qual}),
                             f"{RS}.BaseHTTPResponse")
        faulted = [r for r in rows_d if r.st.ts.get("fault")]
        n_dec += len(faulted)
        for r in faulted[:3]:
            ok = r.out == "raise:DecodeError"
            ctx.ob(R4, df.qual, f"the decoder raising {err.rsplit('.', 1)[-1]} -> {r.out}", ok,
                   "" if ok else "a corrupt compressed stream is swallowed or escapes as a raw codec error", witness=r.witness(), node=df.node)
    ctx.sites(R4, n_dec, 2, "rows of _decode on which the decoder fails")
    fd = m.method(f"{RS}.BaseHTTPResponse", "_flush_decoder")
    frows = [r for r in effect_rows(ctx, fd, GenRule(ctx, RS), f"{RS}.BaseHTTPResponse") if r.returns]
    D = "self._decoder"
    seen_f = set()
    for r in frows:
        has = r.truth(D)
        key = (has, r.ret)
        if key in seen_f:
            continue
        seen_f.add(key)
        if has is True:
            ok = r.ret == T("add", T(f"{D}.decompress", K(b"")), T(f"{D}.flush")) and [e[1] for e in r.events("call") if e[1].startswith(D)] == [f"{D}.decompress", f"{D}.flush"]
            ctx.ob(R4, fd.qual, "flushing drains the decoder (decompress(b'')) and then calls its flush(), returning both", ok, "" if ok else f"returns {r.ret}", witness=r.witness(), node=fd.node)
        elif has is False:
            ctx.ob(R4, fd.qual, "without a decoder nothing is flushed", r.ret in (K(b""), "b''"), r.ret, witness=r.witness(), node=fd.node)
    if f"{RS}.ZstdDecoder" in m.classes:
        zf = m.method(f"{RS}.ZstdDecoder", "flush")
        zrows = effect_rows(ctx, zf, GenRule(ctx, RS), f"{RS}.ZstdDecoder")
        inc = [r for r in zrows if r.truth("self._obj.eof") is False]
        ok = bool(inc) and all(r.out == "raise:DecodeError" for r in inc)
        ctx.ob(R4, zf.qual, "an incomplete zstd frame raises DecodeError at flush", ok, "; ".join(r.out for r in inc))
    # a stacked coding: the incomplete-frame report of a zstd layer is only heard if flush() reaches that layer (shared with C12-R4)
    from .c12 import multidecoder_flush_clause as _mfc
    _mfc(ctx, R4)
    gz = m.method(f"{RS}.GzipDecoder", "decompress")

    # the tolerant state may only be entered once a complete member was followed by more data
    class GzRule(BaseRule):
        def __init__(self):
            self.sets = []

        def getattr(self, it, st, node, base):
            t = ast.unparse(node)
            if t == "self._obj.unused_data":
                return AV("unk", sym="unused")
            if t.startswith("GzipDecoderState."):
                return AV("const", ("enum", node.attr), truth=True, none=False)
            return None

        def setattr(self, it, st, target, base, av):
            if ast.unparse(target) == "self._state" and av.kind == "const" and av.val == ("enum", "OTHER_MEMBERS"):
                self.sets.append((st.facts.get("unused", (None, None))[0], st.copy(), target))

        def call(self, it, st, node, recv, pos, kw):
            t = ast.unparse(node.func)
            if t == "self._obj.decompress":
                s = st.copy()
                s.facts.pop("unused", None)
                e = s.copy()
                cur = e.heap.get(("self", "_state"))
                e.ts["state_at_error"] = cur.val if (cur is not None and cur.kind == "const") else (cur.sym if cur is not None else None)
                return [Out("normal", s, AV("unk", none=False)), Out("raise", e, exc("zlib.error"))]
            return [Out("normal", st, AV("unk", none=False))]

    grule = GzRule()
    outs, it = run_function(m, gz, grule, f"{RS}.GzipDecoder", seeds={("self", "_state"): AV("unk", sym="state")})
    OTHER = repr(("enum", "OTHER_MEMBERS"))
    gsc = m.classes.get(f"{RS}.GzipDecoderState")
    members = [t_.id for n_ in (gsc.node.body if gsc is not None else []) if isinstance(n_, ast.Assign) for t_ in n_.targets if isinstance(t_, ast.Name)]
    seen_e = set()
    n_err = 0
    for o in outs:
        if not any("caught zlib.error" in t for _, t in o.st.path()) and not (o.kind == "raise" and o.val.val == "zlib.error"):
            continue
        sae = o.st.ts.get("state_at_error")
        if sae == ("enum", "OTHER_MEMBERS"):
            tol = True
        elif isinstance(sae, tuple):
            tol = False
        else:
            tol = o.st.ts.get(("cmp", "state", "==", OTHER))
            if tol is None and o.st.ts.get(("cmp", "state", "!=", OTHER)) is not None:
                tol = not o.st.ts.get(("cmp", "state", "!=", OTHER))
            if tol is None and members:
                # the state is one of the enumeration's members: every other member excluded on the path leaves OTHER_MEMBERS
                def _is(x_):
                    e_ = o.st.ts.get(("cmp", "state", "==", repr(("enum", x_))))
                    n_ = o.st.ts.get(("cmp", "state", "!=", repr(("enum", x_))))
                    return e_ if e_ is not None else (None if n_ is None else not n_)
                others = [x_ for x_ in members if x_ != "OTHER_MEMBERS"]
                if "OTHER_MEMBERS" in members and others and all(_is(x_) is False for x_ in others):
                    tol = True
                elif any(_is(x_) is True for x_ in others):
                    tol = False
        kind = o.kind if o.kind != "raise" else "raise:" + str(o.val.val)
        key = (tol, kind)
        if key in seen_e:
            continue
        seen_e.add(key)
        n_err += 1
        if tol is True:
            continue  # trailing garbage after a complete member: tolerated by design
        ok = o.kind == "raise" and o.val.val == "zlib.error"
        ctx.ob(R4, gz.qual, f"a zlib error while the decoder is not in the tolerant state (tolerant={tol}) -> {kind}", ok,
               "" if ok else "a zlib error in the first gzip member is swallowed: a corrupt body ends normally", witness=o.st.witness(), node=gz.node)
    ctx.sites(R4, n_err, 1, "rows of GzipDecoder.decompress on which zlib fails")
    ctx.sites(R4, len(grule.sets), 1, "transitions of the gzip decoder into the tolerant state")
    seen_g = set()
    for unused_truth, st_, node_ in grule.sets:
        if unused_truth in seen_g:
            continue
        seen_g.add(unused_truth)
        ok = unused_truth is True
        ctx.ob(R4, gz.qual, f"OTHER_MEMBERS is entered with unused_data truthy={unused_truth} (a complete member followed by more data)", ok,
               "" if ok else "the decoder starts tolerating zlib errors before the first member is known to be complete: corruption in a later piece of an incrementally read body is swallowed as 'trailing garbage'", witness=st_.witness(), node=node_)

    # ------------------------------------------------------------------ R5 conflicting lengths
    R5 = ctx.rule("C13-R5", "conflicting Content-Length values raise InvalidHeader; with chunked transfer-encoding the length is ignored", "E5 on _init_length")
    c13_rows.r5_conflicting_lengths(ctx, R5)

    # ------------------------------------------------------------------ R6 shared with C01-R6
    from .c01_more import run as _c01more  # noqa: F401
    R6 = ctx.rule("C13-R6", "an unclean exit from any body read closes the connection before it can be released (shared: C01-R6 on the error catcher, C01-R5 on where reads happen)", "E4 (shared with C01)")
    import types

    sub = types.SimpleNamespace()
    before = len(ctx.obs)
    rules_before = dict(ctx.rules)
    _c01more(ctx)
    keep_rules = ("C01-R5", "C01-R6")
    ctx.obs[before:] = [o for o in ctx.obs[before:] if o.rule in keep_rules]
    for r in list(ctx.rules):
        if r.startswith("C01-") and r not in keep_rules and r not in rules_before:
            ctx.rules.pop(r)
    ok = all(o.ok for o in ctx.obs[before:])
    ctx.ob(R6, f"{HR}._error_catcher", f"{len(ctx.obs) - before} shared obligations (C01-R5, C01-R6) hold", ok)

    # ------------------------------------------------------------------ shared with C03-R8: a damaged / unfinished response's connection is not recycled by an early release
    from .c03 import rule_r8 as _c03_r8
    _c03_r8(ctx)
    ctx.rules["C03-R8"]["decides"] = "(shared with C03) the connection that carried an unfinished body is never handed to another request by release_conn: " + ctx.rules["C03-R8"]["decides"]

    # ------------------------------------------------------------------ shared with C12-R6: the decoder is flushed when the body ends inside a sized read
    from .c12 import analyse_reader as _ar12, stale_flush_clause as _sfc, eof_return_flush_clause as _efc
    R12_6 = ctx.rule("C12-R6", "(shared with C12) an incomplete compressed stream is noticed by every read API: bytes that may be empty (the raw stream may just have ended) are never decoded under a flush flag that is definitely false - a flag decided on an earlier read of the same call is stale at the end of the body, the decoder is then never flushed and read(n) / stream(n) end normally on a truncated zstd frame", "E4 + E5 on read (shared with C12)")
    fi12, rule12, _o12 = _ar12(ctx, "read")
    _sfc(ctx, R12_6, fi12, rule12)
    _efc(ctx, R12_6, fi12, rule12, _o12)  # ... and read() does not report the end of the body before a decoder that was fed is flushed
    ctx.sites(R12_6, len(rule12.decodes), 2, "decode calls in read")

    # ------------------------------------------------------------------ R7 preload uses the same reader
    R7 = ctx.rule("C13-R7", "preloading uses the same reader: the constructor's preload calls read(), so a truncated preloaded body raises like a streamed one", "E8")
    c13_rows.r7_preload(ctx, R7)

    # ------------------------------------------------------------------ R8 enforcement on by default at every hop
    R8 = ctx.rule("C13-R8", "length enforcement is on by default at every hop of the chain that carries it", "E2")
    hops = [(m.method(f"{CP}.HTTPConnectionPool", "_make_request"), "enforce_content_length"),
            (m.method(f"{CN}.HTTPConnection", "request"), "enforce_content_length"),
            (m.method(HR, "__init__"), "enforce_content_length")]
    for fi, p in hops:
        d = fi.defaults().get(p)
        ok = isinstance(d, ast.Constant) and d.value is True
        ctx.ob(R8, fi.qual, f"{p} defaults to True", ok, astq.text(d) if d is not None else "no default")
    # and each hop passes its value on
    c13_rows.r8_enforcement_chain(ctx, R8)


def rule_chunk_state(ctx):
    """C13-R9 (shared with C12): chunk_left typestate of _handle_chunk."""
    m = ctx.model
    R9 = ctx.rule("C13-R9", "chunk-position typestate: after _handle_chunk the remaining-bytes counter is None (chunk finished, its CRLF consumed) or a remainder that is positive because the path decided amt < chunk_left strictly - never 0, which read_chunked reserves for the terminating chunk", "E5 on _handle_chunk")
    hc = m.method(HR, "_handle_chunk")

    from ..rows import GenRule as _G, effect_rows as _er, helper_closure as _hcl
    from ..terms import T as _T, destruct as _d, norm as _norm

    rows9 = [r for r in _er(ctx, hc, _G(ctx, hc.module, inline=set(_hcl(m, [hc])) - {hc.qual}), HR) if r.returns]
    CL, AMT = "self.chunk_left", "p:" + hc.params()[0]
    n = 0
    seen = set()
    for r in rows9:
        reads = [tuple(a_ for a_ in e[2:] if isinstance(a_, str)) for e in r.events("call") if e[1].endswith("._safe_read")]
        stores = [e[3] for e in r.events("store") if e[1] == "self" and e[2] == "chunk_left"]
        final = stores[-1] if stores else None
        key = (final, tuple(reads))
        if key in seen:
            continue
        seen.add(key)
        n += 1
        if final == "None":
            ok = ("2",) in reads
            ctx.ob(R9, hc.qual, f"chunk finished (counter None): CRLF consumed, reads={reads}", ok, "" if ok else "a finished chunk leaves its CRLF on the stream: the next size line is misparsed", witness=r.witness(), node=hc.node)
            continue
        # the chunk stays open: the counter must have been decreased by what was read and be provably positive
        strict = r.cmp(AMT, "<", CL)
        if strict is None and r.cmp(CL, ">", AMT) is not None:
            strict = r.cmp(CL, ">", AMT)
        ok, why = False, ""
        if final is None:
            why = "the counter is left unchanged although the chunk is not closed"
        else:
            fop, fa = _d(_norm(final))
            took = fa[1] if fop == "sub" and len(fa) == 2 and fa[0] == CL else None
            read_it = took is not None and any(_norm(x[0]) == took for x in reads if x)
            if took == AMT:
                ok = strict is True and read_it
            elif took is not None and _d(took)[0] == "min" and set(_d(took)[1]) == {AMT, CL}:
                # chunk_left - min(amt, chunk_left) >= 0, stored only when it is non-zero
                nz = r.truth(final)
                pos_ = r.cmp(final, ">", "0")
                ok = (nz is True or pos_ is True) and read_it
                strict = "non-zero remainder of chunk_left - min(amt, chunk_left)" if ok else strict
            why = "" if ok else f"counter := {final[:70]} with amt < chunk_left decided: {strict}"
        ctx.ob(R9, hc.qual, f"chunk partially read: counter decreased by what was read and provably positive (decided: {strict})", ok,
               "" if ok else (why + ": the counter can reach 0 (or is left unchanged) without the chunk being closed: read_chunked takes 0 for the terminating chunk and silently drops the rest of the body"),
               witness=r.witness(), node=hc.node)
    ctx.sites(R9, n, 2, "exits of _handle_chunk")
    # read_chunked: 0 means terminator, and the size line is only read when the counter is None
    from . import c13_rows as _c13r
    _c13r.r9_size_line_guard(ctx, R9)
