"""C13 clauses decided on effect rows: end-of-stream in _raw_read (R1), the chunk-size line (R2), conflicting lengths (R5)."""
from __future__ import annotations

import ast

from .. import astq
from ..interp import const
from ..model import AnalysisError
from ..rows import GenRule, consistent, effect_rows, helper_closure
from ..terms import K, T, destruct, subterms

RS = "urllib3.response"
HR = f"{RS}.HTTPResponse"


class BodyRule(GenRule):
    """the error catcher is transparent here (its own behaviour is C01-R6 / C13-R6)"""

    def with_stmt(self, it, stmt, st):
        return it.exec_block(stmt.body, [st])


def _inl(m, fi, drop=()):
    return {q for q in set(helper_closure(m, [fi])) - {fi.qual} if q.rsplit(".", 1)[-1] not in drop}


def r1_raw_read(ctx, R1):
    m = ctx.model
    rr = m.method(HR, "_raw_read")
    rule = BodyRule(ctx, rr.module, inline=_inl(m, rr, drop=("_fp_read", "_error_catcher", "_init_length")), pure_self=())
    rows = effect_rows(ctx, rr, rule, HR, budget=2000000)
    ctx.sites(R1, len(rows), 10, "rows of _raw_read")
    AMT, READ1 = "p:amt", "p:read1"
    REM, ENF = "self.length_remaining", "self.enforce_content_length"
    FPCLOSED = T("getattr", "self._fp", K("closed"), "False")
    ncrit = 0
    seen = set()
    for r in rows:
        datas = [T("self._fp_read", *[a for a in e[2:] if isinstance(a, str)]) for e in r.events("call") if e[1] == "self._fp_read"]
        fpc = r.truth(FPCLOSED)
        if not datas:
            continue  # nothing was read on this row (response already closed / no fp)
        if len(datas) > 1:
            raise AnalysisError("_raw_read reads more than once on one path (idiom not recognised)")
        D = datas[0]
        data_t = r.truth(D)
        if data_t is None:
            # emptiness decided through len(data)
            z = r.cmp(T("len", D), "==", "0")
            data_t = (not z) if z is not None else None
        amt_none = r.is_none(AMT)
        amt0 = r.cmp(AMT, "==", "0")
        read1 = r.truth(READ1)
        enforce = r.truth(ENF)
        rem_none, rem0, rem_t = r.is_none(REM), r.cmp(REM, "==", "0"), r.truth(REM)
        rem_in = None  # `length_remaining in (None, 0)` spelt as one membership test
        for k_, v_ in r.st.ts.items():
            if isinstance(k_, tuple) and len(k_) == 4 and k_[0] == "cmp" and k_[1] == REM and k_[2] == "in" and destruct(str(k_[3]))[0] == "const" \
                    and isinstance(destruct(str(k_[3]))[1], (tuple, frozenset, list)) and set(destruct(str(k_[3]))[1]) == {None, 0}:
                rem_in = v_
        nothing_left = rem_none is True or rem0 is True or rem_t is False or rem_in is True
        definite = (rem_none is False and rem0 is False) or rem_t is True or rem_in is False
        if data_t is not False or amt0 is True or enforce is False or nothing_left:
            continue
        if amt_none is True and read1 is not True:
            continue  # http.client's read() without amount raises IncompleteRead itself on a short body (source fact below)
        key = (amt_none, read1, enforce, rem_none, rem0, rem_t, r.out)
        if key in seen:
            continue
        seen.add(key)
        ncrit += 1
        ok = r.out in ("raise:IncompleteRead", "raise:ProtocolError")
        ctx.ob(R1, rr.qual, f"no data, amt-None={amt_none}, read1={read1}, enforce={enforce}, bytes outstanding={'yes' if definite else 'not excluded'} -> {r.out}", ok,
               "" if ok else "the stream ended with bytes outstanding (or without checking) and the read ends normally: a truncated body is presented as complete", witness=r.witness(), node=rr.node)
        if ok:
            closed = any(e[1] == "self._fp.close" for e in r.events("call"))
            ctx.ob(R1, rr.qual, "the stdlib response is closed before IncompleteRead is raised", closed, witness=r.witness(), node=rr.node)
    ctx.sites(R1, ncrit, 2, "end-of-stream rows with bytes possibly outstanding")
    # urllib3 itself must not end the stream early: a row that returns a non-empty piece AND closes the stdlib response does so
    # only because this piece is the last one (declared remaining length, as it was before this piece was counted, equals its size)
    npre, seenp = 0, set()
    for r in rows:
        if not r.returns:
            continue
        datas = [T("self._fp_read", *[a for a in e[2:] if isinstance(a, str)]) for e in r.events("call") if e[1] == "self._fp_read"]
        if len(datas) != 1 or not any(e[1] == "self._fp.close" for e in r.events("call")):
            continue
        D = datas[0]
        z_ = r.cmp(T("len", D), "==", "0")
        if r.truth(D) is False or z_ is True or (r.truth(D) is None and z_ is None):
            continue  # nothing was returned on this row (the end-of-stream rows above), or truthiness and length disagree (infeasible)
        LEN = T("len", D)
        last = (r.cmp(REM, "==", LEN) is True or r.cmp(LEN, "==", REM) is True or r.cmp(T("sub", REM, LEN), "==", "0") is True
                or r.cmp(T("sub", REM, LEN), "<=", "0") is True or r.cmp(REM, "<=", LEN) is True)
        conds = sorted(str(k_[1:]) + "=" + str(v_) for k_, v_ in r.st.ts.items() if isinstance(k_, tuple) and k_[0] == "cmp" and (REM in str(k_[1]) or REM in str(k_[3])))
        key = (last, tuple(conds))
        if key in seenp:
            continue
        seenp.add(key)
        npre += 1
        ctx.ob(R1, rr.qual, "a piece is returned and the stdlib response closed only when the piece is the last one (remaining == len(piece), both before counting it)", last,
               "" if last else f"the stdlib response is closed with a non-empty piece in hand under {conds}: the rest of the body is cut off (a later read() returns b'' or raises on a good response)", witness=r.witness(), node=rr.node)
    ctx.sites(R1, npre, 1, "rows of _raw_read that return a piece and close the stdlib response")


def r2_chunk_size_line(ctx, R2, R10=None):
    m = ctx.model
    seen10 = set()
    uc = m.method(HR, "_update_chunk_length")
    rule = GenRule(ctx, uc.module, inline=_inl(m, uc, drop=("close",)), raising={"int": "builtins.ValueError"}, field_consts={"self.chunk_left": const(None)})
    rows = effect_rows(ctx, uc, rule, HR)
    LINE = T("self._fp.fp.readline")
    FIELDS = {T("idx", T("split", LINE, K(b";"), "1"), "0"), T("idx", T("split", LINE, K(b";")), "0"), T("idx", T("partition", LINE, K(b";")), "0")}
    n = 0
    nok = 0
    for r in rows:
        fault = r.st.ts.get("fault")
        closed = any(e[1] == "self.close" for e in r.events("call"))
        if not r.returns:
            n += 1
            fld = None
            for s_, (t_, _) in r.st.facts.items():
                if s_ in FIELDS:
                    fld = t_
            ok = r.out in ("raise:InvalidChunkLength", "raise:ProtocolError") and closed  # (refused by int() or by an explicit shape test)
            ctx.ob(R2, uc.qual, f"unparsable size line -> {r.out} after close={closed}", ok,
                   "" if ok else "a broken chunk header does not end in a urllib3 protocol error with the response closed", witness=r.witness(), node=uc.node)
        else:
            if fault:
                ctx.ob(R2, uc.qual, "the ValueError handler raises on every path (an empty line, i.e. EOF, is 'Response ended prematurely', not size 0)", False,
                       "a size line that does not parse is accepted", witness=r.witness(), node=uc.node)
                continue
            st = [e[3] for e in r.events("store") if e[1] == "self" and e[2] == "chunk_left"]
            if not any(e[1] == "self._fp.fp.readline" for e in r.events("call")):
                ctx.ob(R2, uc.qual, "with no chunk in progress a size line is read", False, witness=r.witness(), node=uc.node)
                continue
            nok += 1
            ok = len(st) == 1 and destruct(st[0])[0] == "int" and len(destruct(st[0])[1]) == 2 and destruct(st[0])[1][0] in FIELDS and destruct(st[0])[1][1] in ("16", "base=16")
            ctx.ob(R2, uc.qual, "size line parsed as int(line-before-';', 16) into chunk_left", ok, f"chunk_left = {st}", witness=r.witness(), node=uc.node)
            if R10 is not None:
                # int(x, 16) is not a validator: it also accepts '+0', '-0', ' 0', '0x0', '0_0'.  Something must have decided the SHAPE of the
                # field (a pattern applied to it, a character test) on the path that accepts it.
                fld = next((a_ for a_ in FIELDS if any(a_ in t_ for t_ in st)), None)
                decided = []
                if fld is not None:
                    for k_, v_ in r.st.facts.items():
                        if isinstance(k_, str) and fld in k_ and k_ != fld and not k_.startswith("int(") and (v_[0] is not None or v_[1] is not None):
                            decided.append(k_)
                    for k_, v_ in r.st.ts.items():
                        if isinstance(k_, tuple) and len(k_) == 4 and k_[0] == "cmp" and (fld in str(k_[1]) or fld in str(k_[3])) and not str(k_[1]).startswith("int(") and v_ is not None:
                            decided.append(str(k_))
                key10 = bool(decided)
                if key10 not in seen10:
                    seen10.add(key10)
                    ctx.ob(R10, uc.qual, "the chunk-size field is checked to be hex digits before it is converted", bool(decided),
                           "" if decided else "int(field, 16) is the only test: it accepts a sign, surrounding blanks, '_' and a '0x' prefix - a size line corrupted in one byte "
                           "('a0' -> '+0', '-0', ' 0') is taken for the terminating zero-size chunk and the rest of the body is dropped without an error (http.client's own chunk reader, used by read(), parses the same way)",
                           witness=r.witness(), node=uc.node)
    ctx.sites(R2, n, 1, "error exits of _update_chunk_length")
    ctx.sites(R2, nok, 1, "parsing exits of _update_chunk_length")
    ctx.ob(R2, uc.qual, "both refusals exist: InvalidChunkLength for garbage, ProtocolError for a missing line", {r.out for r in rows if not r.returns} >= {"raise:InvalidChunkLength", "raise:ProtocolError"},
           str(sorted({r.out for r in rows})))
    # read_chunked: size line re-read each round, loop ends only at the zero-size chunk
    rc = m.method(HR, "read_chunked")
    rule = BodyRule(ctx, rc.module, inline=_inl(m, rc, drop=("_update_chunk_length", "_handle_chunk", "_decode", "_flush_decoder", "_init_decoder", "_error_catcher", "release_conn", "supports_chunked_reads")),
                    raising={})
    rows = effect_rows(ctx, rc, rule, HR, budget=2000000)
    ends = 0
    seen = set()
    for r in rows:
        if not r.returns:
            continue
        calls = [e[1] for e in r.events("call") if e[1] in ("self._update_chunk_length", "self._handle_chunk")]
        if not calls:
            continue  # early exits before the chunk loop (no body expected, ...)
        ends += 1
        z = r.cmp("self.chunk_left", "==", "0")
        okz = z is True
        pat_ok = all((c == "self._update_chunk_length") == (i % 2 == 0) for i, c in enumerate(calls)) and calls[-1] == "self._update_chunk_length"
        key = (z, tuple(calls))
        if key in seen:
            continue
        seen.add(key)
        ctx.ob(R2, rc.qual, f"the chunk loop ends only at the terminating zero-size chunk (chunk_left == 0: {z}), re-reading the size line each round ({len(calls)} steps)", okz and pat_ok,
               "" if (okz and pat_ok) else "the loop can end before the zero-size chunk, or a chunk is handled without its size line having been read", witness=r.witness(), node=rc.node)
    ctx.sites(R2, ends, 1, "normal ends of the chunk loop")


def r5_conflicting_lengths(ctx, R5):
    m = ctx.model
    il = m.method(HR, "_init_length")
    rule = GenRule(ctx, il.module, inline=_inl(m, il), raising={"int": "builtins.ValueError"}, quiet=("log.warning",))
    rows = effect_rows(ctx, il, rule, HR, budget=900000)
    CL = None
    for r in rows:
        for s_ in r.st.facts:
            if destruct(s_)[0] == "get" and destruct(s_)[1][1:2] == (K("content-length"),):
                CL = s_
    if CL is None:
        raise AnalysisError("_init_length: the Content-Length lookup was not found on any row")
    SPL = T("split", CL, K(","))
    ELT = T("int", T("each", SPL))
    SETS = {T("setcomp", ELT, SPL), T("set", T("rep", ELT, SPL))} | {T("set", T(k, ELT, SPL)) for k in ("gen", "listcomp")}
    n_multi = n_neg = n_chunked = 0
    seen = set()
    shape_ok = None
    for r in rows:
        multi = None
        for k_, v_ in r.st.ts.items():
            if isinstance(k_, tuple) and len(k_) == 4 and k_[0] == "cmp" and destruct(k_[1])[0] == "len" and str(k_[3]).lstrip("-").isdigit() and (k_[2], k_[3]) not in ((">", "1"), ("==", "1"), ("!=", "1")) \
                    and k_[2] in (">", ">=", "<", "<=", "==", "!=") and CL in k_[1]:
                # the number of distinct values is compared with another bound: decide it on sizes 1, 2, 3
                import operator as _op
                f_ = {">": _op.gt, ">=": _op.ge, "<": _op.lt, "<=": _op.le, "==": _op.eq, "!=": _op.ne}[k_[2]]
                sizes = {n_ for n_ in (1, 2, 3) if f_(n_, int(k_[3])) == v_}
                if sizes and all(n_ > 1 for n_ in sizes):
                    multi = True
                elif sizes == {1}:
                    multi = False
                else:
                    ctx.ob(R5, il.qual, f"the distinctness test `len(values) {k_[2]} {k_[3]}` separates one value from several", False,
                           f"on this row {sorted(sizes)} distinct values are possible: conflicting lengths can be accepted (or a single one refused)", witness=r.witness(), node=il.node)
                    multi = None
                    n_multi += 1
            if isinstance(k_, tuple) and len(k_) == 4 and k_[0] == "cmp" and k_[2] == ">" and k_[3] == "1" and destruct(k_[1])[0] == "len":
                multi = v_
                inner = destruct(k_[1])[1][0]
                if inner not in (T("set"), T("list")):  # (the builder before its loop ran: the zero-iteration path of the abstraction)
                    shape_ok = (inner in SETS) if shape_ok is None else (shape_ok and inner in SETS)
            if isinstance(k_, tuple) and len(k_) == 4 and k_[0] == "cmp" and k_[2] in ("!=", "==") and k_[3] == "1" and destruct(k_[1])[0] == "len":
                multi = (not v_) if k_[2] == "==" else v_
                inner = destruct(k_[1])[1][0]
                shape_ok = (inner in SETS) if shape_ok is None else (shape_ok and inner in SETS)
        if multi is True:
            n_multi += 1
            if ("multi", r.out) not in seen:
                seen.add(("multi", r.out))
                ctx.ob(R5, il.qual, f"more than one distinct Content-Length value -> {r.out}", r.out == "raise:InvalidHeader",
                       "" if r.out == "raise:InvalidHeader" else "conflicting lengths are accepted: the body boundary depends on which one a peer believes", witness=r.witness(), node=il.node)
        neg = None
        for k_, v_ in r.st.ts.items():
            if isinstance(k_, tuple) and len(k_) == 4 and k_[0] == "cmp" and k_[3] == "0" and isinstance(k_[1], str) and CL in k_[1]:
                if k_[2] == "<":
                    neg = v_
                elif k_[2] == ">=":
                    neg = not v_
        if neg is True and r.returns:
            n_neg += 1
            if ("neg", r.ret) not in seen:
                seen.add(("neg", r.ret))
                ctx.ob(R5, il.qual, f"a negative length is treated as unknown (returns {r.ret})", r.ret in ("None", "0"), witness=r.witness(), node=il.node)
        if r.truth("self.chunked") is True and r.is_none(CL) is False and r.returns:
            n_chunked += 1
            if ("chunked", r.ret) not in seen:
                seen.add(("chunked", r.ret))
                ctx.ob(R5, il.qual, f"chunked responses ignore Content-Length (returns {r.ret})", r.ret == "None", witness=r.witness(), node=il.node)
        parse_fault = r.st.ts.get("fault") and any(CL in set(subterms(a)) for a in r.st.ts.get("fault_args", ()))
        if parse_fault and r.returns and ("fault", r.ret) not in seen:
            seen.add(("fault", r.ret))
            ctx.ob(R5, il.qual, f"an unparsable Content-Length is treated as unknown (returns {r.ret})", r.ret in ("None", "0"), witness=r.witness(), node=il.node)
    if not n_multi:
        # the distinctness test is spelt in a way the rule does not recognise: decide what can be decided - some row that parsed
        # the header values refuses with InvalidHeader (13.2: provenance, not the exact test)
        refusing = [r for r in rows if r.out == "raise:InvalidHeader" and r.is_none(CL) is False and r.truth("self.chunked") is not True]
        ctx.ob(R5, il.qual, "conflicting Content-Length values can be refused with InvalidHeader (distinctness test not recognised: provenance only)", bool(refusing),
               "" if refusing else "no path of _init_length raises InvalidHeader any more", witness=refusing[0].witness() if refusing else None, node=il.node)
        n_multi = len(refusing)
        shape_ok = True if refusing else shape_ok
    ctx.sites(R5, n_multi, 1, "rows with more than one distinct Content-Length")
    ctx.sites(R5, n_neg, 1, "rows with a negative length")
    ctx.sites(R5, n_chunked, 1, "rows with chunked transfer-encoding and a Content-Length")
    ctx.ob(R5, il.qual, "values are compared as integers (set of int over the comma-separated values)", bool(shape_ok))
    ok = "urllib3.exceptions.InvalidHeader" in m.classes and not m.issub("urllib3.exceptions.InvalidHeader", "builtins.ValueError")
    ctx.ob(R5, il.qual, "InvalidHeader is not a ValueError (an enclosing `except ValueError` cannot swallow it)", ok)


def r9_size_line_guard(ctx, R9):
    m = ctx.model
    uc = m.method(HR, "_update_chunk_length")
    rule = GenRule(ctx, uc.module, inline=_inl(m, uc, drop=("close",)), raising={"int": "builtins.ValueError"})
    rows = effect_rows(ctx, uc, rule, HR)
    ctx.sites(R9, len(rows), 2, "rows of _update_chunk_length")
    seen = set()
    for r in rows:
        none = r.is_none("self.chunk_left")
        read = any(e[1] == "self._fp.fp.readline" for e in r.events("call"))
        if (none, read) in seen:
            continue
        seen.add((none, read))
        ok = none is not None and read == none
        ctx.ob(R9, uc.qual, f"a new size line is read exactly when the counter is None (counter None={none}, line read={read})", ok,
               "" if ok else "a size line is read in the middle of a chunk (payload bytes parsed as a size), or not read when a new chunk starts", witness=r.witness(), node=uc.node)


def _call_args(e):
    return [a for a in e[2:] if isinstance(a, str)]


def _ctor_fields(m, q):
    """positional parameter names of a repo class's constructor (NamedTuple / dataclass fields or __init__ parameters)"""
    ci = m.classes.get(q)
    if ci is None:
        return []
    init = m.find_method(q, "__init__")
    if init is not None and init.qual.startswith("urllib3."):
        return init.params()
    return [n.target.id for n in ci.node.body if isinstance(n, ast.AnnAssign) and isinstance(n.target, ast.Name)]


def r7_preload(ctx, R7):
    """preloading and .data go through read(): decided on the rows of the constructor and of the property"""
    m = ctx.model
    init = m.method(HR, "__init__")
    rule = GenRule(ctx, init.module, inline=_inl(m, init, drop=("_init_length", "_init_decoder")))
    rows = [r for r in effect_rows(ctx, init, rule, HR, budget=600000) if r.returns]
    n = nread = 0
    seen = set()
    for r in rows:
        bodies = [e[3] for e in r.events("store") if e[1] == "self" and e[2] == "_body" and e[3] != "None"]
        pre = r.truth("p:preload_content")
        k = (tuple(bodies), pre)
        if k in seen:
            continue
        seen.add(k)
        for b in bodies:
            n += 1
            op, _ = destruct(b)
            given = b == "p:" + init.params()[0]  # bytes/str handed in by the caller: not network data
            ok = op == "self.read" or given
            if op == "self.read":
                nread += 1
            ctx.ob(R7, init.qual, f"a body stored at construction is the caller's own bytes or comes from read() [{b[:60]}]", ok,
                   "" if ok else f"the preloaded body is `{b}`: it bypasses read(), so a truncated preloaded body is not detected like a streamed one", witness=r.witness(), node=init.node)
        if pre is False:
            reads = [e for e in r.events("call") if e[1] == "self.read"]
            ctx.ob(R7, init.qual, "nothing is read at construction unless preload_content is set", not reads, str(reads), witness=r.witness(), node=init.node)
    ctx.sites(R7, nread, 1, "rows of the constructor that preload the body through read()")
    dp = m.classes[HR].methods.get("data")
    if dp is None:
        raise AnalysisError("HTTPResponse.data not found")
    drows = [r for r in effect_rows(ctx, dp, GenRule(ctx, dp.module, inline=_inl(m, dp)), HR) if r.returns]
    nread = 0
    for r in drows:
        t = r.out[len("return:"):]
        op, args = destruct(t)
        if op == "self.read":
            nread += 1
            ok = "cache_content=True" in args
            ctx.ob(R7, dp.qual, ".data reads through read(cache_content=True)", ok, t, witness=r.witness(), node=dp.node)
        else:
            ok = t in ("self._body", "None") or r.truth("self._body") is True
            ctx.ob(R7, dp.qual, f".data otherwise returns the cached body or nothing [{t[:50]}]", ok, t, witness=r.witness(), node=dp.node)
    ctx.sites(R7, nread, 1, "rows of .data that read the body")


def r8_enforcement_chain(ctx, R8):
    """the enforce_content_length option is carried unchanged from _make_request to the response object (rows of each hop)"""
    m = ctx.model
    CP, CN = "urllib3.connectionpool", "urllib3.connection"
    OPT = "enforce_content_length"
    POPT = f"p:{OPT}"
    from ..rows import bind
    # hop 1: _make_request -> conn.request
    mr = m.method(f"{CP}.HTTPConnectionPool", "_make_request")
    rq = m.method(f"{CN}.HTTPConnection", "request")
    conn_p = "p:" + mr.params()[0]
    rows = effect_rows(ctx, mr, GenRule(ctx, mr.module, inline=_inl(m, mr)), mr.clsq, budget=1500000)
    seen, n = set(), 0
    for r in rows:
        for e in r.events("call"):
            if e[1] == f"{conn_p}.request":
                b = bind(rq.params(), _call_args(e))
                k = b.get(OPT)
                if k in seen:
                    continue
                seen.add(k)
                n += 1
                ctx.ob(R8, mr.qual, f"_make_request forwards {OPT} to the connection's request() [{k}]", k == POPT,
                       "" if k == POPT else f"request() is called with {OPT}={k}: the caller's setting is lost (an unset argument falls back to the default)", witness=r.witness(), node=mr.node)
    ctx.sites(R8, n, 1, "request() calls in _make_request")
    # hop 2: request() -> the stored response options
    from .reqrows import request_rows
    fi, rrows = request_rows(ctx)
    seen, n = set(), 0
    for rr in rrows:
        r = getattr(rr, "r", rr)
        for e in r.events("store"):
            if e[1] == "self" and e[2] == "_response_options" and e[3] != "None":
                if e[3] in seen:
                    continue
                seen.add(e[3])
                n += 1
                op, args = destruct(e[3])
                q = op[4:] if op and op.startswith("new:") else op
                fields = _ctor_fields(m, m.resolve_local(fi.module, q) or "") if q else []
                k = bind(fields, list(args)).get(OPT) if op else None
                ok = k == "p:" + OPT
                ctx.ob(R8, fi.qual, f"request() stores {OPT} in the response options", ok, "" if ok else f"stored options: {e[3][:200]}", witness=r.witness(), node=fi.node)
    ctx.sites(R8, n, 1, "stores of the response options in request()")
    # hop 3: getresponse() -> HTTPResponse(...)
    gr = m.method(f"{CN}.HTTPConnection", "getresponse")
    rows = [r for r in effect_rows(ctx, gr, GenRule(ctx, gr.module, inline=_inl(m, gr)), gr.clsq, budget=600000) if r.returns]
    hinit = m.method(HR, "__init__")
    seen, n = set(), 0
    for r in rows:
        t = r.out[len("return:"):]
        for sub in set(subterms(t)):
            op, args = destruct(sub)
            if op == "new:HTTPResponse":
                k = bind(hinit.params(), list(args)).get(OPT)
                if k in seen:
                    continue
                seen.add(k)
                n += 1
                ro_fields = _ctor_fields(m, m.resolve_local(gr.module, "_ResponseOptions") or "")
                by_index = T("idx", "self._response_options", str(ro_fields.index(OPT))) if OPT in ro_fields else None
                ok = k in (f"self._response_options.{OPT}", by_index)  # attribute access or positional unpacking of the named tuple
                ctx.ob(R8, gr.qual, "getresponse() builds the response with the stored option", ok, "" if ok else f"{OPT}={k}", witness=r.witness(), node=gr.node)
    ctx.sites(R8, n, 1, "HTTPResponse constructions in getresponse()")
    # hop 4: the response keeps it
    rule = GenRule(ctx, hinit.module, inline=_inl(m, hinit, drop=("_init_length", "_init_decoder")))
    rows = [r for r in effect_rows(ctx, hinit, rule, HR, budget=600000) if r.returns]
    vals = {tuple(e[3] for e in r.events("store") if e[1] == "self" and e[2] == OPT) for r in rows}
    ok = vals == {(POPT,)}
    ctx.ob(R8, hinit.qual, "the response keeps the option it was given", ok, "" if ok else f"stores of self.{OPT} per path: {sorted(vals)}", node=hinit.node)
