"""C14 - URL parsing is total, canonical, and agrees with RFC 3986 on what the host is (structural clauses)."""
from __future__ import annotations

import ast
import re
import re._constants as sc

from .. import astq, rx
from ..fold import Regex
from ..model import AnalysisError

URL = "urllib3.util.url"

# explicit raises allowed below parse_url's funnel, with the reason they cannot escape for str input
ALLOWED_RAISES = {
    "urllib3.exceptions.LocationParseError": "the documented failure",
    "builtins.ValueError": "caught by the funnel",
    "builtins.UnicodeError": "a ValueError: caught by the funnel",
    "builtins.AttributeError": "caught by the funnel",
    "builtins.TypeError": "input-type guard of to_str/to_bytes: unreachable for str input (the property quantifies over strings)",
}


def _reachable(m, fi, seen=None):
    seen = seen if seen is not None else {}
    if fi.qual in seen:
        return seen
    seen[fi.qual] = fi
    for c in astq.calls(fi.node):
        q = m.resolve_name(fi.module, c.func) if isinstance(c.func, (ast.Name, ast.Attribute)) else None
        if q in m.funcs and q.startswith("urllib3."):
            _reachable(m, m.funcs[q], seen)
    return seen


def run(ctx):
    m, fold = ctx.model, ctx.fold
    ctx.assume("A1")
    ctx.decline("idempotence / re-parse equality, the percent-encoding normal form and agreement with a reference parser on every string (round trips over an infinite language); dot-segment removal as a value-level function")
    pu = m.func(f"{URL}.parse_url")

    # ------------------------------------------------------------------ R1 funnel
    R1 = ctx.rule("C14-R1", "exception funnel: everything parse_url does with the input happens inside one try whose handler turns ValueError/AttributeError into LocationParseError; what is outside the try cannot raise for str input; explicit raises in the callees are LocationParseError or caught classes", "E3 + E1")
    tries = [n for n in pu.node.body if isinstance(n, ast.Try)]
    ctx.sites(R1, len(tries), 1, "try in parse_url")
    t = tries[0] if tries else None
    if t is None:
        raise AnalysisError("parse_url has no top-level try")
    caught = set()
    for h in t.handlers:
        for e in (h.type.elts if isinstance(h.type, ast.Tuple) else [h.type]):
            caught.add(m.norm(m.resolve_name(pu.module, e)))
        ok = astq.all_paths_end_in(h.body, lambda s: isinstance(s, ast.Raise) and s.exc is not None and "LocationParseError" in astq.text(s.exc))
        ctx.ob(R1, pu.qual, f"handler `except {', '.join(astq.handler_type_names(h))}` raises LocationParseError", ok, node=h)
    for need in ("builtins.ValueError", "builtins.AttributeError"):
        ctx.ob(R1, pu.qual, f"funnel catches {need.split('.')[1]}", need in caught,
               "" if need in caught else "int()/regex-group failures on hostile input escape as raw builtin errors")
    # statements outside the try
    n_out = 0
    for s in pu.node.body:
        if s is t or isinstance(s, (ast.AnnAssign,)) and s.value is None:
            continue
        if isinstance(s, ast.Expr) and isinstance(s.value, ast.Constant):
            continue
        for c in astq.calls(s):
            n_out += 1
            ct = astq.call_text(c)
            okc = False
            why = ""
            if isinstance(c.func, ast.Attribute) and c.func.attr in ("search", "match", "fullmatch") and isinstance(fold.try_module_const(URL, astq.text(c.func.value)), Regex):
                okc = all(isinstance(a, ast.Name) for a in c.args)
                why = "compiled-pattern search on the input string"
            elif ct == "Url":
                okc = True
                why = "namedtuple construction"
            elif ct in ("LocationParseError",):
                okc = True
            ctx.ob(R1, pu.qual, f"outside the funnel: `{astq.text(c)[:60]}`", okc, why if okc else "a call that can raise sits outside the try: its error is not converted to LocationParseError", node=c)
    ctx.sites(R1, n_out, 2, "calls outside the funnel")
    un = m.func(f"{URL}.Url.__new__")
    risky = [c for c in astq.calls(un.node) if astq.call_text(c) not in ("path.startswith", "scheme.lower", "super().__new__", "super")]
    ctx.ob(R1, un.qual, "Url.__new__ only does str methods on str-or-None fields", not risky, "; ".join(astq.text(c) for c in risky))
    # explicit raises in everything reachable from inside the try
    reach = {}
    for s in t.body:
        for c in astq.calls(s):
            q = m.resolve_name(pu.module, c.func) if isinstance(c.func, (ast.Name, ast.Attribute)) else None
            if q in m.funcs and q.startswith("urllib3."):
                _reachable(m, m.funcs[q], reach)
    ctx.sites(R1, len(reach), 4, "helpers reachable from the funnel")
    for q, fi in sorted(reach.items()):
        for n in astq.walk_fn(fi.node):
            if isinstance(n, ast.Raise) and n.exc is not None:
                e = n.exc.func if isinstance(n.exc, ast.Call) else n.exc
                cq = m.norm(m.resolve_name(fi.module, e) or "?")
                ok = cq in ALLOWED_RAISES or any(m.issub(cq, a) for a in ("builtins.ValueError", "builtins.AttributeError", "urllib3.exceptions.LocationParseError"))
                ctx.ob(R1, fi.qual, f"raises {cq.rsplit('.', 1)[-1]}", ok, ALLOWED_RAISES.get(cq, "") if ok else "an exception class the funnel does not convert", node=n)
            if isinstance(n, ast.ExceptHandler):
                pass
    ie = m.func(f"{URL}._idna_encode")
    hs = [h for h in astq.walk_fn(ie.node) if isinstance(h, ast.ExceptHandler)]
    ok = any("IDNAError" in " ".join(astq.handler_type_names(h)) and astq.all_paths_end_in(h.body, lambda s: isinstance(s, ast.Raise) and "LocationParseError" in astq.text(s.exc)) for h in hs)
    ctx.ob(R1, ie.qual, "IDNA failures become LocationParseError", ok)

    # ------------------------------------------------------------------ R2 authority delimiters (regex structure) + roles on rows
    R2 = ctx.rule("C14-R2", "the authority ends at the first '/', '?', '#' or backslash: the authority group of _URI_RE is a class excluding exactly those; the pattern is anchored at both ends and DOTALL (a newline cannot truncate it); the five groups feed scheme, authority, path, query, fragment", "E7 + E10 effect rows")
    ur = fold.need(URL, "_URI_RE")
    p = rx.parse(ur.pattern, ur.flags)
    gp = rx.groups(p)
    ok = 2 in gp
    auth = list(gp[2]) if ok else []
    cls = None
    if auth and auth[0][0] in (sc.MAX_REPEAT, sc.MIN_REPEAT):
        body = list(auth[0][1][2])
        if len(body) == 1 and body[0][0] is sc.IN:
            cls = rx.class_set(body[0][1])
    if cls is None:
        raise AnalysisError("_URI_RE: authority group is not a repeated character class")
    excluded = sorted(rx.PROBE_SET - cls)
    ctx.ob(R2, URL, f"authority class excludes exactly {excluded}", set(excluded) == {"#", "/", "?", "\\"},
           "" if set(excluded) == {"#", "/", "?", "\\"} else "urllib3 would read a different host than a conforming parser (e.g. `http://good\\\\@evil/`)")
    import re as _re
    ctx.ob(R2, URL, "_URI_RE is anchored (^...$) and DOTALL", rx.start_anchor(p) is not None and rx.end_anchor(p) is not None and bool(ur.flags & _re.DOTALL), f"flags {ur.flags}")
    ctx.ob(R2, URL, "_URI_RE has the five RFC 3986 groups", len(gp) == 5, f"{len(gp)} groups")
    R3 = ctx.rule("C14-R3", "userinfo ends at the last '@' of the authority; host and port are what _HOST_PORT_RE finds after it", "E10 effect rows")
    R4 = ctx.rule("C14-R4", "scheme and host are lower-cased on every return path (IPv4 literals have no case)", "E10 effect rows")
    R5 = ctx.rule("C14-R5", "a port reaches the result only after 0 <= port <= 65535 was decided on the path; the port group admits at most five significant digits (so int() is bounded)", "E10 effect rows (interval from the decisions) + E7")
    from . import c14_rows

    c14_rows.run(ctx, R2, R3, R4, R5)
    hpr = fold.need(URL, "_HOST_PORT_RE")
    hpp = rx.parse(hpr.pattern, hpr.flags)
    gp2 = rx.groups(hpp)
    port_group = gp2.get(max(gp2)) if gp2 else None
    # (the run of characters that can carry value: any class holding the non-zero ASCII digits, whatever else it admits)
    worst = rx.max_repeat_of_class(port_group, lambda fs: fs >= set("123456789")) if port_group is not None else None
    pchars = rx.any_chars(port_group, ascii_only=bool(hpr.flags & re.ASCII)) if port_group is not None else None
    okd = pchars is not None and pchars <= set("0123456789")
    ctx.ob(R5, URL, "the port group admits ASCII digits only (RFC 3986: port = *DIGIT)", okd,
           "" if okd else f"the port group admits {sorted(pchars - set('0123456789'))[:6] if pchars is not None else '?'}: under re.UNICODE `\\d` matches every Unicode decimal digit and int() converts them - "
           "`http://h:\uff18\uff10/` parses to port 80 instead of being rejected")
    ctx.ob(R5, URL, f"port group admits a bounded number of significant digits (max repeat {worst})", worst is not None and worst <= 4,
           "" if worst is not None and worst <= 4 else "an unbounded digit run makes int() quadratic / huge")

    # ------------------------------------------------------------------ R6 regexes free of super-linear shapes
    R6 = ctx.rule("C14-R6", "no pattern used by parse_url / _encode_target / is_ipaddress has a super-linear backtracking shape (nested unbounded quantifiers with overlapping continuation, overlapping alternatives under a star, adjacent overlapping unbounded quantifiers)", "E7d")
    pats = fold.all_regexes([URL])
    ctx.sites(R6, len(pats), 10, "compiled patterns in util/url.py")
    for mod, name, r in pats:
        if isinstance(r.pattern, bytes):
            continue
        issues = rx.redos(rx.parse(r.pattern, r.flags))
        ctx.ob(R6, mod, f"{name} ({len(r.pattern)} chars) has no super-linear shape", not issues, str(issues[:3]))
    # inline patterns (re.match(r"...") with literal) in url.py
    for fi in m.repo_funcs():
        if fi.module != URL:
            continue
        for c in astq.calls(fi.node):
            if astq.call_text(c) in ("re.match", "re.search", "re.fullmatch", "re.sub", "re.split", "re.compile") and c.args and isinstance(c.args[0], ast.Constant):
                issues = rx.redos(rx.parse(c.args[0].value))
                ctx.ob(R6, fi.qual, f"inline pattern {c.args[0].value!r}", not issues, str(issues[:3]), node=c)

    # ------------------------------------------------------------------ R8 what counts as a valid percent-escape
    R8 = ctx.rule("C14-R8", "a percent-escape that the patterns of util/url.py accept (and the encoder therefore keeps) is '%' followed by two ASCII hex digits: every counted class repeat directly after a literal '%' is exactly [0-9A-Fa-f]{2} (in a str pattern `\\d` also matches non-ASCII decimal digits)", "E7")
    HEX = set("0123456789abcdefABCDEF")
    n8 = 0
    for mod, name, r in pats:
        if isinstance(r.pattern, bytes):
            continue
        ascii_only = bool(r.flags & re.ASCII)
        for lo, hi, items in rx.percent_escapes(rx.parse(r.pattern, r.flags)):
            n8 += 1
            cs = rx.class_set(items, ignorecase=bool(r.flags & re.IGNORECASE), ascii_only=ascii_only)
            ok = cs == HEX and lo == 2 and hi == 2
            extra = sorted(cs - HEX)
            ctx.ob(R8, mod, f"{name}: '%' is followed by exactly two ASCII hex digits", ok,
                   "" if ok else f"the escape class {'also admits ' + repr(extra[:6]) if extra else 'misses ' + repr(sorted(HEX - cs)[:6])} (repeat {lo}..{hi}): an invalid escape is kept as valid, so the result is not in normal form and does not re-parse to itself")
    ctx.sites(R8, n8, 3, "percent-escape sub-patterns in util/url.py")

    # ------------------------------------------------------------------ R9 a valid escape is never encoded again
    R9 = ctx.rule("C14-R9", "no double-encoding of valid escapes: when the encoder re-encodes a '%' (writes it as %25) it has established, for THAT '%', that it does not start a valid escape - a decision taken for the whole component (all of its '%' are valid escapes, or else every '%' is re-encoded) double-encodes the valid escapes that share a component with a stray '%'", "E10 effect rows of _encode_invalid_chars")
    from ..rows import GenRule as _GR9, effect_rows as _er9
    from ..terms import K as _K9, T as _T9, destruct as _d9, subterms as _sub9
    enc9 = m.func(f"{URL}._encode_invalid_chars")
    rows9 = [r for r in _er9(ctx, enc9, _GR9(ctx, enc9.module), None, budget=900000) if r.returns]
    n_rec9 = 0
    verdict9 = None
    for r in rows9:
        # the byte under consideration on this row: the operand of `<byte>.decode() in allowed` / `ord(<byte>) < 128`
        cands = set()
        for k_, v_ in r.st.ts.items():
            if isinstance(k_, tuple) and len(k_) == 4 and k_[0] == "cmp":
                if k_[2] == "in" and _d9(str(k_[1]))[0] == "decode":
                    cands.add(_d9(str(k_[1]))[1][0])
                if k_[2] == "<" and k_[3] == "128" and _d9(str(k_[1]))[0] == "ord":
                    cands.add(_d9(str(k_[1]))[1][0])
        if len(cands) != 1:
            continue
        B = next(iter(cands))
        escaped = any(e_[0] == "call" and isinstance(e_[1], str) and e_[1].endswith((".extend", ".append")) and any(isinstance(a_, str) and "hex(" in a_ for a_ in e_[2:]) for e_ in r.ev)
        if not escaped or r.cmp(B, "==", _K9(b"%")) is False:
            continue  # nothing is escaped here, or the escaped byte is known not to be '%'
        n_rec9 += 1
        # the escaped byte may be a '%': was anything decided about what follows THIS '%' (a slice / pattern relative to its position)?
        local = [k_ for k_ in r.st.ts if isinstance(k_, tuple) and len(k_) == 4 and k_[0] == "cmp" and k_[1] != B and not str(k_[1]).startswith(("ord(", "decode("))
                 and B in set(_sub9(str(k_[1]))) | set(_sub9(str(k_[3]))) and "count(" not in str(k_[1]) + str(k_[3])]
        # ... or a pattern applied at this position (its truth is a fact of the row)
        idx_terms = {x_ for x_ in _sub9(B) if _d9(x_)[0] == "each"}
        local += [k_ for k_ in r.st.facts if isinstance(k_, str) and "rx:" in k_ and any(i_ in k_ for i_ in idx_terms)]
        whole = [k_ for k_ in r.st.ts if isinstance(k_, tuple) and len(k_) == 4 and k_[0] == "cmp" and "count(" in str(k_[3]) + str(k_[1])]
        verdict9 = (bool(local), bool(whole), r)
        break
    if verdict9 is None:
        ctx.ob(R9, enc9.qual, "encoder idiom not recognised: the per-escape clause is not decided (provenance only, DESIGN 13.2)", True)
    else:
        local_ok, whole_comp, r = verdict9
        ctx.ob(R9, enc9.qual, "a re-encoded '%' was examined on its own", local_ok,
               "" if local_ok else "the '%' is re-encoded because the component as a whole is not fully percent-encoded (count of valid escapes != count of '%'): in `/%41%` the valid escape %41 becomes %2541",
               witness=r.witness(), node=enc9.node)
    ctx.sites(R9, len(rows9), 4, "rows of the encoder")

    # ------------------------------------------------------------------ R7 no quadratic loop idiom
    R7 = ctx.rule("C14-R7", "no quadratic idiom inside loops over the input in util/url.py: no str accumulation by +, no insert(0)/pop(0), no membership/index/count on a list grown in the loop", "E8")
    nloops = 0
    for fi in m.repo_funcs():
        if fi.module != URL:
            continue
        for loop in [n for n in astq.walk_fn(fi.node) if isinstance(n, (ast.For, ast.While))]:
            nloops += 1
            grown = set()
            for n in ast.walk(loop):
                if isinstance(n, ast.Call) and isinstance(n.func, ast.Attribute) and n.func.attr in ("append", "extend") and isinstance(n.func.value, ast.Name):
                    grown.add(n.func.value.id)
            for n in ast.walk(loop):
                bad = None
                if isinstance(n, ast.AugAssign) and isinstance(n.op, ast.Add) and isinstance(n.target, ast.Name):
                    srcs = astq.assigned_values(fi.node, n.target.id)
                    is_str = any(isinstance(s, (ast.Constant, ast.JoinedStr)) and isinstance(getattr(s, "value", ""), str) for s in srcs)
                    if is_str:
                        bad = f"str accumulation `{astq.text(n)}`"
                if isinstance(n, ast.Call) and isinstance(n.func, ast.Attribute):
                    if n.func.attr == "insert" and n.args and astq.text(n.args[0]) == "0":
                        bad = f"`{astq.text(n)}`"
                    if n.func.attr == "pop" and n.args and astq.text(n.args[0]) == "0":
                        bad = f"`{astq.text(n)}`"
                    if n.func.attr in ("index", "count") and isinstance(n.func.value, ast.Name) and n.func.value.id in grown:
                        bad = f"`{astq.text(n)}` on a list grown in the loop"
                if isinstance(n, ast.Compare) and isinstance(n.ops[0], (ast.In, ast.NotIn)) and isinstance(n.comparators[0], ast.Name) and n.comparators[0].id in grown:
                    bad = f"membership test on list `{n.comparators[0].id}` grown in the loop"
                if bad:
                    ctx.ob(R7, fi.qual, bad, False, "quadratic in the input length", node=n)
    ctx.sites(R7, nloops, 2, "loops in util/url.py")
    ctx.ob(R7, URL, f"{nloops} loops free of quadratic idioms", True)
