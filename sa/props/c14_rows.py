"""C14-R2(roles)/R3/R4/R5 on effect rows of parse_url and _normalize_host."""
from __future__ import annotations

import ast

from .. import astq, rx
from ..model import AnalysisError
from ..rows import GenRule, effect_rows, private_helpers
from ..terms import K, T, destruct, norm, subterms

URL = "urllib3.util.url"
BIG = ("_normalize_host", "_encode_invalid_chars", "_remove_path_dot_segments", "_idna_encode", "_encode_target")


def _bounds(row, x):
    """(lo, hi) integer bounds on term x implied by the row's decisions against integer constants."""
    lo, hi = None, None

    def upd_lo(v):
        nonlocal lo
        lo = v if lo is None else max(lo, v)

    def upd_hi(v):
        nonlocal hi
        hi = v if hi is None else min(hi, v)

    for k, v in row.st.ts.items():
        if not (isinstance(k, tuple) and len(k) == 4 and k[0] == "cmp"):
            continue
        _, a, op, b = k
        ca, cb = destruct(a), destruct(b)
        if a == x and cb[0] == "const" and isinstance(cb[1], int) and not isinstance(cb[1], bool):
            c = cb[1]
            if op == "<=":
                upd_hi(c) if v else upd_lo(c + 1)
            elif op == "<":
                upd_hi(c - 1) if v else upd_lo(c)
            elif op == ">=":
                upd_lo(c) if v else upd_hi(c - 1)
            elif op == ">":
                upd_lo(c + 1) if v else upd_hi(c)
        elif b == x and ca[0] == "const" and isinstance(ca[1], int) and not isinstance(ca[1], bool):
            c = ca[1]
            if op == "<=":      # c <= x
                upd_lo(c) if v else upd_hi(c - 1)
            elif op == "<":     # c < x
                upd_lo(c + 1) if v else upd_hi(c)
            elif op == ">=":    # c >= x
                upd_hi(c) if v else upd_lo(c + 1)
            elif op == ">":
                upd_hi(c - 1) if v else upd_lo(c)
    return lo, hi


def run(ctx, R2, R3, R4, R5):
    m, fold = ctx.model, ctx.fold
    pu = m.func(f"{URL}.parse_url")
    helpers = private_helpers(m, URL, exclude=BIG)
    ctx.extra["c14_inlined_helpers"] = sorted(helpers)
    rows = effect_rows(ctx, pu, GenRule(ctx, URL, inline=helpers, raising={"int": "builtins.ValueError"},
                                        pure_self=("_normalize_host", "_encode_invalid_chars", "_remove_path_dot_segments")), None, budget=1500000)
    rets = [r for r in rows if r.returns and r.ret and r.ret.startswith("new:Url(")]
    if not rets:
        raise AnalysisError("parse_url: no row returns a Url(...) built from keyword components")
    ctx.sites(R2, len(rets), 10, "rows of parse_url returning a Url")

    url_fields = [p_ for p_ in m.func(f"{URL}.Url.__new__").params() if p_ != "cls"]

    def fields(r):
        op, args = destruct(r.ret)
        out = {}
        for i, a in enumerate(args):
            k, eq, v = a.partition("=")
            if eq and k.isidentifier():
                out[k] = v
            elif i < len(url_fields):
                # positional construction: the i-th parameter of Url.__new__
                out[url_fields[i]] = a
        return out

    def groups_of(t, regex):
        """the `<regex>.match(X).groups()` terms occurring in t -> {term: X}"""
        out = {}
        for x in subterms(t):
            if x.endswith(".groups()") and x.startswith(f"rx:{regex}.") and ".match(" in x or (x.endswith(".groups()") and f"rx:{regex}.match(" in x):
                inner = x[len(f"rx:{regex}.match("):-len(").groups()")] if x.startswith(f"rx:{regex}.match(") else None
                out[x] = inner
        return out

    seen2, seen3, seen4, seen5 = set(), set(), set(), set()
    n3 = n5 = 0
    for r in rets:
        f = fields(r)
        G = None
        for k in ("scheme", "path", "query", "fragment", "host", "auth"):
            for g, inner in groups_of(f.get(k, ""), "_URI_RE").items():
                G = g
        if G is None:
            continue
        # ---- R2: roles of the five groups
        roles = {"scheme": 0, "path": 2, "query": 3, "fragment": 4}
        for comp, gi in roles.items():
            t = f.get(comp, "")
            used = sorted({int(x[len(G) + 5:-1]) for x in subterms(t) if x.startswith(f"idx({G},") and x[len(G) + 5:-1].isdigit()})
            key = (comp, tuple(used))
            if not used or key in seen2:
                continue
            seen2.add(key)
            ctx.ob(R2, pu.qual, f"the {comp} of the result is taken from group {gi} of _URI_RE (uses {used})", used == [gi],
                   "" if used == [gi] else "the components of the URI are mixed up", witness=r.witness(), node=pu.node)
        for comp in ("auth", "host", "port"):
            t = f.get(comp, "")
            used = sorted({int(x[len(G) + 5:-1]) for x in subterms(t) if x.startswith(f"idx({G},") and x[len(G) + 5:-1].isdigit()})
            used = [u for u in used if u != 0]  # the scheme legitimately selects the normaliser for the host
            key = (comp, tuple(used))
            if not used or key in seen2:
                continue
            seen2.add(key)
            ctx.ob(R2, pu.qual, f"{comp} derives from the authority group only (uses {used})", used == [1], "" if used == [1] else "userinfo / host / port are read from outside the authority", witness=r.witness(), node=pu.node)
        # ---- R3: userinfo ends at the LAST '@'; host and port come from _HOST_PORT_RE applied to what follows it
        A = T("idx", G, "1")
        rp = T("rpartition", A, K("@"))
        alt_rp = T("rsplit", A, K("@"), "1")
        hp = dict(groups_of(f.get("host", ""), "_HOST_PORT_RE"))
        hp.update(groups_of(f.get("port", ""), "_HOST_PORT_RE"))
        for g, inner in hp.items():
            key = (inner,)
            if key in seen3:
                continue
            seen3.add(key)
            n3 += 1
            RF = T("rfind", A, K("@"))
            RI = T("rindex", A, K("@"))
            last_forms = (T("idx", rp, "2"), T("idx", alt_rp, "-1"), T("idx", alt_rp, "1"), T("slice", A, T("add", RF, "1"), "", ""), T("slice", A, T("add", RI, "1"), "", ""))
            first_forms = (T("idx", T("partition", A, K("@")), "2"), T("idx", T("split", A, K("@"), "1"), "1"), T("idx", T("split", A, K("@"), "1"), "-1"),
                           T("slice", A, T("add", T("find", A, K("@")), "1"), "", ""), T("slice", A, T("add", T("index", A, K("@")), "1"), "", ""))
            ok = inner in last_forms
            if not ok and inner not in first_forms and inner != A and {x for x in subterms(inner) if x.startswith(f"idx({G},")} <= {A}:
                # a way of cutting the authority the rule does not recognise (DESIGN 13.2): provenance only
                ctx.ob(R3, pu.qual, f"host:port derives from the authority only (splitting idiom not recognised: {inner[:60]})", True)
                continue
            ctx.ob(R3, pu.qual, f"host:port is what follows the last '@' of the authority ({inner[:70]})", ok,
                   "" if ok else "`http://a@evil@good/` style inputs put the host before the last '@': urllib3 would address another host than a conforming parser sees", witness=r.witness(), node=pu.node)
            ht, pt = f.get("host", ""), f.get("port", "")
            okh = T("idx", g, "0") in list(subterms(ht)) if ht not in ("None",) else True
            okp = (T("idx", g, "1") in list(subterms(pt))) if pt not in ("None",) else True
            ctx.ob(R3, pu.qual, "host is group 0 and port group 1 of _HOST_PORT_RE", okh and okp, f"host={ht[:60]} port={pt[:60]}", witness=r.witness(), node=pu.node)
        au = f.get("auth", "None")
        if au != "None":
            key = ("auth", au)
            if key not in seen3:
                seen3.add(key)
                RF = T("rfind", A, K("@"))
                before_last = (T("idx", rp, "0"), T("idx", alt_rp, "0"), T("slice", A, "", RF, ""), T("slice", A, "0", RF, ""), T("slice", A, "", T("rindex", A, K("@")), ""))
                before_first = (T("idx", T("partition", A, K("@")), "0"), T("idx", T("split", A, K("@"), "1"), "0"), T("slice", A, "", T("find", A, K("@")), ""))
                ok = any(x in before_last for x in subterms(au))
                if not ok and not any(x in before_first for x in subterms(au)) and {x for x in subterms(au) if x.startswith(f"idx({G},")} <= {A}:
                    ctx.ob(R3, pu.qual, f"userinfo derives from the authority only (splitting idiom not recognised: {au[:60]})", True)
                else:
                    ctx.ob(R3, pu.qual, "userinfo is what precedes the last '@'", ok, au[:80], witness=r.witness(), node=pu.node)
        # ---- R4: the scheme is lower-cased wherever it is used (result, and as selector of the host normaliser)
        S = T("idx", G, "0")
        sc = f.get("scheme", "")
        s_truth = r.truth(S)
        if s_truth is not False and r.is_none(S) is not True:
            key = ("scheme", sc)
            if key not in seen4:
                seen4.add(key)
                ok = sc in (T("lower", S), T("casefold", S))
                ctx.ob(R4, pu.qual, f"parse_url lower-cases the scheme ({sc[:50]})", ok, "" if ok else "the scheme reaches the result with its original case", witness=r.witness(), node=pu.node)
            ht = f.get("host", "")
            for x in subterms(ht):
                o_, a_ = destruct(x)
                if o_ == "_normalize_host" and len(a_) == 2:
                    key = ("nh", a_[1])
                    if key in seen4:
                        continue
                    seen4.add(key)
                    ok = a_[1] in (T("lower", S), T("casefold", S))
                    ctx.ob(R4, pu.qual, f"the host normaliser is selected by the lower-cased scheme ({a_[1][:50]})", ok,
                           "" if ok else "_normalize_host tests the scheme case-sensitively: `HTTP://EXAMPLE.Com` keeps its host un-normalised", witness=r.witness(), node=pu.node)
        ht = f.get("host", "")
        if ht not in ("None", ""):
            key = ("host-through-normaliser", destruct(ht)[0])
            if key not in seen4:
                seen4.add(key)
                ok = destruct(ht)[0] == "_normalize_host"
                ctx.ob(R4, pu.qual, "host passes _normalize_host(host, scheme)", ok, ht[:80], witness=r.witness(), node=pu.node)
        # ---- R5: a port reaches the result only inside 0..65535
        pt = f.get("port", "None")
        if pt != "None":
            lo, hi = _bounds(r, pt)
            key = (destruct(pt)[0], lo, hi)
            if key not in seen5:
                seen5.add(key)
                n5 += 1
                ok = destruct(pt)[0] == "int" and lo is not None and lo >= 0 and hi is not None and hi <= 65535
                ctx.ob(R5, pu.qual, f"the result's port is int(<port digits>) with {lo} <= port <= {hi} decided on the path", ok,
                       "" if ok else "any integer is accepted as a port (pool key / connect address out of range)", witness=r.witness(), node=pu.node)
    ctx.sites(R3, n3, 1, "ways host:port is split off the authority")
    ctx.sites(R5, n5, 1, "rows whose result carries a port")
    # out-of-range rows raise LocationParseError
    bad = [r for r in rows if not r.returns and r.out == "raise:LocationParseError"]
    ctx.ob(R5, pu.qual, "an out-of-range port raises LocationParseError", any(True for r in bad), node=pu.node)

    # ---- R4: _normalize_host lower-cases on every row of a normalisable scheme
    nh = m.func(f"{URL}._normalize_host")
    nh_helpers = private_helpers(m, URL, exclude=BIG + ("parse_url",))
    nrows = [r for r in effect_rows(ctx, nh, GenRule(ctx, URL, inline=nh_helpers, pure_self=("_encode_invalid_chars", "_idna_encode", "to_str")), None) if r.returns]
    ph, ps = ["p:" + x for x in nh.params()[:2]]
    nn = 0
    seen = set()
    for r in nrows:
        norm_scheme = None
        for k, v in r.st.ts.items():
            if isinstance(k, tuple) and k[0] == "cmp" and k[1] == ps and k[2] == "in":
                norm_scheme = v
        if norm_scheme is not True or r.truth(ph) is not True:
            continue
        v4t = T("rx:_IPV4_RE.match", ph)
        v4 = True if (r.truth(v4t) is True or r.is_none(v4t) is False) else (False if (r.truth(v4t) is False or r.is_none(v4t) is True) else None)
        key = (r.ret, v4)
        if key in seen:
            continue
        seen.add(key)
        nn += 1
        lowered = any(destruct(x)[0] in ("lower", "casefold") and ph in x for x in subterms(r.ret)) or any(destruct(x)[0] == "_idna_encode" for x in subterms(r.ret)) \
            or any(destruct(x)[0] == "map" and destruct(x)[1] and str(destruct(x)[1][0]).endswith("._idna_encode") for x in subterms(r.ret))
        ok = lowered or (v4 is True and r.ret == ph)
        ctx.ob(R4, nh.qual, f"for http/https the host is returned lower-cased ({r.ret[:70]})", ok,
               "" if ok else "a host reaches the result (pool key, Host header) with its original case", witness=r.witness(), node=nh.node)
    ctx.sites(R4, nn, 3, "rows of _normalize_host for http/https")
    ie = m.func(f"{URL}._idna_encode")
    irows = [r for r in effect_rows(ctx, ie, GenRule(ctx, URL, raising={"encode": "idna.core.IDNAError"}), None) if r.returns]
    pn = "p:" + ie.params()[0]
    ok = bool(irows) and all(any(destruct(x)[0] in ("lower", "casefold") and pn in x for x in subterms(r.ret)) for r in irows)
    ctx.ob(R4, ie.qual, "_idna_encode lower-cases both the ASCII and the IDNA path", ok, "; ".join(r.ret[:60] for r in irows))
    v4 = fold.need(URL, "_IPV4_RE")
    chars = rx.any_chars(rx.parse(v4.pattern, v4.flags))
    ctx.ob(R4, URL, "the un-lowered branch is guarded by a digits-and-dots pattern", chars <= set("0123456789."), str(sorted(chars)))
    un = m.func(f"{URL}.Url.__new__")
    urows = [r for r in effect_rows(ctx, un, GenRule(ctx, URL), f"{URL}.Url") if r.returns]
    seen = set()
    for r in urows:
        sn = r.is_none("p:scheme")
        if sn is not False:
            continue
        args_txt = r.ret or ""
        key = ("lower(p:scheme)" in args_txt or "casefold(p:scheme)" in args_txt)
        if key in seen:
            continue
        seen.add(key)
        ctx.ob(R4, un.qual, "Url() lower-cases the scheme", key, args_txt[:100], witness=r.witness(), node=un.node)
