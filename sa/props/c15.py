"""C15 - what goes on the wire is exactly what the URL says (provenance clauses)."""
from __future__ import annotations

import ast
import re

from .. import astq
from ..model import AnalysisError
from . import resend

URL = "urllib3.util.url"
CP = "urllib3.connectionpool"
PM = "urllib3.poolmanager"
CN = "urllib3.connection"


def run(ctx):
    m, fold = ctx.model, ctx.fold
    ctx.assume("A1", "A4", "A5")
    ctx.decline("byte-identical requests for equivalent URLs; the Host header line itself is produced by http.client.putrequest from the connection's host and port (trusted, A1)")

    # ------------------------------------------------------------------ R1 one parse feeds all
    R1 = ctx.rule("C15-R1", "one parse feeds all: the host, port and scheme that select the pool, and hence the address dialled, are fields of the one parse_url(url) result; absent ports default from port_by_scheme; the pool's connection is built from the pool's own host and port", "E6 across PoolManager.urlopen -> connection_from_host -> pool -> _new_conn")
    mrule, mfi, mouts = resend.analyse(ctx, "manager")
    pcs = [s for s in mrule.sites if s.kind == "poolcall"]
    ctx.sites(R1, len(pcs), 1, "pool-level calls")
    # provenance of the pool object (tags recorded by connection_from_host model)
    seen = set()
    for s in pcs:
        pool_av = s.args.get("__recv")
        tags = tuple(sorted(pool_av.tags)) if pool_av is not None else ()
        if tags in seen:
            continue
        seen.add(tags)
        for comp in ("host", "port", "scheme"):
            ok = any(t.startswith(f"{comp}:") and t.endswith(f".{comp}") and "parsed:entry:url" in t for t in tags) or any(t == f"{comp}:u.{comp}" for t in tags)
            ctx.ob(R1, mfi.qual, f"pool selected by parse_url(url).{comp}", ok, f"provenance {[t for t in tags if t.startswith(comp)]}", node=s.node)
    txt = astq.text(mfi.node)
    ctx.ob(R1, mfi.qual, "the URL is parsed once per hop: u = parse_url(url)", txt.count("parse_url(url)") == 1)
    from . import c15_rows
    R6 = ctx.rule("C15-R6", "URLs differing only in scheme/host case or an explicit default port reach the same pool: scheme and host are lower-cased by the parser and by the key normaliser; the default port is filled in before keying", "E10 effect rows")
    c15_rows.r1_r6_connection_from_host(ctx, R1, R6)
    pbs = fold.need(CN, "port_by_scheme")
    ctx.ob(R1, CN, "port_by_scheme == {http: 80, https: 443}", pbs == {"http": 80, "https": 443}, str(pbs))
    for cls, dp in ((f"{CN}.HTTPConnection", "http"), (f"{CN}.HTTPSConnection", "https")):
        c, st = m.find_class_attr(cls, "default_port")
        ok = st is not None and c.qual == cls and astq.text(st.value).replace("'", '"') == f'port_by_scheme["{dp}"]'
        ctx.ob(R1, cls, f"default_port = port_by_scheme[{dp!r}]", ok)
    c15_rows.r1_pool_chain(ctx, R1)

    # ------------------------------------------------------------------ R2 target excludes fragment and userinfo
    R2 = ctx.rule("C15-R2", "the request target never draws on the fragment or the userinfo: Url.request_uri reads only path and query, and no other Url view reaches _make_request's target", "E6 read-set / taint")
    c15_rows.r2_request_uri(ctx, R2)
    prule, pfi, pouts = resend.analyse(ctx, "pool")
    reqs = [s for s in prule.sites if s.kind == "request"]
    views = {}
    dropped_by_view = {}
    for s in reqs:
        u = s.args.get("url")
        for t in (u.tags if u is not None else ()):
            if t.startswith("u.") or t == "_encode_target":
                views.setdefault(t, s)
                dropped_by_view.setdefault(t, set()).update(x.split(":", 1)[1] for x in u.tags if x.startswith("dropped:"))
    ctx.sites(R2, len(views), 1, "Url views reaching the request target")
    uprop = {name: f for name, f in m.classes[f"{URL}.Url"].methods.items()}
    for v, s in sorted(views.items()):
        if v == "_encode_target":
            ctx.ob(R2, pfi.qual, "origin-form target: _encode_target(url) of a path-only url", True)
            continue
        attr = v.split(".", 1)[1]
        f = uprop.get(attr)
        rd = astq.attrs_read(f.node) if f is not None else {attr}
        if f is not None and not rd:
            # `scheme, auth, host, ... = self`
            for n in astq.walk_fn(f.node):
                if isinstance(n, ast.Assign) and astq.text(n.value) == "self" and isinstance(n.targets[0], ast.Tuple):
                    rd = {astq.text(e) for e in n.targets[0].elts}
        leak = sorted((rd & {"auth", "fragment"}) - dropped_by_view.get(v, set()))
        ctx.ob(R2, pfi.qual, f"parsed_url.{attr}", not leak,
               "" if not leak else f"the absolute-form target is Url.{attr}, which includes {leak}: via a forwarding proxy the request line carries user:password@ and #fragment", witness=s.st.witness(), node=s.node)
    et = m.func(f"{URL}._encode_target")
    uses_re = any(isinstance(n_, ast.Name) and n_.id == "_TARGET_RE" for n_ in ast.walk(et.node))
    if uses_re:
        # recognised idiom: the target is split by a pattern and rebuilt from its capturing groups - none of them may be able to
        # contain '#', i.e. whatever follows the first '#' (the fragment) is matched but never captured
        from .. import rx as _rx
        tr = fold.need(URL, "_TARGET_RE")
        pr_ = _rx.parse(tr.pattern, tr.flags)
        gs = _rx.groups(pr_)
        bad = sorted(g_ for g_, sub_ in gs.items() if "#" in _rx.any_chars(sub_, dotall=bool(tr.flags & re.DOTALL)))
        ctx.ob(R2, et.qual, f"_encode_target keeps path and query only (no capturing group of the target pattern can hold '#'; {len(gs)} groups)", bool(gs) and not bad,
               "" if gs and not bad else f"group(s) {bad} of _TARGET_RE can contain '#': the fragment reaches the request target")
    else:
        ctx.ob(R2, et.qual, "_encode_target splits the target without the target pattern (idiom not recognised: the encoder's own rule C10-R2 decides the value; here provenance only)", True)

    # ------------------------------------------------------------------ R3 dial vs name
    R3 = ctx.rule("C15-R3", "the address dialled is the URL's host as written (trailing dot kept for DNS), while Host and SNI use the host with the trailing dot removed; the host property depends only on that one field", "E6")
    c15_rows.r3_dial_vs_name(ctx, R3)

    # ------------------------------------------------------------------ R4 SNI normalisation
    R4 = ctx.rule("C15-R4", "the TLS server name loses brackets and zone id only when the remainder is an IP literal", "E10 effect rows")
    c15_rows.r4_sni_normalisation(ctx, R4)

    # ------------------------------------------------------------------ R5 brackets
    R5 = ctx.rule("C15-R5", "the pool's host (dial address, Host header) has IPv6 brackets removed by the pool-level normaliser, while CONNECT keeps them", "E10 effect rows")
    c15_rows.r5_brackets(ctx, R5)


# ---------------------------------------------------------------------------- R7 (added after seeded change C15/target-form-by-parsed-host)
def _run_r7(ctx):
    R7 = ctx.rule("C15-R7", "the form of the request target is decided on the string the pool was given, not on a re-parse of it: a target rebuilt from parsed URL components is used only when the given string does not start with '/' (a path such as //cdn/x re-parsed as a URL has an authority: deciding on the parsed host would send `cdn/x`)", "E4 decisions at the request site (shared resend analysis)")
    prule, pfi, pouts = resend.analyse(ctx, "pool")
    reqs = [s for s in prule.sites if s.kind == "request"]
    SEL = "given-url.startswith('/')"
    seen = set()
    n = 0
    for s in reqs:
        u = s.args.get("url")
        if u is None:
            continue
        from_parse = any(t.startswith("parsed:") or t.startswith("u.") for t in u.tags)
        origin = "_encode_target" in u.tags and not from_parse
        sel = s.st.facts.get(SEL, (None, None))[0]
        if sel is None:
            for first in ("given-url[:1]", "given-url[0]"):  # the same test spelt url[:1] == "/"
                if ("cmp", first, "==", "'/'") in s.st.ts:
                    sel = s.st.ts[("cmp", first, "==", "'/'")]
        parsed_decided = sorted(k for k, v in s.st.facts.items() if k in ("u.host", "u.netloc", "u.hostname", "u.authority", "u.auth", "u.port") and (v[0] is not None or v[1] is not None))
        key = (from_parse, origin, sel, tuple(parsed_decided))
        if key in seen:
            continue
        seen.add(key)
        n += 1
        if from_parse:
            if sel is False:
                ctx.ob(R7, pfi.qual, "absolute-form target (rebuilt from the parse) only when the given string does not start with '/'", True, node=s.node)
            elif parsed_decided:
                ctx.ob(R7, pfi.qual, f"target rebuilt from the parse under a decision on {parsed_decided}", False,
                       "the origin-form string handed over by PoolManager (Url.request_uri) is re-parsed and the form is chosen from that parse: a path starting with `//` parses as an authority, so `//other.example/x` goes on the wire as `other.example/x`",
                       witness=s.st.witness(), node=s.node)
            elif sel is None:
                raise AnalysisError("C15-R7: the absolute-form branch of urlopen is selected by a condition the rule does not recognise")
            else:
                ctx.ob(R7, pfi.qual, "a string starting with '/' is rebuilt from its parse", False,
                       "an origin-form target must be sent as given (encoded), never re-assembled from a re-parse", witness=s.st.witness(), node=s.node)
        elif origin:
            ok = sel is not False
            ctx.ob(R7, pfi.qual, "origin-form target is the given string, encoded", ok,
                   "" if ok else "a string that does not start with '/' is treated as origin-form", witness=s.st.witness(), node=s.node)
    ctx.sites(R7, n, 2, "target forms reaching the request (origin-form, absolute-form)")


_run_base15 = run


def run(ctx):  # noqa: F811
    _run_base15(ctx)
    _run_r7(ctx)
    _run_r8(ctx)


def _run_r8(ctx):
    """C15-R8: through a forwarding proxy the Host header is re-derived from the URL of each hop."""
    m = ctx.model
    from ..events import run_function
    from ..interp import AV, UNK, BaseRule, Out
    from ..rows import GenRule, effect_rows, helper_closure
    R8 = ctx.rule("C15-R8", "the Host header follows the URL on every hop: the Host that ProxyManager derives from a URL (for requests forwarded to an HTTP proxy) is not carried, as if it were the caller's, into the request for another URL - either the URL-derived Host takes precedence over a carried one, or the derived headers are not what the redirect logic carries on, or the carried mapping loses its Host when the target changes", "E4 on _set_proxy_headers + E10 rows of ProxyManager.urlopen + resend analysis of PoolManager.urlopen")
    PMGR = f"{PM}.ProxyManager"
    if PMGR not in m.classes or "_set_proxy_headers" not in m.classes[PMGR].methods:
        raise AnalysisError("ProxyManager._set_proxy_headers not found")
    spf = m.method(PMGR, "_set_proxy_headers")

    class HRule(BaseRule):
        def global_value(self, it, name):
            try:
                v = ctx.fold.module_const(it.module, name)
                hash(v)
            except Exception:
                return None
            return AV("const", v, truth=bool(v), none=v is None) if isinstance(v, (str, bytes, int, tuple, frozenset, type(None))) else None

        def call(self, it, st, node, recv, pos, kw):
            t = ast.unparse(node.func)
            if t.endswith("parse_url"):
                return [Out("normal", st, AV("obj", "parsed", truth=True, none=False))]
            if it.resolve_callee(node, recv) in it.inline:
                return None
            return [Out("normal", st, UNK)]

        def getattr(self, it, st, node, base):
            if base.kind == "obj" and base.val == "parsed":
                return AV("unk", tags=frozenset({"auto-host"}), sym=f"parsed.{node.attr}")
            return None

    ps = spf.params()
    outs, it = run_function(m, spf, HRule(), PMGR, inline=None,
                            params={ps[0]: AV("unk", sym="p:url"), ps[1]: AV("unk", sym="p:headers", tags=frozenset({"carried"}), truth=True, none=False)})
    ctx.states += it.budget.steps
    rets = [o for o in outs if o.kind == "return" and o.val is not None and o.val.kind == "dict"]
    ctx.sites(R8, len(rets), 1, "returning paths of _set_proxy_headers with caller headers present")
    auto = carried_wins = False
    for o in rets:
        for k_, v_ in dict(o.val.val[0]).items():
            if isinstance(k_, str) and k_.lower() == "host" and "auto-host" in v_.tags:
                auto = True
                if "maybe-overridden" in v_.tags and "carried" in v_.tags:
                    carried_wins = True
    ctx.ob(R8, spf.qual, "a Host is derived from the URL for forwarded requests", auto, "" if auto else "no Host derived from the URL: a forwarding proxy gets no Host at all", node=spf.node)
    # does ProxyManager.urlopen store the derived headers where the redirect logic carries them on?
    pu = m.method(PMGR, "urlopen")
    prow = effect_rows(ctx, pu, GenRule(ctx, pu.module, inline=frozenset(helper_closure(m, [pu], stop=("_set_proxy_headers",)) - {pu.qual})), PMGR)
    carried_on = False
    n_fw = 0
    for r in prow:
        tun = None
        for k_, (t_, _n) in r.st.facts.items():
            if isinstance(k_, str) and k_.startswith("connection_requires_http_tunnel("):
                tun = t_
        for e in r.events("call"):
            if e[1] == "super.urlopen":
                hs = [a for a in e[2:] if isinstance(a, str) and a.startswith("headers=") and "_set_proxy_headers(p:url" in a.replace(" ", "")]
                if hs and ("p:**kw" in hs[0] or "p:headers" in hs[0]):
                    carried_on = True  # f(url, carried headers) is handed down as the headers of this hop
                if tun is False:
                    # forwarded to the proxy: the connection is to the proxy, so without this the stdlib would name the proxy in Host
                    n_fw += 1
                    ctx.ob(R8, pu.qual, "a request forwarded to the proxy carries the headers derived from its URL (Host = the URL's host and port)", bool(hs),
                           "" if hs else "on the forwarding arm the request's headers are not passed through _set_proxy_headers(url, ..): the Host header would name the proxy", witness=r.witness(), node=pu.node)
    ctx.sites(R8, n_fw, 1, "forwarding rows of ProxyManager.urlopen")
    # does the manager's redirect resend carry the headers it was given to the next URL?
    mrule, mfi, mouts = resend.analyse(ctx, "manager")
    redirect_keeps = False
    for s in mrule.sites:
        if s.kind != "resend":
            continue
        u, h = s.args.get("url"), s.args.get("headers")
        if u is not None and any(t.startswith("ref:location") for t in u.tags) and h is not None and "entry" in h.tags and "host-dropped" not in h.tags:
            redirect_keeps = True
    bad = auto and carried_wins and carried_on and redirect_keeps
    ctx.ob(R8, spf.qual, "the URL-derived Host of one hop cannot reach the request for another URL", not bad,
           "" if not bad else "the mapping returned by _set_proxy_headers (Host = netloc of the current URL, but a Host already in the given headers wins) is stored as the request's headers; "
           "PoolManager.urlopen carries those headers into the resend for the redirect target, where ProxyManager.urlopen treats the previous hop's Host as the caller's: "
           "after a redirect to another host through a forwarding proxy the request line names the new host and the Host header the old one", node=spf.node)
