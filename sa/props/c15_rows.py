"""C15 clauses decided on effect rows.  Where a clause is about the *value* a small normaliser computes (dots, brackets,
zone ids) the recognised idioms are decided exactly; an unrecognised but provenance-correct form is accepted with a note
(no alarm), because equality of string algorithms is not decidable here."""
from __future__ import annotations

import ast

from .. import astq
from ..model import AnalysisError
from ..rows import GenRule, effect_rows, helper_closure, row_bool
from ..terms import K, T, destruct, subterms

URL = "urllib3.util.url"
CP = "urllib3.connectionpool"
PM = "urllib3.poolmanager"
CN = "urllib3.connection"


def rows_of(ctx, fi, cls=None, inline=True, drop=(), **kw):
    inl = (set(helper_closure(ctx.model, [fi], stop=tuple(drop))) - {fi.qual}) if inline else set()
    return effect_rows(ctx, fi, GenRule(ctx, fi.module, inline=inl, **kw), cls or (fi.clsq if fi.cls else None), budget=3000000)


def _args(e):
    return [a for a in e[2:] if isinstance(a, str)]


def _kw(args):
    out = {}
    for a in args:
        head = a.split("(", 1)[0]
        if "=" in head:
            k, v = a.split("=", 1)
            out[k] = v
    return out


def _pos(args):
    return [a for a in args if "=" not in a.split("(", 1)[0]]


def _atoms(t):
    return {x for x in subterms(t) if destruct(x)[0] is None and x and not x.startswith(("g:", "rx:"))}


def context_slots(r, ctx_term):
    """final value per key written into the context mapping on this row (item stores and update(**kw) calls), in order"""
    slots, order = {}, []
    for e in r.ev:
        if e[0] == "setitem" and e[1] == ctx_term and destruct(e[2])[0] == "const":
            slots[destruct(e[2])[1]] = e[3]
            order.append(("set", destruct(e[2])[1]))
        elif e[0] == "call" and e[1] == f"{ctx_term}.update":
            for k, v in _kw(_args(e)).items():
                slots[k] = v
                order.append(("set", k))
        elif e[0] == "call" and e[1] == "self.connection_from_context":
            order.append(("keyed", tuple(_args(e))))
    return slots, order


def r1_r6_connection_from_host(ctx, R1, R6):
    m = ctx.model
    cfh = m.func(f"{PM}.PoolManager.connection_from_host")
    rows = rows_of(ctx, cfh, drop=("_merge_pool_kwargs",))
    ctx.sites(R1, len(rows), 3, "rows of PoolManager.connection_from_host")
    seen = set()
    for r in rows:
        keyed_args = [_args(e) for e in r.events("call") if e[1] == "self.connection_from_context"]
        CTX = keyed_args[-1][0] if keyed_args and keyed_args[-1] else T("self._merge_pool_kwargs", "p:pool_kwargs")
        host_t = r.truth("p:host")
        if not r.returns:
            ok = host_t is False and r.out == "raise:LocationValueError"
            if ("raise", r.out, host_t) not in seen:
                seen.add(("raise", r.out, host_t))
                ctx.ob(R1, cfh.qual, f"a missing host is refused ({r.out}, host truthy={host_t})", ok, witness=r.witness(), node=cfh.node)
            continue
        slots, order = context_slots(r, CTX)
        sch_t, port_t = r.truth("p:scheme"), r.truth("p:port")
        want_scheme = "p:scheme" if sch_t is True else (K("http") if sch_t is False else None)
        got_port = (slots.get("port") or "").replace(T("idx", CTX, K("scheme")), slots.get("scheme") or "?")
        port_n = r.is_none("p:port")
        given = True if (port_t is True or port_n is False) else (False if (port_n is True or port_t is False) else None)
        want_port = "p:port" if given is True else (T("get", "g:port_by_scheme", T("lower", want_scheme or "?"), "80") if given is False else None)
        key = (sch_t, port_t, port_n, slots.get("scheme"), got_port, slots.get("host"), tuple(o[0] for o in order))
        if key in seen:
            continue
        seen.add(key)
        ok = host_t is True and slots.get("host") == "p:host" and want_scheme is not None and slots.get("scheme") == want_scheme
        ctx.ob(R1, cfh.qual, f"pool context: host={slots.get('host')} scheme={slots.get('scheme')} (scheme given={sch_t})", ok,
               "" if ok else "the pool is selected by something else than the host and scheme handed in ('http' when the scheme is absent)", witness=r.witness(), node=cfh.node)
        okp = want_port is not None and got_port == want_port
        ctx.ob(R1, cfh.qual, f"absent port defaults from port_by_scheme of the (lower-cased) scheme: port={got_port[:70]} (port given={port_t})", okp,
               "" if okp else f"expected {want_port}", witness=r.witness(), node=cfh.node)
        if got_port and "p:port" not in got_port:
            # the default replaces the port of the URL: only an ABSENT port (None) may be replaced - port 0 is a port
            absent = r.is_none("p:port") is True
            ctx.ob(R1, cfh.qual, "the default port is substituted only when the port is absent (None), not for port 0", absent,
                   "" if absent else f"the substitution is decided on the truthiness of the port (truthy={port_t}, is-None undecided): `http://host:0/` is keyed and dialled as port "
                   "80/443 although the URL names port 0", witness=r.witness(), node=cfh.node)
        keyed = [i for i, o in enumerate(order) if o[0] == "keyed"]
        sets = [i for i, o in enumerate(order) if o[0] == "set" and o[1] in ("port", "host", "scheme")]
        ok6 = len(keyed) == 1 and order[keyed[0]][1] == (CTX,) and bool(sets) and max(sets) < keyed[0]
        ctx.ob(R6, cfh.qual, "the (defaulted) port, host and scheme are stored in the context before it is keyed", ok6, str(order), witness=r.witness(), node=cfh.node)
    norm = m.func(f"{PM}._default_key_normalizer")
    rows = rows_of(ctx, norm)
    ctx.sites(R6, len(rows), 1, "rows of the key normaliser")
    C = T("copy", "p:request_context")
    seen = set()
    for r in rows:
        slots, _ = context_slots(r, C)
        # dict(request_context) / {**request_context} forms of the copy
        if not slots:
            for alt in (T("dict", "p:request_context"),):
                slots, _ = context_slots(r, alt)
                if slots:
                    C = alt
        key = (slots.get("scheme"), slots.get("host"))
        if key in seen:
            continue
        seen.add(key)
        ok = slots.get("scheme") == T("lower", T("idx", C, K("scheme"))) and slots.get("host") == T("lower", T("idx", C, K("host")))
        ctx.ob(R6, norm.qual, "key normaliser lower-cases scheme and host (on a copy of the context)", ok, f"scheme={key[0]} host={key[1]}", witness=r.witness(), node=norm.node)


def r1_pool_chain(ctx, R1):
    m = ctx.model
    nc = m.method(f"{CP}.HTTPConnectionPool", "_new_conn")
    n = 0
    for r in rows_of(ctx, nc):
        for e in r.events("call"):
            if e[1] == "self.ConnectionCls":
                n += 1
                k = _kw(_args(e))
                ok = k.get("host") == "self.host" and k.get("port") == "self.port"
                ctx.ob(R1, nc.qual, "the connection is built for the pool's own host and port", ok, f"host={k.get('host')} port={k.get('port')}", witness=r.witness(), node=nc.node)
                break
        else:
            continue
        break
    ctx.sites(R1, n, 1, "ConnectionCls construction in HTTPConnectionPool._new_conn")
    pi = m.method(f"{CP}.HTTPConnectionPool", "__init__")
    ok = False
    for c in astq.calls(pi.node):
        t = astq.call_text(c)
        if t in ("ConnectionPool.__init__", "super().__init__"):
            a = [astq.text(x) for x in c.args]
            k = {x.arg: astq.text(x.value) for x in c.keywords}
            a = a[1:] if a[:1] == ["self"] else a
            ok = (a[:2] == ["host", "port"]) or (k.get("host") == "host" and k.get("port") == "port") or (a[:1] == ["host"] and k.get("port") == "port")
    ctx.ob(R1, pi.qual, "the pool keeps the host and port it was created for (base constructor receives them unchanged)", ok)
    newpool = m.func(f"{PM}.PoolManager._new_pool")
    # decided on the effect rows of _new_pool (helpers interpreted in place, *args displays flattened)
    nrows = [r_ for r_ in rows_of(ctx, newpool) if r_.returns]
    ok = bool(nrows)
    for r_ in nrows:
        op_, a_ = destruct(r_.ret or "")
        pos_, kw_ = _pos(list(a_[1:])) if op_ == "call" else [], _kw(list(a_[1:])) if op_ == "call" else {}
        h_ = kw_.get("host", pos_[0] if pos_ else None)
        p_ = kw_.get("port", pos_[1] if len(pos_) > 1 else None)
        ok = ok and op_ == "call" and h_ == "p:host" and p_ == "p:port"
    ctx.ob(R1, newpool.qual, "pool_cls(host, port, ...) receives the context's host and port", ok)


def r2_request_uri(ctx, R2):
    m = ctx.model
    ru = m.funcs.get(f"{URL}.Url.request_uri")
    if ru is None:
        raise AnalysisError("Url.request_uri not found")
    rows = [r for r in rows_of(ctx, ru, cls=f"{URL}.Url") if r.returns]
    ctx.sites(R2, len(rows), 2, "rows of Url.request_uri")
    from ..terms import norm
    seen = set()
    for r in rows:
        atoms = _atoms(r.ret) | {s for s in r.st.facts if s.startswith("self.")}
        reads = {a[5:] for a in atoms if a.startswith("self.")}
        path_t, q_none = r.truth("self.path"), r.is_none("self.query")
        got = norm(r.ret)
        P = "self.path" if path_t is True else K("/")
        want = norm(P if q_none is True else T("add", P, T("add", K("?"), "self.query")))
        pieces = [got]
        key = (path_t, q_none, got)
        if key in seen:
            continue
        seen.add(key)
        ok_reads = reads <= {"path", "query"}
        ctx.ob(R2, ru.qual, f"request_uri reads {sorted(reads)}", ok_reads, "" if ok_reads else "the origin-form target includes more than path and query", witness=r.witness(), node=ru.node)
        ok = path_t is not None and q_none is not None and got == want
        ctx.ob(R2, ru.qual, f"path present={path_t}, query None={q_none}: target = {got}", ok,
               "" if ok else f"expected {want} (an empty path becomes '/')", witness=r.witness(), node=ru.node)


def _dotless(r, H):
    """ret is H with trailing dots removed, in a recognised idiom -> True / False; None when the idiom is not recognised"""
    ret = r.ret
    if ret == T("rstrip", H, K(".")):
        return True
    op, a = destruct(ret)
    if op in ("rstrip", "strip", "lstrip", "removesuffix") and a and a[0] == H:
        return False  # a recognised stripping call with another argument / direction
    t, n = ret, 0
    while destruct(t)[0] == "slice" and destruct(t)[1][0:1] and destruct(t)[1][1:] == ("", "-1", ""):
        t = destruct(t)[1][0]
        n += 1
    if t == H and (n or ret == H):
        e = r.truth(T("endswith", ret, K(".")))
        if e is False:
            return True
        if e is True:
            return False
    if ret == H:
        return False
    return None


def r3_dial_vs_name(ctx, R3):
    m = ctx.model
    HC = f"{CN}.HTTPConnection"
    nc = m.method(HC, "_new_conn")
    # every attempt to dial counts, also the ones made after a first attempt failed (name resolution, timeout, refusal)
    rows = list(rows_of(ctx, nc, raising={}))
    for exc_ in ("socket.gaierror", "socket.timeout", "builtins.OSError"):
        rows += rows_of(ctx, nc, raising={"create_connection": exc_})
    n = 0
    seen = set()
    for r in rows:
        terms = [r.ret or ""] + [x for e in r.ev for x in e if isinstance(x, str)] + [k for k in r.st.ts.get("fault_args", ()) if isinstance(k, str)]
        for e in r.ev:
            if e[0] == "call" and isinstance(e[1], str) and e[1].endswith("create_connection"):
                terms.append(T("create_connection", *[a for a in e[2:] if isinstance(a, str)]))
        for t in terms:
            for x in subterms(t):
                op, a = destruct(x)
                if op and op.endswith("create_connection") and a:
                    n += 1
                    if a[0] in seen:
                        continue
                    seen.add(a[0])
                    ok = a[0] == T("tuple", "self._dns_host", "self.port")
                    ctx.ob(R3, nc.qual, f"create_connection({a[0]}, ...)", ok, "" if ok else "the address dialled is not (the host as written, the port)", witness=r.witness(), node=nc.node)
    ctx.sites(R3, n, 1, "create_connection terms on rows of _new_conn")
    hp = m.classes[HC].methods.get("host")
    if hp is None:
        raise AnalysisError("HTTPConnection.host property not found")
    hrule = GenRule(ctx, hp.module)
    hrule.max_while = 3
    rows = [r for r in effect_rows(ctx, hp, hrule, HC) if r.returns]
    ctx.sites(R3, len(rows), 1, "rows of the host property")
    verdicts = set()
    for r in rows:
        atoms = {a for a in _atoms(r.ret) if a.startswith(("self.", "p:"))}
        okp = atoms == {"self._dns_host"}
        v = _dotless(r, "self._dns_host")
        verdicts.add(v)
        if v is None:
            ctx.ob(R3, f"{HC}.host", f"host depends only on the dialled name (idiom `{r.ret[:60]}` not recognised: provenance decided, dot removal not)", okp, witness=r.witness(), node=hp.node)
        else:
            ctx.ob(R3, f"{HC}.host", "host == _dns_host without trailing dots", bool(v) and okp, f"returns {r.ret[:80]}", witness=r.witness(), node=hp.node)
    ctx.extra["c15_host_idiom_recognised"] = None not in verdicts
    hs = m.classes[HC].methods.get("host@setter")
    ok = False
    if hs is not None:
        for r in rows_of(ctx, hs, cls=HC):
            st = [e[3] for e in r.events("store") if e[1] == "self" and e[2] == "_dns_host"]
            ok = st == ["p:value"]
    ctx.ob(R3, f"{HC}.host", "assigning host stores the dialled name unchanged", ok)
    sc = m.method(f"{CN}.HTTPSConnection", "connect")
    inl_sc = frozenset(q_ for q_ in helper_closure(ctx.model, [sc], stop=("_connect_tls_proxy", "_tunnel", "_new_conn")) - {sc.qual}
                       if q_.rsplit(".", 1)[-1] not in ("_ssl_wrap_socket_and_match_hostname", "_connect_tls_proxy", "_tunnel", "_new_conn"))
    rows = effect_rows(ctx, sc, GenRule(ctx, sc.module, inline=inl_sc, field_consts={}), f"{CN}.HTTPSConnection", budget=4000000)
    seen = set()
    n = 0
    for r in rows:
        for e in r.events("call"):
            if e[1] != "_ssl_wrap_socket_and_match_hostname":
                continue
            n += 1
            sh = _kw(_args(e)).get("server_hostname")
            if sh in seen:
                continue
            seen.add(sh)
            op, a = destruct(sh or "")
            ok = op == "rstrip" and a[1:] == (K("."),) and a[0] in ("self.host", "self._tunnel_host", "self.server_hostname")
            if not ok and op not in ("rstrip",):
                src = _atoms(sh or "")
                okp = bool(src) and src <= {"self.host", "self._tunnel_host", "self.server_hostname", "self._dns_host"}
                ctx.ob(R3, sc.qual, f"SNI derives from the host property / tunnel host / explicit server_hostname (idiom `{(sh or '')[:50]}` not recognised: provenance only)", okp, witness=r.witness(), node=sc.node)
            else:
                ctx.ob(R3, sc.qual, f"SNI `{sh}` starts from the host property (or the tunnel host / explicit server_hostname) and is dot-stripped", ok, witness=r.witness(), node=sc.node)
    ctx.sites(R3, n, 1, "origin TLS wraps on rows of HTTPSConnection.connect")
    ctx.ob(R3, sc.qual, "without an override the SNI is the host property", any(destruct(s or "")[1][:1] == ("self.host",) for s in seen if s), str(sorted(map(str, seen)))[:200])


def r4_sni_normalisation(ctx, R4):
    m = ctx.model
    wf = m.func(f"{CN}._ssl_wrap_socket_and_match_hostname")
    rows = rows_of(ctx, wf, drop=("_match_hostname", "_assert_fingerprint"))  # the certificate matcher has its own rules (C07/C08)
    S = "p:server_hostname"
    STRIPPED = T("strip", S, K("[]"))
    RECOGNISED = {STRIPPED, T("slice", STRIPPED, "", T("rfind", STRIPPED, K("%")), ""), T("idx", T("rpartition", STRIPPED, K("%")), "0"), T("idx", T("rpartition", STRIPPED, K("%")), "2"),
                  T("idx", T("split", STRIPPED, K("%"), "1"), "0"), T("idx", T("partition", STRIPPED, K("%")), "0")}
    n = 0
    seen = set()
    for r in rows:
        for e in r.events("call"):
            if e[1] != "ssl_wrap_socket":
                continue
            n += 1
            sh = _kw(_args(e)).get("server_hostname")
            ipfacts = {s_[len("is_ipaddress("):-1]: t_ for s_, (t_, _) in r.st.facts.items() if s_.startswith("is_ipaddress(") and _atoms(s_[len("is_ipaddress("):-1]) == {S}}
            key = (sh, tuple(sorted(ipfacts.items())))
            if key in seen:
                continue
            seen.add(key)
            if sh == "None" and r.is_none(S) is True:
                sh = S  # no name given: None is handed on as None
            if sh == S:
                # handed on as given: fine unless a normalised form was found to be an IP literal
                hit = [k for k, v in ipfacts.items() if v is True]
                ok = not hit
                ctx.ob(R4, wf.qual, "the name is handed on unchanged when its normalised form is not an IP literal", ok,
                       "" if ok else f"is_ipaddress({hit[0][:40]}) holds but the un-normalised name (brackets / zone id) goes to the TLS layer", witness=r.witness(), node=wf.node)
            else:
                okip = ipfacts.get(sh) is True
                okprov = _atoms(sh or "") == {S}
                ctx.ob(R4, wf.qual, f"server_hostname is replaced by `{(sh or '')[:60]}` only under is_ipaddress of that very value", okip and okprov,
                       "" if (okip and okprov) else "a DNS name loses characters (or the name checked is not derived from the requested one): the certificate is matched against another name", witness=r.witness(), node=wf.node)
                if sh in RECOGNISED:
                    ctx.ob(R4, wf.qual, "normalisation = strip brackets, cut the zone id", True, sh)
                else:
                    ctx.ob(R4, wf.qual, f"normalisation idiom `{(sh or '')[:60]}` not recognised: provenance and the IP-literal guard decided, the exact characters removed are not", okprov)
    ctx.sites(R4, n, 2, "TLS wraps on rows of _ssl_wrap_socket_and_match_hostname")
    ctx.ob(R4, wf.qual, "both outcomes exist: normalised for IP literals, unchanged otherwise", any(k[0] == S for k in seen) and any(k[0] != S for k in seen))


def r5_brackets(ctx, R5):
    m = ctx.model
    nh = m.func(f"{CP}._normalize_host")
    rows = [r for r in rows_of(ctx, nh) if r.returns]
    ctx.sites(R5, len(rows), 2, "rows of the pool-level _normalize_host")
    U = None
    for r in rows:
        for e in r.events("call"):
            if e[1] in ("url._normalize_host", "normalize_host", "_normalize_host") and U is None:
                U = T(e[1], *_args(e))
    if U is None:
        raise AnalysisError("pool-level _normalize_host does not call the URL-level normaliser on any row")
    okU = destruct(U)[1][:2] == ("p:host", "p:scheme") or (destruct(U)[1][:1] == ("p:host",) and "scheme=p:scheme" in destruct(U)[1])
    ctx.ob(R5, nh.qual, "the URL-level normaliser is applied to (host, scheme) first", okU, U)
    seen = set()
    for r in rows:
        first = r.truth(T("startswith", U, K("["))) if r.truth(T("startswith", U, K("["))) is not None else r.cmp(T("idx", U, "0"), "==", K("["))
        last = r.truth(T("endswith", U, K("]"))) if r.truth(T("endswith", U, K("]"))) is not None else r.cmp(T("idx", U, "-1"), "==", K("]"))
        key = (first, last, r.ret)
        if key in seen:
            continue
        seen.add(key)
        if first is True and last is True:
            ok = r.ret == T("slice", U, "1", "-1", "")
            ctx.ob(R5, nh.qual, f"a bracketed host loses exactly its brackets ({r.ret[:60]})", ok, witness=r.witness(), node=nh.node)
        else:
            ok = r.ret == U
            ctx.ob(R5, nh.qual, f"a host that is not bracketed (first '[': {first}, last ']': {last}) is returned as normalised", ok, f"returns {r.ret[:60]}", witness=r.witness(), node=nh.node)
    ctx.ob(R5, nh.qual, "the bracket-stripping row exists", any(k[0] is True and k[1] is True for k in seen))
    cpi = m.method(f"{CP}.ConnectionPool", "__init__")
    rows = [r for r in rows_of(ctx, cpi, inline=True) if r.returns]
    ctx.sites(R5, len(rows), 1, "returning rows of ConnectionPool.__init__")
    def is_U(t):
        op, a = destruct(t)
        return op == "url._normalize_host" and a[:1] == ("p:host",) and a[1:2] in (("self.scheme",), ("scheme=self.scheme",))

    hosts = {e[3] for r in rows for e in r.events("store") if e[1] == "self" and e[2] == "host"}
    tunnels = {e[3] for r in rows for e in r.events("store") if e[1] == "self" and e[2] == "_tunnel_host"}
    strips = [h for h in hosts if destruct(h)[0] == "slice" and is_U(destruct(h)[1][0]) and destruct(h)[1][1:] == ("1", "-1", "")]
    ok_h = bool(strips) and all(h in strips or is_U(h) for h in hosts)
    ok_t = bool(tunnels) and all(destruct(t)[0] == "lower" and is_U(destruct(t)[1][0]) for t in tunnels)
    ctx.ob(R5, cpi.qual, "self.host uses the bracket-stripping normaliser, self._tunnel_host the bracket-keeping one", ok_h and ok_t, f"host in {sorted(h[:60] for h in hosts)} _tunnel_host in {sorted(t[:60] for t in tunnels)}", node=cpi.node)
