"""C16 - HTTPHeaderDict storage discipline (narrow claim: case-insensitive keys, no shared or leaked value lists, fresh results)."""
from __future__ import annotations

import ast

from .. import astq
from ..model import AnalysisError

COL = "urllib3._collections"
HD = f"{COL}.HTTPHeaderDict"


def _storage_field(m):
    init = m.method(HD, "__init__")
    for n in astq.walk_fn(init.node):
        if isinstance(n, ast.Assign) and astq.is_self_attr(n.targets[0]) and isinstance(n.value, (ast.Dict, ast.Call)):
            if isinstance(n.value, ast.Dict) or astq.call_text(n.value) in ("dict", "OrderedDict"):
                return n.targets[0].attr
    raise AnalysisError("HTTPHeaderDict storage field not found")


def _lower_derived(fn_node, expr, depth=4):
    """Is `expr` (a key expression) derived from <something>.lower()?"""
    if isinstance(expr, ast.Call) and isinstance(expr.func, ast.Attribute) and expr.func.attr == "lower":
        return True
    if isinstance(expr, ast.Name) and depth > 0:
        vals = astq.assigned_values(fn_node, expr.id)
        return bool(vals) and all(_lower_derived(fn_node, v, depth - 1) for v in vals)
    return False


def _fresh_list(expr):
    """Expression builds a new list object in this statement."""
    if isinstance(expr, ast.List):
        return True
    if isinstance(expr, ast.ListComp):
        return True
    if isinstance(expr, ast.Call) and astq.call_text(expr) == "list":
        return True
    if isinstance(expr, ast.Subscript) and isinstance(expr.slice, ast.Slice):
        return True
    if isinstance(expr, ast.BinOp) and isinstance(expr.op, ast.Add):
        return _fresh_list(expr.left) or _fresh_list(expr.right)
    return False


def run(ctx):
    m = ctx.model
    ctx.assume("A5")
    ctx.decline("equivalence of arbitrary operation sequences with a reference multimap (iteration order, casing drift, combine semantics, equality) - that is model-based testing territory; only the storage discipline below is decided")
    cls = m.cls(HD)
    sf = _storage_field(m)

    R1 = ctx.rule("C16-R1", "every access to the storage dict uses a lower-cased key", "E6")
    R2 = ctx.rule("C16-R2", "value lists are never shared between instances nor handed out: every list stored is built in that statement, copies build per-key fresh lists, no method returns a stored list itself", "E6 escape")
    R3 = ctx.rule("C16-R3", "copy / | / reversed | return a newly built instance, |= returns self", "E6")
    R4 = ctx.rule("C16-R4", "bulk mutators (extend, update-style constructors, |, |=) insert through add() so that existing values are kept, and item assignment replaces", "E8 who-may-call")

    # ---------------- R1
    n = 0
    for name, fi in sorted(cls.methods.items()):
        for node in astq.walk_fn(fi.node):
            key = None
            what = None
            if isinstance(node, ast.Subscript) and astq.is_self_attr(node.value, sf):
                key, what = node.slice, "subscript"
            elif isinstance(node, ast.Compare) and len(node.ops) == 1 and isinstance(node.ops[0], (ast.In, ast.NotIn)) and astq.is_self_attr(node.comparators[0], sf):
                key, what = node.left, "membership"
            elif isinstance(node, ast.Call) and isinstance(node.func, ast.Attribute) and astq.is_self_attr(node.func.value, sf) \
                    and node.func.attr in ("setdefault", "pop", "get", "__getitem__", "__contains__", "__delitem__", "__setitem__") and node.args:
                key, what = node.args[0], node.func.attr
            if key is None:
                continue
            n += 1
            ok = _lower_derived(fi.node, key)
            ctx.ob(R1, fi.qual, f"{what} `{astq.text(node)[:60]}`", ok,
                   "" if ok else "the storage is addressed with a key that was not lower-cased: lookups under another casing miss it", node=node)
    ctx.sites(R1, n, 8, "keyed storage accesses")

    # ---------------- R2
    n = 0
    for name, fi in sorted(cls.methods.items()):
        for node in astq.walk_fn(fi.node):
            # stores into the storage
            if isinstance(node, ast.Assign) and isinstance(node.targets[0], ast.Subscript) and astq.is_self_attr(node.targets[0].value, sf):
                n += 1
                srcs = astq.sources_of(fi.node, node.value) if isinstance(node.value, ast.Name) else [node.value]
                ok = bool(srcs) and all(_fresh_list(s_) for s_ in srcs)
                ctx.ob(R2, fi.qual, f"store `{astq.text(node)[:70]}`", ok,
                       "" if ok else "a list object that exists elsewhere is stored: two header dicts (or a caller) would share and mutate it", node=node)
            if isinstance(node, ast.Call) and isinstance(node.func, ast.Attribute) and astq.is_self_attr(node.func.value, sf) and node.func.attr == "setdefault" and len(node.args) > 1:
                n += 1
                srcs = astq.sources_of(fi.node, node.args[1])
                ok = all(_fresh_list(s) for s in srcs) and srcs
                ctx.ob(R2, fi.qual, f"store `{astq.text(node)[:70]}`", ok, "" if ok else "setdefault stores a list that may be shared", node=node)
            # foreign storage: clone._container[...] = ... / other._container reads
            if isinstance(node, ast.Attribute) and node.attr == sf and not astq.is_self_attr(node):
                ctx.ob(R2, fi.qual, f"foreign storage access `{astq.text(astq.stmt_of(node))[:70]}`", False,
                       "another instance's storage is touched directly: its lists can leak into this instance", node=node)
            # returns / yields of a stored list
            if isinstance(node, (ast.Return, ast.Yield)) and node.value is not None:
                v = node.value
                vals = [v] + (list(v.elts) if isinstance(v, ast.Tuple) else [])
                for x in vals:
                    leak = False
                    if isinstance(x, ast.Subscript) and astq.is_self_attr(x.value, sf):
                        leak = True
                    if isinstance(x, ast.Name):
                        for s in astq.sources_of(fi.node, x):
                            if isinstance(s, ast.Subscript) and astq.is_self_attr(s.value, sf):
                                leak = True
                            if isinstance(s, ast.Call) and isinstance(s.func, ast.Attribute) and astq.is_self_attr(s.func.value, sf) and s.func.attr in ("get", "setdefault", "pop", "values", "items"):
                                leak = True
                    if leak:
                        ctx.ob(R2, fi.qual, f"`{astq.text(node)[:60]}`", False, "a stored list is handed to the caller, who can mutate the header dict through it", node=node)
    ctx.sites(R2, n, 3, "stores into the storage dict")
    cf = m.method(HD, "_copy_from")
    stores = [x for x in astq.walk_fn(cf.node) if isinstance(x, ast.Assign) and isinstance(x.targets[0], ast.Subscript) and astq.is_self_attr(x.targets[0].value, sf)]
    ctx.sites(R2, len(stores), 1, "stores in _copy_from")
    for sn in stores:
        in_loop = astq.enclosing(sn, ast.For) is not None
        ctx.ob(R2, cf.qual, "copy builds one fresh list per key", in_loop and _fresh_list(sn.value), astq.text(sn), node=sn)

    # ---------------- R3
    for name, fresh in (("copy", True), ("__or__", True), ("__ror__", True), ("__ior__", False)):
        fi = m.method(HD, name)
        rets = [r for r in astq.walk_fn(fi.node) if isinstance(r, ast.Return) and r.value is not None and astq.text(r.value) != "NotImplemented"]
        ctx.sites(R3, len(rets), 1, f"returns of {name}")
        for r in rets:
            if fresh:
                srcs = astq.sources_of(fi.node, r.value)
                ok = bool(srcs) and all(isinstance(s, ast.Call) and (astq.call_text(s) in ("type(self)", "self.copy", "HTTPHeaderDict", "self.__class__")) for s in srcs)
                why = "the result is (or may be) an existing object: mutating the result would change its source"
            else:
                ok = astq.text(r.value) == "self"
                why = "in-place union must return self"
            ctx.ob(R3, fi.qual, f"`{astq.text(r)}`", ok, "" if ok else why, node=r)
        if fresh:
            # the source instance itself is never extended
            muts = [c for c in astq.calls(fi.node) if isinstance(c.func, ast.Attribute) and c.func.attr in ("extend", "add", "update", "__setitem__") and astq.text(c.func.value) == "self"]
            ctx.ob(R3, fi.qual, "does not mutate self", not muts, "; ".join(astq.text(x) for x in muts))

    # ---------------- R4
    for name in ("extend", "__ior__", "__or__", "__ror__"):
        fi = m.method(HD, name)
        bad = []
        for node in astq.walk_fn(fi.node):
            if isinstance(node, ast.Assign) and isinstance(node.targets[0], ast.Subscript) and astq.text(node.targets[0].value) in ("self", "result", "clone"):
                bad.append(astq.text(node))
            if isinstance(node, ast.Call) and isinstance(node.func, ast.Attribute) and node.func.attr in ("__setitem__", "update", "setdefault") and astq.text(node.func.value) in ("self", "result"):
                bad.append(astq.text(node))
        ctx.ob(R4, fi.qual, "inserts only through add()/extend()", not bad, "; ".join(bad))
    ext = m.method(HD, "extend")
    adds = [c for c in astq.calls(ext.node) if astq.call_text(c) == "self.add"]
    ctx.sites(R4, len(adds), 4, "add() calls in extend (one per accepted source kind)")
    si = m.method(HD, "__setitem__")
    stores = [x for x in astq.walk_fn(si.node) if isinstance(x, ast.Assign) and isinstance(x.targets[0], ast.Subscript) and astq.is_self_attr(x.targets[0].value, sf)]
    ctx.sites(R4, len(stores), 1, "store in __setitem__")
    for sn in stores:
        v = sn.value
        ok = isinstance(v, ast.List) and len(v.elts) == 2 and [astq.text(e) for e in v.elts] == si.params()[:2]
        ctx.ob(R4, si.qual, "item assignment replaces all previous values with [name, value]", ok, astq.text(sn), node=sn)
    ad = m.method(HD, "add")
    app = [c for c in astq.calls(ad.node) if isinstance(c.func, ast.Attribute) and c.func.attr == "append"]
    ctx.sites(R4, len(app), 1, "append in add")
    dl = m.method(HD, "__delitem__")
    dels = [x for x in astq.walk_fn(dl.node) if isinstance(x, ast.Delete)]
    ctx.ob(R4, dl.qual, "item deletion removes the whole entry", bool(dels) and all(isinstance(t, ast.Subscript) and astq.is_self_attr(t.value, sf) for x in dels for t in x.targets))


_run_storage = run


def run(ctx):  # noqa: F811
    _run_storage(ctx)
    from . import c16_effects

    c16_effects.run(ctx)
