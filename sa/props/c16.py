"""C16 - HTTPHeaderDict is a case-insensitive, order-preserving multimap.

R1-R4 are the storage discipline (lower-cased keys, fresh lists, fresh results, inserts through add()), decided on the
effect rows of *every* method of the class; R5-R9 (c16_effects.py) compare each method's rows with the reference multimap."""
from __future__ import annotations

import ast

from .. import astq
from ..model import AnalysisError
from ..terms import T, destruct, norm, subterms

COL = "urllib3._collections"
HD = f"{COL}.HTTPHeaderDict"
FRESH = ("list", "copy", "listcomp", "slice", "sorted", "add")


def _fresh(t):
    """does the term denote a list object built on the spot (a display, a copy, a slice, a comprehension, a concatenation)?"""
    op, a = destruct(norm(t))
    if op in ("list", "copy", "listcomp", "sorted"):
        return True
    if op == "slice":
        return True
    if op == "add" and len(a) == 2:
        return _fresh(a[0]) or _fresh(a[1])
    return False


def run(ctx):
    from . import c16_effects as fx

    m = ctx.model
    ctx.assume("A5")
    ctx.decline("equivalence of arbitrary operation *sequences* with a reference multimap as such; decided instead: every method's effect table against the reference multimap's (R5-R9), which gives the sequences by induction, and the storage discipline (R1-R4)")
    cls = m.cls(HD)
    sf = fx.storage_field(m)
    R1 = ctx.rule("C16-R1", "every access to the storage dict uses a lower-cased key", "E10 effect rows of every method")
    R2 = ctx.rule("C16-R2", "value lists are never shared between instances nor handed out: every list stored is built on the spot, another instance's storage is only read (never stored into, never mutated), no method returns or yields a stored list itself", "E10 effect rows of every method")
    R3 = ctx.rule("C16-R3", "copy / | / reversed | return a newly built instance, |= returns self", "E10 effect rows")
    R4 = ctx.rule("C16-R4", "bulk mutators (extend, constructors, |, |=) insert through add() / extend() so that existing values are kept, and item assignment replaces", "E10 effect rows")
    n_keyed = n_store = 0
    for name, fi in sorted(cls.methods.items()):
        hd = tuple("p:" + a.arg for a in fi.node.args.args[1:] if a.annotation is not None and "HTTPHeaderDict" in ast.unparse(a.annotation) and "|" not in ast.unparse(a.annotation) and "Union" not in ast.unparse(a.annotation))
        try:
            fi_, rows, rule = fx.rows_of(ctx, HD, name, sf, hd=hd)
        except AnalysisError:
            raise
        keys = set()
        for r in rows:
            for k_ in r.st.ts:
                if isinstance(k_, tuple) and len(k_) == 4 and k_[0] == "cmp" and k_[2] == "in" and k_[3] == "S":
                    keys.add(k_[1])
            for e in r.ev:
                if e[0] in ("store", "del") and len(e) >= 2:
                    keys.add(e[1])
        for k_ in sorted(keys):
            n_keyed += 1
            ok = destruct(k_)[0] in ("lower", "casefold")
            ctx.ob(R1, fi.qual, f"storage addressed by `{k_[:60]}`", ok,
                   "" if ok else "the storage is addressed with a key that was not lower-cased: lookups under another casing miss it", node=fi.node)
        seen = set()
        for r in rows:
            for e in r.ev:
                if e[0] == "store" and len(e) >= 3:
                    if ("store", e[2]) in seen:
                        continue
                    seen.add(("store", e[2]))
                    n_store += 1
                    ok = _fresh(e[2])
                    ctx.ob(R2, fi.qual, f"stores `{e[2][:70]}`", ok,
                           "" if ok else "a list object that exists elsewhere is stored: two header dicts (or a caller) would share and mutate it", witness=r.st.witness(), node=fi.node)
                if e[0] in ("foreign-store", "foreign-storage-call") and ("f", e[:3]) not in seen:
                    seen.add(("f", e[:3]))
                    ctx.ob(R2, fi.qual, f"another instance's storage is changed: {e[:4]}", False, "another instance's storage is written or mutated directly: its lists can end up shared", witness=r.st.witness(), node=fi.node)
                if e[0] in fx.MUTATORS and len(e) >= 2 and isinstance(e[1], str) and "S:" in e[1] and ("m", e[:2]) not in seen:
                    seen.add(("m", e[:2]))
                    ctx.ob(R2, fi.qual, f"a list of another instance is mutated: {e[:3]}", False, witness=r.st.witness(), node=fi.node)
            # handing out a stored list: the returned / yielded term is an entry itself (not a slice / copy / element of it)
            outs_ = [r.out[7:]] if r.out.startswith("return:") else []
            outs_ += [e[1] for e in r.ev if e[0] == "yield"]
            for t_ in outs_:
                cands = [t_] + (list(destruct(t_)[1]) if destruct(t_)[0] == "tuple" else [])
                for c_ in cands:
                    op_, a_ = destruct(c_)
                    leaked = op_ == "entry" or (op_ == "each" and a_ and destruct(a_[0])[0] == "values") or c_ == "S" or (op_ in ("values", "items") and a_ == ("S",))
                    if leaked and ("leak", c_) not in seen:
                        seen.add(("leak", c_))
                        ctx.ob(R2, fi.qual, f"hands out `{c_[:60]}`", False, "a stored list (or the storage itself) is handed to the caller, who can mutate the header dict through it", witness=r.st.witness(), node=fi.node)
        if name in ("copy", "__or__", "__ror__", "__ior__"):
            for r in rows:
                if not r.out.startswith("return:") or r.out == "return:NotImplemented":
                    continue
                res = r.out[7:]
                if name == "__ior__":
                    ok, why = res == "self", "in-place union must return self"
                else:
                    ok = destruct(res)[0] == "new"
                    why = "the result is (or may be) an existing object: mutating the result would change its source"
                    muts = [e for e in r.ev if e[0] == "call" and e[1] in ("self.extend", "self.add", "self.update", "self.__setitem__")]
                    if muts:
                        ok, why = False, f"the operand itself is changed: {muts[0][:3]}"
                ctx.ob(R3, fi.qual, f"returns `{res[:50]}`", ok, "" if ok else why, witness=r.st.witness(), node=fi.node)
        if name in ("extend", "__ior__", "__or__", "__ror__", "__init__"):
            bad = None
            for r in rows:
                for e in r.ev:
                    if e[0] in ("store", "setidx", "del", "storage-update", "storage-__setitem__") or (e[0] == "call" and e[1].split(".")[-1] in ("__setitem__", "update", "setdefault")):
                        bad = (e, r)
            ctx.ob(R4, fi.qual, "inserts only through add() / extend()", bad is None, "" if bad is None else f"{bad[0][:3]}: existing values of a repeated name would be replaced",
                   witness=bad[1].st.witness() if bad else None, node=fi.node)
    ctx.sites(R1, n_keyed, 8, "storage keys on effect rows")
    ctx.sites(R2, n_store, 3, "stores into the storage dict on effect rows")
    fx.run(ctx)
