"""C16 effect tables: every HTTPHeaderDict method is interpreted over a symbolic storage and its effect rows
(storage events, returned / yielded terms, per decision row) are compared with the rows of the reference multimap.

Each method is checked against a specification stated over the *other methods' specifications* (e.g. `extend` adds
every pair through `add`), so the class-level behaviour follows by induction over call depth.  Terms come from
sa/terms.py: they do not depend on local names, temporaries or statement layout."""
from __future__ import annotations

import ast

from .. import astq
from ..events import run_function
from ..interp import AV, BASE_TOP, UNK, Out, const, dict_av, exc
from ..model import AnalysisError
from ..terms import K, PURE_STR_METHODS, T, TermRule, destruct, is_opaque, norm, subst, subterms, term_of, tv

COL = "urllib3._collections"
HD = f"{COL}.HTTPHeaderDict"
IV = f"{COL}.HTTPHeaderDictItemView"
MUTATORS = {"append", "extend", "insert", "pop", "remove", "clear", "sort", "reverse", "__setitem__", "__delitem__", "update", "setdefault", "popitem", "discard", "add"}


class HDRule(TermRule):
    model_asserts = True

    def __init__(self, sf, self_methods, hd_values=()):
        self.sf = sf
        self.self_methods = self_methods
        self.loops_seen = 0
        self.hd_values = set(hd_values)   # terms known to denote header dicts (annotated parameters): modelled by the class's own specification

    # ---------------------------------------------------------------- helpers
    def ev(self, st, *e):
        loops = st.ts.get("loops", ())
        st.ts["ev"] = st.ts.get("ev", ()) + ((e + (("in",) + loops,) if loops else e),)

    @staticmethod
    def has_key(k):
        return ("cmp", k, "in", "S")

    def presence_fork(self, st, k):
        """[(state, present?)] - consults / sets the memo shared with `k in self._container`."""
        m = st.ts.get(self.has_key(k))
        if m is not None:
            return [(st, m)]
        out = []
        for b in (True, False):
            s = st.copy()
            s.ts[self.has_key(k)] = b
            out.append((s, b))
        return out

    def entry(self, st, k):
        stored = st.ts.get(("stored", k))
        if stored is not None:
            return stored
        return tv(T("entry", k), none=False, truth=True)

    # ---------------------------------------------------------------- attribute reads
    def getattr(self, it, st, node, base):
        if node.attr == self.sf:
            if base.kind == "self":
                return AV("unk", sym="S", none=False)
            return AV("unk", sym=f"S:{term_of(base)}", none=False, tags=frozenset({"foreign-storage"}))
        if base.kind == "self":
            return tv(f"self.{node.attr}")
        if base.kind == "unk" and "global:" in " ".join(base.tags):
            g = [t for t in base.tags if t.startswith("global:")][0][7:]
            return tv(f"g:{g}.{node.attr}", none=False)
        return None

    def global_value(self, it, name):
        if name in ("NotImplemented",):
            return tv("NotImplemented", none=False, truth=True)
        ctx = getattr(self, "ctx", None)
        if ctx is not None:
            try:
                v = ctx.fold.module_const(it.module, name)  # a module-level constant (separator, table of names) is its value
            except Exception:
                return None
            if isinstance(v, list) and all(isinstance(x, (str, bytes, int)) for x in v):
                v = tuple(v)
            if isinstance(v, (str, bytes, int, tuple)) and not isinstance(v, bool):
                try:
                    hash(v)
                    return const(v)
                except TypeError:
                    return None
        return None

    # ---------------------------------------------------------------- subscripts
    def subscript_hook(self, it, st, node, base, parts, is_slice):
        if base.sym == "S" and not is_slice:
            k = term_of(parts[0])
            outs = []
            for s, present in self.presence_fork(st, k):
                if present:
                    outs.append(Out("normal", s, self.entry(s, k)))
                else:
                    s.log(node, f"storage has no {k}: KeyError")
                    outs.append(Out("raise", s, exc("builtins.KeyError")))
            return outs
        if base.kind == "self" and not is_slice:
            k = term_of(parts[0])
            s = st.copy()
            return [Out("normal", s, tv(T("self.__getitem__", k), none=False)), Out("raise", st.copy(), exc("builtins.KeyError"))]
        return None

    def setitem(self, it, st, target, av):
        base_t = ast.unparse(target.value)
        vals, _ = it.eval(st, target.value)
        base = vals[0][1] if vals else UNK
        if isinstance(target.slice, ast.Slice):
            self.ev(st, "slice-store", term_of(base), term_of(av))
            return
        kv, _ = it.eval(st, target.slice)
        k = term_of(kv[0][1]) if kv else "?"
        if base.sym == "S":
            self.ev(st, "store", k, term_of(av))
            st.ts[self.has_key(k)] = True
            st.ts[("stored", k)] = av
        elif base.sym and base.sym.startswith("S:"):
            self.ev(st, "foreign-store", base.sym, k, term_of(av))
        elif base.kind == "self":
            self.ev(st, "call", "self.__setitem__", k, term_of(av))
        elif base.sym and (base.sym.startswith("entry(") or base.sym.startswith("list(")):
            self.ev(st, "setidx", base.sym, k, term_of(av))
        else:
            self.ev(st, "setidx-other", term_of(base), k, term_of(av))

    def delete(self, it, st, stmt):
        outs = []
        cur = [st]
        for t in stmt.targets:
            nxt = []
            for s in cur:
                if isinstance(t, ast.Subscript):
                    bv, _ = it.eval(s, t.value)
                    base = bv[0][1] if bv else UNK
                    kv, _ = it.eval(s, t.slice) if not isinstance(t.slice, ast.Slice) else ([(s, tv("slice"))], [])
                    k = term_of(kv[0][1]) if kv else "?"
                    if base.sym == "S":
                        for s2, present in self.presence_fork(s, k):
                            if present:
                                self.ev(s2, "del", k)
                                s2.ts[self.has_key(k)] = False
                                s2.ts.pop(("stored", k), None)
                                nxt.append(s2)
                            else:
                                outs.append(Out("raise", s2, exc("builtins.KeyError")))
                        continue
                    if base.kind == "self":
                        s2 = s.copy()
                        self.ev(s2, "call", "self.__delitem__", k)
                        nxt.append(s2)
                        if s.ts.get(self.has_key(T("lower", k))) is True:
                            s2.ts[self.has_key(T("lower", k))] = False  # `if h in self: del self[h]`: present, so no KeyError
                        else:
                            outs.append(Out("raise", s.copy(), exc("builtins.KeyError")))
                        continue
                    s2 = s.copy()
                    self.ev(s2, "del-other", term_of(base), k)
                    nxt.append(s2)
                else:
                    nxt.append(s)
            cur = nxt
        return outs + [Out("normal", s) for s in cur]

    # ---------------------------------------------------------------- comparisons
    def setattr(self, it, st, target, base, av):
        if isinstance(target.value, ast.Name) and target.value.id == "self" and target.attr != self.sf:
            self.ev(st, "setattr", target.attr, term_of(av))

    def compare(self, it, st, node, a, b):
        if len(node.ops) != 1:
            return None
        op = node.ops[0]
        # storage invariant (established by every store the rules accept): an entry is [spelling, value, ...], so len >= 2
        if a.sym and a.sym.startswith("len(entry(") and b.kind == "const" and isinstance(b.val, int):
            if isinstance(op, ast.GtE) and b.val <= 2:
                return True
            if isinstance(op, ast.Gt) and b.val <= 1:
                return True
            if isinstance(op, ast.Lt) and b.val <= 2:
                return False
            if isinstance(op, ast.LtE) and b.val <= 1:
                return False
        if isinstance(op, (ast.Is, ast.IsNot)) and a.sym and b.sym:
            same = None
            if a.sym == b.sym:
                same = True
            elif {a.sym.split("(")[0], b.sym.split("(")[0]} == {"list", "entry"}:
                same = False  # a list built here is never the stored one
            if same is not None:
                return same if isinstance(op, ast.Is) else not same
        if isinstance(op, (ast.In, ast.NotIn)) and b.sym == "S":
            m = st.ts.get(self.has_key(term_of(a)))
            if m is not None:
                return m if isinstance(op, ast.In) else not m
        if isinstance(op, (ast.In, ast.NotIn)) and b.kind == "self":
            # `name in self` -> __contains__ : for a str it is `name.lower() in storage`
            k = T("lower", term_of(a))
            m = st.ts.get(self.has_key(k))
            if m is not None:
                return m if isinstance(op, ast.In) else not m
            return [(s, (p if isinstance(op, ast.In) else not p)) for s, p in self.presence_fork(st, k)]
        return None

    # ---------------------------------------------------------------- calls
    MIXIN_SIGS = {"setdefault": ["key", "default"], "get": ["key", "default"], "pop": ["key", "default"]}
    HD_RECEIVERS = ("self.copy", "new", "p:other", "idx", "p:headers", "self._headers", "mc")

    def _canonical_call(self, it, st, node, recv, pos, kw):
        """One spelling per call of the class's own interface: keywords that continue the positional prefix of the method's
        signature are bound to it, and a keyword passing the parameter's default is dropped."""
        f = node.func
        if not kw or "*" in kw or "**" in kw:
            return pos, kw
        names, defaults = None, {}
        fi = None
        if isinstance(f, ast.Attribute):
            if isinstance(f.value, ast.Call) and ast.unparse(f.value.func) == "super":
                names = self.MIXIN_SIGS.get(f.attr)
            elif recv is not None and (recv.kind == "self" or (recv.sym and (recv.sym.split("(")[0] in self.HD_RECEIVERS or recv.sym in self.hd_values))):
                cls = it.self_cls if recv.kind == "self" else (IV if recv.sym == "self" else HD)
                fi = it.m.find_method(cls, f.attr) or it.m.find_method(HD, f.attr)
        elif self._is_class_value(it, st, f):
            fi = it.m.find_method(HD, "__init__")
        if fi is not None:
            a = fi.node.args
            names = [x.arg for x in a.posonlyargs + a.args][1:]
            defaults = fi.defaults()
        if not names:
            return pos, kw
        pos, kw = list(pos), dict(kw)

        def is_default(k, v):
            d = defaults.get(k)
            return isinstance(d, ast.Constant) and v.kind == "const" and type(v.val) is type(d.value) and v.val == d.value
        while len(pos) < len(names) and names[len(pos)] in kw:
            pos.append(kw.pop(names[len(pos)]))
        for k in list(kw):
            if k not in names and is_default(k, kw[k]):
                del kw[k]  # a keyword-only parameter given its default
        return pos, kw

    def _is_class_value(self, it, st, f):
        """the callee expression denotes the class of this dict: type(self)(..), a local holding type(self), or the class name"""
        if isinstance(f, ast.Call) and ast.unparse(f.func) == "type":
            return True
        if isinstance(f, ast.Name):
            if f.id == "HTTPHeaderDict":
                return True
            v = st.env.get(it.var(f.id))
            return v is not None and term_of(st.view(v)) == "type(self)"
        return False

    def call_hook(self, it, st, node, recv, pos, kw):
        f = node.func
        text = ast.unparse(f)
        pos, kw = self._canonical_call(it, st, node, recv, pos, kw)
        args = [term_of(p) for p in pos] + [f"{k}={term_of(v)}" for k, v in sorted(kw.items())]
        if it.resolve_callee(node, recv) in it.inline:
            return None  # a private helper (not part of the class's interface): interpreted in place
        if isinstance(f, ast.Attribute) and recv is not None:
            # storage methods
            if recv.sym == "S":
                k = term_of(pos[0]) if pos else None
                if f.attr == "setdefault" and len(pos) == 2:
                    outs = []
                    for s, present in self.presence_fork(st, k):
                        if present:
                            outs.append(Out("normal", s, self.entry(s, k)))
                        else:
                            self.ev(s, "store", k, term_of(pos[1]))
                            s.ts[self.has_key(k)] = True
                            s.ts[("stored", k)] = pos[1]
                            outs.append(Out("normal", s, pos[1]))
                    return outs
                if f.attr == "get" and pos:
                    outs = []
                    for s, present in self.presence_fork(st, k):
                        outs.append(Out("normal", s, self.entry(s, k) if present else (pos[1] if len(pos) > 1 else const(None))))
                    return outs
                if f.attr == "pop" and pos:
                    outs = []
                    for s, present in self.presence_fork(st, k):
                        if present:
                            e = self.entry(s, k)
                            self.ev(s, "del", k)
                            s.ts[self.has_key(k)] = False
                            outs.append(Out("normal", s, e))
                        elif len(pos) > 1:
                            outs.append(Out("normal", s, pos[1]))
                        else:
                            outs.append(Out("raise", s, exc("builtins.KeyError")))
                    return outs
                if f.attr in ("values", "keys", "items", "copy", "__len__"):
                    return [Out("normal", st, tv(T(f.attr, "S"), none=False))]
                if f.attr in ("clear", "update", "popitem", "__setitem__", "__delitem__"):
                    s = st.copy()
                    self.ev(s, "storage-" + f.attr, *args)
                    return [Out("normal", s, UNK)]
                s = st.copy()
                self.ev(s, "storage-call", f.attr, *args)
                return [Out("normal", s, tv(T("call:S." + f.attr, *args)))]
            if recv.sym and recv.sym.startswith("S:") and f.attr in ("values", "keys", "items") and not pos:
                return [Out("normal", st, tv(T(f.attr, recv.sym), none=False))]  # a read-only view of another instance's storage
            if recv.sym and recv.sym.startswith("S:"):
                s = st.copy()
                self.ev(s, "foreign-storage-call", recv.sym, f.attr, *args)
                return [Out("normal", s, tv(T(f"{recv.sym}.{f.attr}", *args), none=False, tags=frozenset({"foreign-storage"})))]
            # list mutation on a stored (or about to be stored) list
            if f.attr in MUTATORS and recv.sym and (recv.sym.startswith("entry(") or recv.sym.startswith("list(") or "foreign-storage" in recv.tags):
                s = st.copy()
                self.ev(s, f.attr, recv.sym, *args)
                return [Out("normal", s, const(None))]
            # a header dict known as such (annotated parameter): getlist of the entry being walked is that entry's value lines
            if recv.sym in self.hd_values and f.attr == "getlist" and pos:
                Ex = T("each", T("values", f"S:{recv.sym}"))
                if term_of(pos[0]) in (T("idx", Ex, "0"), T("lower", T("idx", Ex, "0"))):
                    return [Out("normal", st, tv(T("slice", Ex, "1", "", ""), none=False))]
            # copy() is, by its own row (checked under R9), a new instance filled from the receiver
            if recv.kind == "self" and f.attr == "copy" and not pos and not kw:
                s = st.copy()
                self.ev(s, "new")
                self.ev(s, "call", "new()._copy_from", "self")
                return [Out("normal", s, tv(T("new"), none=False, truth=True))]
            # methods of self / of another header dict / of a freshly built one: events, not inlined
            if recv.kind == "self" or (recv.sym and recv.sym.split("(")[0] in ("self.copy", "new", "p:other", "idx", "p:headers", "self._headers", "mc") and f.attr not in PURE_STR_METHODS):
                rname = "self" if recv.kind == "self" else recv.sym
                s = st.copy()
                pure = f.attr in ("getlist", "iteritems", "itermerged", "items", "keys", "values", "get", "copy", "__len__", "_has_value_for_header", "__contains__", "__getitem__")
                if not pure or f.attr == "copy":
                    self.ev(s, "call", f"{rname}.{f.attr}", *args)
                outs = [Out("normal", s, tv(T(f"{rname}.{f.attr}", *args), none=False if f.attr not in ("get",) else None))]
                if f.attr in ("__delitem__", "__getitem__", "pop"):
                    x_ = args[0] if args else None
                    known_present = recv.kind == "self" and x_ is not None and st.ts.get(self.has_key(T("lower", x_))) is True
                    if not known_present:  # (`if h in self: del self[h]` cannot raise)
                        outs.append(Out("raise", st.copy(), exc("builtins.KeyError")))
                return outs
        if isinstance(f, ast.Attribute) and isinstance(f.value, ast.Call) and ast.unparse(f.value.func) == "super":
            s = st.copy()
            self.ev(s, "call", f"super.{f.attr}", *args)
            return [Out("normal", s, tv(T(f"super.{f.attr}", *args)))]
        if text in ("list", "tuple") and len(pos) == 1 and not kw and it.var(text) not in st.env:
            # the call list(x) is [*x] - a fresh list of x's elements - while the display [x] is a one-element list: the term
            # language writes displays as list(a, b, ..), so the call is spelt with a star to keep the two apart
            return [Out("normal", st, tv(T(text, T("star", args[0])), none=False))]
        if text == "type" and len(pos) == 1:
            return [Out("normal", st, tv(T("type", args[0]), none=False, truth=True))]
        if recv is None and isinstance(f, ast.Call):
            pass
        if self._is_class_value(it, st, f) and text != "HTTPHeaderDict":
            # type(self)(...) : a new instance
            s = st.copy()
            t = T("new", *args)
            self.ev(s, "new", *args)
            return [Out("normal", s, tv(t, none=False, truth=True))]
        if text in ("HTTPHeaderDict", "HTTPHeaderDictItemView"):
            s = st.copy()
            if text == "HTTPHeaderDict":
                self.ev(s, "new", *args)
                return [Out("normal", s, tv(T("new", *args), none=False, truth=True))]
            return [Out("normal", s, tv(T("view", *args), none=False, truth=True))]
        if text == "ensure_can_construct_http_header_dict" and pos:
            return [Out("normal", st, tv(T("mc", args[0])))]
        if text == "TypeError":
            return [Out("normal", st, exc("builtins.TypeError"))]
        if text == "hasattr" and len(pos) == 2:
            return [Out("normal", st, tv(T("hasattr", *args)))]
        return None

    # ---------------------------------------------------------------- loops / yields
    # Canonical generic entry of a storage: E = each(values(S)).  Storage invariant (established by every store the rules accept,
    # checked by R1/R5/R6/R9): the key of an entry is lower(entry[0]).  Under it, iterating the dict (names), the storage
    # (keys), its values() or its items() are four views of the same walk, and S[lower(E[0])] is E.
    def _storage_of(self, itv, st):
        """(storage term, view) when `itv` iterates a header dict / its storage: view in {names, keys, values, items}"""
        t = norm(term_of(itv)) if itv.sym else None
        if itv.kind == "self":
            return "S", "names"
        if not t:
            return None
        if t == "S" or t.startswith("S:"):
            return t, "keys"
        op, a = destruct(t)
        if op in ("values", "keys", "items") and len(a) == 1 and (a[0] == "S" or a[0].startswith("S:")):
            return a[0], {"values": "values", "keys": "keys", "items": "items"}[op]
        if op == "copy" and len(a) == 1:
            return self._storage_of(tv(a[0]), st)
        if t in self.hd_values:
            return f"S:{t}", "names"
        return None

    def for_iter(self, it, st, stmt, itv):
        if (itv.kind == "tuple" and not itv.val) or (itv.kind == "const" and not itv.val):
            return [(st.copy(), False)]  # iterating an empty literal
        sv = self._storage_of(itv, st)
        if sv is not None:
            S_, view = sv
            I = T("values", S_)
            E = T("each", I)
            name, key = T("idx", E, "0"), T("lower", T("idx", E, "0"))
            elem = {"names": tv(name, none=False), "keys": tv(key, none=False), "values": tv(E, none=False, truth=True),
                    "items": AV("tuple", (tv(key, none=False), tv(E, none=False, truth=True)), truth=True, none=False)}[view]
        else:
            t = norm(term_of(itv))
            op, a = destruct(t)
            if (op == "const" and isinstance(a, (tuple, list, str, bytes, frozenset)) and not a) or (op in ("tuple", "list") and not a):
                return [(st.copy(), False)]  # iter(()) and the like: nothing to walk
            if op in ("gen", "listcomp") and len(a) == 2:
                # iterating a comprehension without filter: the walk over its source, each element mapped
                inner = tv(a[1])
                sv2 = self._storage_of(inner, st)
                I = T("values", sv2[0]) if sv2 else a[1]
                elt = a[0]
                if sv2:
                    E = T("each", I)
                    rep = {"names": T("idx", E, "0"), "keys": T("lower", T("idx", E, "0")), "values": E}.get(sv2[1])
                    if rep:
                        elt = subst(elt, T("each", a[1]), rep)
                eop, ea = destruct(elt)
                elem = AV("tuple", tuple(tv(x) for x in ea), truth=True, none=False) if eop == "tuple" else tv(elt)
                S_, view = (sv2[0], sv2[1]) if sv2 else (None, None)
            else:
                I, elem, S_, view = t, None, None, None
        key_ = ("iterated", I, stmt.lineno)
        if st.ts.get(key_):
            s = st.copy()
            s.ts["loops"] = tuple(x for x in s.ts.get("loops", ()) if x != I)
            return [(s, False)]
        self.loops_seen += 1
        s = st.copy()
        s.ts[key_] = True
        s.ts["loops"] = s.ts.get("loops", ()) + (I,)
        if elem is not None:
            if isinstance(stmt.target, (ast.Tuple, ast.List)) and elem.kind != "tuple" and any(isinstance(t_, ast.Starred) for t_ in stmt.target.elts):
                it.assign(s, stmt.target, elem)  # name, *lines = entry
            else:
                it.assign(s, stmt.target, elem)
            if S_ == "S":
                E = T("each", I)
                k_ = T("lower", T("idx", E, "0"))
                s.ts[self.has_key(k_)] = True
                s.ts[("stored", k_)] = tv(E, none=False, truth=True)
        elif isinstance(stmt.target, (ast.Tuple, ast.List)) and not any(isinstance(t_, ast.Starred) for t_ in stmt.target.elts):
            n = len(stmt.target.elts)
            it.assign(s, stmt.target, AV("tuple", tuple(tv(f"each{i}({I})", none=False) for i in range(n)), truth=True, none=False))
        else:
            it.assign(s, stmt.target, tv(f"each({I})", none=False))
        e = st.copy()
        return [(s, True), (e, False)]

    def on_yield(self, it, stmt, av, outs):
        res = []
        for o in outs:
            if o.kind == "normal":
                self.ev(o.st, "yield", term_of(av))
                res.append(o)
        return res


def storage_field(m):
    init = m.method(HD, "__init__")
    for n in astq.walk_fn(init.node):
        if isinstance(n, ast.Assign) and astq.is_self_attr(n.targets[0]) and isinstance(n.value, (ast.Dict, ast.Call)):
            if isinstance(n.value, ast.Dict) or astq.call_text(n.value) in ("dict", "OrderedDict"):
                return n.targets[0].attr
    raise AnalysisError("HTTPHeaderDict storage field not found")


class Row:
    def __init__(self, o):
        self.o = o
        self.st = o.st
        self.ev = tuple(o.st.ts.get("ev", ()))
        if o.kind == "raise":
            self.out = "raise:" + str(o.val.val).rsplit(".", 1)[-1]
        elif o.kind == "return":
            self.out = "return:" + term_of(o.val)
        else:
            self.out = "return:None"

    def present(self, k):
        return self.st.ts.get(HDRule.has_key(k))

    def truth(self, sym):
        return self.st.facts.get(sym, (None, None))[0]

    def isinst(self, sym, *classes):
        for key, v in self.st.ts.items():
            if isinstance(key, tuple) and key and key[0] == "isinst" and key[1] == sym and all(any(c in k for k in key[2]) for c in classes):
                return v
        return None

    def sig(self):
        return (self.out, self.ev)


MODELLED = ("_copy_from", "_prepare_for_method_change", "_has_value_for_header")  # private, but part of the class's own interface: analysed as rows of their own


def rows_of(ctx, cls, name, sf, params=None, hd=()):
    m = ctx.model
    fi = m.method(cls, name)
    rule = HDRule(sf, set(m.cls(cls).methods), hd_values=hd)
    rule.ctx = ctx
    a = fi.node.args
    p = dict(params or {})
    if a.vararg:
        p.setdefault(a.vararg.arg, tv("p:*args", none=False))
    if a.kwarg:
        p.setdefault(a.kwarg.arg, dict_av({}, True, sym="p:**kwargs"))
    from ..rows import helper_closure
    inl = {q for q in set(helper_closure(m, [fi], stop=MODELLED)) - {fi.qual}}
    outs, it = run_function(m, fi, rule, cls, inline=frozenset(inl), params=p, budget=400000)
    ctx.states += it.budget.steps
    rows, seen = [], set()
    for o in outs:
        if o.kind == "raise" and o.val.val in (BASE_TOP.val, "<external-exception>"):
            continue
        r = Row(o)
        k = (r.sig(), tuple(sorted((str(a_), str(b_)) for a_, b_ in o.st.ts.items() if isinstance(a_, tuple) and a_ and a_[0] in ("cmp", "isinst"))), tuple(sorted(o.st.facts.items())))
        if k in seen:
            continue
        seen.add(k)
        rows.append(r)
    return fi, rows, rule


def run(ctx):
    m = ctx.model
    sf = storage_field(m)
    R5 = ctx.rule("C16-R5", "item access is the reference multimap's: assignment replaces the entry with [name, value] under the lower-cased name (bytes names decoded), lookup returns the values joined by ', ', deletion removes the whole entry, membership is a lower-cased storage test for str and False otherwise, len is the number of entries", "E10 effect rows (Herbrand terms over a symbolic storage)")
    R6 = ctx.rule("C16-R6", "add(): a new name stores a fresh [name, value]; an existing name keeps its first-seen spelling and appends the value, or with combine=True joins it to the last value with ', ' - and nothing else is touched", "E10 effect rows")
    R7 = ctx.rule("C16-R7", "extend(): every pair of the positional source (another header dict line by line, a mapping's items, an iterable of pairs, or keys()+[] duck typing) and then every keyword is inserted through add() without combine, in source order; more than one positional source is a TypeError", "E10 effect rows")
    R8 = ctx.rule("C16-R8", "views: iteration yields the first-seen spelling of each entry in storage order; iteritems yields (spelling, value) per value line in order; itermerged yields (spelling, values joined by ', '); getlist returns a fresh slice of the values (or [] / the default); the item view iterates and measures iteritems and tests membership per line", "E10 effect rows")
    R9 = ctx.rule("C16-R9", "copies and unions: _copy_from stores, per name of the source, a fresh [name, *values]; copy() is a new instance filled by _copy_from(self); `a | b` is copy-of-a extended by b, `b | a` (reflected) is new(b) extended by a, `a |= b` extends a in place and returns it; non-constructible operands give NotImplemented; discard swallows only KeyError; equality compares lower-cased merged views", "E10 effect rows")

    def ob(rule, fi, what, ok, why="", row=None):
        ctx.ob(rule, fi.qual, what, ok, "" if ok else why, witness=row.st.witness() if (row is not None and not ok) else None, node=fi.node)

    def check_rows(rule, fi, rows, pred, what, minimum=1):
        """pred(row) -> (applies, ok, why).  Non-vacuity: at least `minimum` rows must apply."""
        n = 0
        for r in rows:
            a, ok, why = pred(r)
            if not a:
                continue
            n += 1
            ob(rule, fi, f"{what} [{r.out[:70]}; {len(r.ev)} events]", ok, why + f" - events {r.ev}, outcome {r.out}", r)
        ctx.sites(rule, n, minimum, f"effect rows of {fi.name} for: {what}")

    def no_opaque(rule, fi, rows):
        for r in rows:
            txt = r.out + " " + " ".join(str(e) for e in r.ev)
            if "foreign" in txt:
                ob(rule, fi, "touches another instance's storage directly", False, f"events {r.ev}: lists of the other instance can end up shared", r)

    KEYS = ("p:key", "decode(p:key,'latin-1')")

    # ------------------------------------------------------------------ __setitem__
    fi, rows, _ = rows_of(ctx, HD, "__setitem__", sf)
    pk, pv = ["p:" + x for x in fi.params()[:2]]
    KEYS = (pk, f"decode({pk},'latin-1')")

    def p_set(r):
        if not r.out.startswith("return"):
            return False, True, ""
        ks = KEYS if r.isinst(pk, "bytes") is True else KEYS[:1]  # only a bytes name may be decoded (str has no decode)
        ok = len(r.ev) == 1 and r.ev[0][0] == "store" and any(r.ev[0][1:] == (T("lower", K), T("list", K, pv)) for K in ks)
        return True, ok, "item assignment must replace the whole entry with [name, value] under the lower-cased name (a str name is used as it is)"
    check_rows(R5, fi, rows, p_set, "assignment stores exactly [name, value] at lower(name)")

    # ------------------------------------------------------------------ __getitem__
    fi, rows, _ = rows_of(ctx, HD, "__getitem__", sf)
    pk = "p:" + fi.params()[0]
    k = T("lower", pk)

    def p_get(r):
        if r.present(k) is True:
            ok = r.out == "return:" + T("join", "', '", T("slice", T("entry", k), "1", "", "")) and not r.ev
            return True, ok, "lookup must return all values of the entry (everything after the stored spelling) joined by ', ' and change nothing"
        if r.present(k) is False:
            return True, r.out == "raise:KeyError" and not r.ev, "a missing name must raise KeyError"
        return True, False, "lookup does not address the storage by the lower-cased name"
    check_rows(R5, fi, rows, p_get, "lookup", 2)

    # ------------------------------------------------------------------ __delitem__
    fi, rows, _ = rows_of(ctx, HD, "__delitem__", sf)
    pk = "p:" + fi.params()[0]
    k = T("lower", pk)

    def p_del(r):
        if r.present(k) is True or (r.present(k) is False and r.ev):
            return True, r.ev == (("del", k),) and r.out.startswith("return"), "deletion must remove exactly the entry of the lower-cased name"
        if r.present(k) is False:
            return True, r.out == "raise:KeyError", "deleting a missing name must raise KeyError"
        return True, False, "deletion does not address the storage by the lower-cased name"
    check_rows(R5, fi, rows, p_del, "deletion", 2)

    # ------------------------------------------------------------------ __contains__
    fi, rows, _ = rows_of(ctx, HD, "__contains__", sf)
    pk = "p:" + fi.params()[0]
    k = T("lower", pk)

    def p_in(r):
        isstr = r.isinst(pk, "str")
        if isstr is False:
            return True, r.out == "return:False" and not r.ev, "a non-str key is never contained"
        pres = r.present(k)
        if pres is None:
            return True, False, "membership is not decided by the lower-cased name in the storage"
        return True, r.out == f"return:{pres}" and not r.ev, "membership must be exactly `lower(name) in storage`"
    check_rows(R5, fi, rows, p_in, "membership", 3)

    # ------------------------------------------------------------------ __len__
    fi, rows, _ = rows_of(ctx, HD, "__len__", sf)
    check_rows(R5, fi, rows, lambda r: (True, r.out == "return:len(S)" and not r.ev, "len must be the number of storage entries"), "length")

    # ------------------------------------------------------------------ add
    fi, rows, _ = rows_of(ctx, HD, "add", sf)
    ps = fi.params()
    pk, pv = "p:" + ps[0], "p:" + ps[1]
    pc = "p:combine"
    if "combine" not in [a.arg for a in fi.node.args.kwonlyargs + fi.node.args.args]:
        raise AnalysisError("HTTPHeaderDict.add has no `combine` parameter")
    KEYS = (pk, f"decode({pk},'latin-1')")

    def p_add(r):
        if not r.out.startswith("return"):
            return False, True, ""
        for K in (KEYS if r.isinst(pk, "bytes") is True else KEYS[:1]):
            k = T("lower", K)
            pres = r.present(k)
            if pres is None:
                continue
            e = T("entry", k)
            if pres is False or (r.ev and r.ev[0][0] == "store"):
                ok = r.ev == (("store", k, T("list", K, pv)),)
                return True, ok, "a new name must store a fresh [name, value] (and only that)"
            comb = r.truth(pc)
            if comb is True:
                want = ("setidx", e, "-1", norm(T("add", T("add", T("idx", e, "-1"), "', '"), pv)))
                got = tuple((x[0], x[1], x[2], norm(x[3])) if x[0] == "setidx" and len(x) == 4 else x for x in r.ev)
                return True, got == (want,), "combine=True must join the value to the LAST value of the entry with ', '"
            if comb is False:
                return True, r.ev == (("append", e, pv),), "an existing name must get the value appended after its other values (first-seen spelling kept)"
            return True, False, "the existing-name case does not distinguish combine"
        return True, False, "add() does not address the storage by the lower-cased name"
    check_rows(R6, fi, rows, p_add, "add", 3)
    no_opaque(R6, fi, rows)
    for r in rows:
        if r.out.startswith("raise:") and r.out != "raise:KeyError":
            ob(R6, fi, f"add() fails with {r.out[6:]}", False, f"add() must accept every (name, value): events {r.ev}", r)
    dflt = fi.defaults().get("combine")
    ctx.ob(R6, fi.qual, "combine defaults to False (plain add keeps one line per value)", isinstance(dflt, ast.Constant) and dflt.value is False,
           "" if isinstance(dflt, ast.Constant) and dflt.value is False else "add(name, value) without combine would merge values into one line", node=fi.node)

    # ------------------------------------------------------------------ extend
    fi, rows, rule = rows_of(ctx, HD, "extend", sf)
    o0 = "idx(p:*args,0)"
    SRC = {
        "hd": ((T(f"{o0}.iteritems"), T(f"{o0}.items")), lambda I: (f"each0({I})", f"each1({I})")),
        "mapping": ((T("items", o0), T(f"{o0}.items")), lambda I: (f"each0({I})", f"each1({I})")),
        "iterable": ((o0,), lambda I: (f"each0({I})", f"each1({I})")),
        "keys": ((T("keys", o0), T(f"{o0}.keys")), lambda I: (f"each({I})", T("idx", o0, f"each({I})"))),
    }
    KW = T("items", "p:**kwargs")

    def e_keys_bad(r):
        uses_keys = any(e[0] == "call" and e[1] == "self.add" and isinstance(e[-1], tuple) and e[-1][1:] in ((T("keys", o0),), (T(f"{o0}.keys"),)) for e in r.ev)
        if not uses_keys:
            return False
        return not (r.truth(T("hasattr", o0, "'keys'")) is True and r.truth(T("hasattr", o0, "'__getitem__'")) is True)
    seen_kinds = set()
    n_ext = 0
    n_unrec7 = 0

    def arity(r):
        """numbers of positional sources (0..3) consistent with the decisions of the row on len(args) / truthiness of args"""
        ns = set(range(4))
        for key, v in r.st.ts.items():
            if isinstance(key, tuple) and len(key) == 4 and key[0] == "cmp" and key[1] == "len(p:*args)":
                try:
                    c = int(key[3])
                except ValueError:
                    continue
                f = {"==": lambda n: n == c, "<": lambda n: n < c, "<=": lambda n: n <= c, ">": lambda n: n > c, ">=": lambda n: n >= c}.get(key[2])
                if f:
                    ns = {n for n in ns if f(n) == v}
        t = r.truth("p:*args")
        if t is not None:
            ns = {n for n in ns if (n > 0) == t}
        return ns

    for r in rows:
        ns = arity(r)
        if not ns:
            continue  # infeasible combination of decisions
        if r.out == "raise:TypeError":
            ob(R7, fi, "more than one positional source is refused", not r.ev and min(ns) >= 2, f"extend() raises TypeError although it may have been given {sorted(ns)} positional source(s)", r)
            continue
        if not r.out.startswith("return"):
            continue
        if max(ns) >= 2:
            ob(R7, fi, "a second positional source is never silently ignored", False, f"this path returns normally although {sorted(ns)} positional sources are possible: the extra source's values are lost", r)
        pos_adds = [e for e in r.ev if e[0] == "call" and e[1] == "self.add" and isinstance(e[-1], tuple) and e[-1][:1] == ("in",) and e[-1][1:] != (KW,)]
        loops_here = [l_ for e in r.ev if isinstance(e[-1], tuple) and e[-1][:1] == ("in",) for l_ in e[-1][1:]]
        if any(l_ == "?" or "?" in l_ or l_.startswith(("chain(", "itertools.chain(", "g:itertools.chain", "call(")) for l_ in loops_here):
            # the pairs are fed to add() through an iterable the rule cannot resolve (a chain of sources, a generator built by a
            # helper): DESIGN 13.2 - provenance only: every change goes through add() without combine
            n_unrec7 += 1
            bad_ev = [e for e in r.ev if not (e[0] == "call" and e[1] == "self.add") and e[0] in ("store", "del", "setidx", "append", "storage-call", "storage-update", "storage-clear")]
            comb = [e for e in r.ev if e[0] == "call" and e[1] == "self.add" and any(isinstance(a_, str) and a_.startswith("combine=") and a_ != "combine=False" for a_ in e[2:])]
            ob(R7, fi, "extend() idiom not recognised on this row: every change goes through add() without combine (provenance only)", not bad_ev and not comb,
               f"events {r.ev}", r)
            n_ext += 1
            continue
        if pos_adds and 0 in ns:
            ob(R7, fi, "pairs of the positional source are added only when there is one", False, "the positional source is read on a path where none may have been given", r)
        if e_keys_bad(r):
            ob(R7, fi, "keys()/[] duck typing only for objects that have both", False, "the keys()+[] branch is taken for an object lacking keys or __getitem__", r)
        n_ext += 1
        evs = list(r.ev)
        ok, why = True, ""
        stage = 0  # 0 = positional source, 1 = keywords
        for e in evs:
            if e[0] != "call" or e[1] != "self.add":
                ok, why = False, f"extend() changes the dict by {e[:2]} instead of add(): existing values of a repeated name would be replaced or lists shared"
                break
            args = e[2:-1] if (e[-1] and isinstance(e[-1], tuple) and e[-1][:1] == ("in",)) else e[2:]
            loops = e[-1][1:] if (e[-1] and isinstance(e[-1], tuple) and e[-1][:1] == ("in",)) else ()
            if len(loops) != 1:
                ok, why = False, f"add() is not called once per pair of one source (loops {loops})"
                break
            I = loops[0]
            if I == KW:
                stage = 1
                want = (f"each0({I})", f"each1({I})")
                if tuple(args) != want:
                    ok, why = False, f"keyword pairs must be added as (name, value): add{tuple(args)}"
                continue
            if stage == 1:
                ok, why = False, "positional pairs are added after the keyword pairs (order of insertion changes)"
                break
            is_hd, is_map, is_it = r.isinst(o0, "HTTPHeaderDict"), r.isinst(o0, "Mapping"), r.isinst(o0, "Iterable")
            cond = {"hd": is_hd is True, "mapping": is_hd is False and is_map is True, "iterable": is_hd is False and is_map is False and is_it is True,
                    "keys": is_hd is False and is_map is False and is_it is False}
            kind = [kd for kd, (Is, mk) in SRC.items() if cond[kd] and I in Is and tuple(args) == mk(I)]
            if not kind:
                if any(I in Is for Is, _ in SRC.values()):
                    ok, why = False, f"pairs of the source are not added as (name, value): add{tuple(args)} in the loop over {I}"
                elif "itermerged" in I or "combine=" in " ".join(args):
                    ok, why = False, f"the source's value lines are merged ({I}, add{tuple(args)}): one line per value is lost"
                else:
                    raise AnalysisError(f"C16-R7: extend() iterates a source form the rule does not know: {I} with add{tuple(args)}")
                break
            seen_kinds.add(kind[0])
        ob(R7, fi, f"row with {len(evs)} insertion(s): only add(name, value) per source pair, positional source before keywords", ok, why + f" - events {r.ev}", r)
    ctx.sites(R7, n_ext, 4, "returning rows of extend")
    for kind in SRC:
        if n_unrec7:
            break  # the per-kind table is not decidable when the sources are fed through an unresolved iterable
        ctx.ob(R7, fi.qual, f"source kind `{kind}` is read pair by pair and added", kind in seen_kinds,
               "" if kind in seen_kinds else "no row of extend() inserts the pairs of this accepted source kind", node=fi.node)
    any_kw = any(any(isinstance(e[-1], tuple) and (e[-1][1:] == (KW,) or (n_unrec7 and any(KW in str(l_) for l_ in e[-1][1:]))) for e in r.ev) for r in rows)
    if n_unrec7 and not any_kw and fi.node.args.kwarg is not None:
        # unresolved iterable: at least the keyword mapping must be read by extend() (provenance only)
        any_kw = any(isinstance(n_, ast.Name) and n_.id == fi.node.args.kwarg.arg and isinstance(n_.ctx, ast.Load) for n_ in ast.walk(fi.node))
    ctx.ob(R7, fi.qual, "keyword arguments are added", any_kw, "" if any_kw else "extend(**kwargs) drops its keyword pairs", node=fi.node)

    # ------------------------------------------------------------------ getlist
    fi, rows, _ = rows_of(ctx, HD, "getlist", sf)
    pk = "p:" + fi.params()[0]
    k = T("lower", pk)

    def p_getlist(r):
        pres = r.present(k)
        if pres is True:
            return True, r.out == "return:" + T("slice", T("entry", k), "1", "", "") and not r.ev, "getlist must return a fresh slice with every value after the stored spelling"
        if pres is False:
            return True, r.out in ("return:list()", "return:p:default") and not r.ev, "a missing name gives [] or the caller's default"
        return True, False, "getlist does not address the storage by the lower-cased name"
    check_rows(R8, fi, rows, p_getlist, "getlist", 2)

    # ------------------------------------------------------------------ __iter__ / iteritems / itermerged
    fi, rows, _ = rows_of(ctx, HD, "__iter__", sf)
    Iv = T("values", "S")
    E_ = T("each", Iv)
    NAME_, LINES_ = T("idx", E_, "0"), T("slice", E_, "1", "", "")
    want_iter = {(("yield", NAME_, ("in", Iv)),)}

    def p_iter(r):
        if not r.ev:
            return False, True, ""
        return True, r.ev in want_iter, "iteration must yield the stored first-seen spelling (element 0) of each entry, in storage order"
    check_rows(R8, fi, rows, p_iter, "iteration over names")

    fi, rows, _ = rows_of(ctx, HD, "iteritems", sf)
    want = ("yield", T("tuple", NAME_, f"each({LINES_})"), ("in", Iv, LINES_))

    def p_iteritems(r):
        ys = [e for e in r.ev if e[0] == "yield"]
        if not ys:
            return False, True, ""
        return True, tuple(r.ev) == (want,), "iteritems must yield (stored spelling, value) for each value after element 0, in order"
    check_rows(R8, fi, rows, p_iteritems, "per-line iteration")

    fi, rows, _ = rows_of(ctx, HD, "itermerged", sf)
    want_m = ("yield", T("tuple", NAME_, T("join", "', '", LINES_)), ("in", Iv))

    def p_itermerged(r):
        ys = [e for e in r.ev if e[0] == "yield"]
        if not ys:
            return False, True, ""
        return True, tuple(r.ev) == (want_m,), "itermerged must yield (stored spelling, all values joined by ', ')"
    check_rows(R8, fi, rows, p_itermerged, "merged iteration")

    # item view
    fi, rows, _ = rows_of(ctx, IV, "__iter__", sf)
    check_rows(R8, fi, rows, lambda r: (r.out.startswith("return"), r.out == "return:" + T("self._headers.iteritems"), "the item view must iterate the per-line items"), "item view iteration")
    fi, rows, _ = rows_of(ctx, IV, "__len__", sf)
    LENS = {"return:" + T("len", T("list", T("self._headers.iteritems"))), "return:" + T("sum", T("gen", "1", T("self._headers.iteritems"))),
            "return:" + T("len", T("tuple", T("self._headers.iteritems"))),
            "return:" + T("len", T("list", T("star", T("self._headers.iteritems")))), "return:" + T("len", T("tuple", T("star", T("self._headers.iteritems"))))}
    Ih = T("values", "S:self._headers")
    Eh = T("each", Ih)
    for cnt in (T("len", Ih), T("len", "S:self._headers"), T("len", "self._headers"), T("self._headers.__len__")):
        LENS |= {"return:" + T("sub", T("sum", T("gen", T("len", Eh), Ih)), cnt)}  # sum of entry lengths minus one spelling per entry
    LENS |= {"return:" + T("sum", T("gen", T("sub", T("len", Eh), "1"), Ih)), "return:" + T("sum", T("gen", T("len", T("slice", Eh, "1", "", "")), Ih))}
    WRONG_LENS = {"return:" + t for t in (T("len", "self._headers"), T("self._headers.__len__"), T("len", "S:self._headers"), T("len", Ih), T("sum", T("gen", T("len", Eh), Ih)))}

    def p_vlen(r):
        if not r.out.startswith("return"):
            return False, True, ""
        if r.out in LENS:
            return True, True, ""
        if r.out in WRONG_LENS:
            return True, False, "the item view's length is the number of value lines (not of names, and not counting the stored spellings)"
        # a counting idiom the rule does not recognise: accepted when it is computed from this view's header dict alone
        quiet_ev = all(e[0] == "call" and isinstance(e[1], str) and e[1].startswith("self._headers.") and len(e) == 2 for e in r.ev)  # argument-less accessors of the dict
        ok = "self._headers" in r.out and quiet_ev and all(("self._headers" in a or not a.startswith(("p:", "self.", "g:"))) for a in subterms(r.out[7:]) if destruct(a)[0] is None)
        return True, ok, "the item view's length must be computed from its header dict"
    check_rows(R8, fi, rows, p_vlen, "item view length")
    fi, rows, _ = rows_of(ctx, IV, "__contains__", sf)

    pit = "p:" + fi.params()[0]

    def p_vin(r):
        if not r.out.startswith("return"):
            return False, True, ""
        shape_ok = (r.isinst(pit, "tuple") is True and r.st.ts.get(("cmp", f"len({pit})", "==", "2")) is True
                    and r.isinst(f"idx({pit},0)", "str") is True and r.isinst(f"idx({pit},1)", "str") is True)
        if shape_ok:
            return True, r.out == "return:" + T("self._headers._has_value_for_header", f"idx({pit},0)", f"idx({pit},1)") and not r.ev, "a (str, str) pair must be tested line by line against the header dict"
        return True, r.out == "return:False" and not r.ev, "anything that is not a (str, str) pair is not contained"
    check_rows(R8, fi, rows, p_vin, "item view membership", 4)
    fi, rows, _ = rows_of(ctx, IV, "__init__", sf)
    check_rows(R8, fi, rows, lambda r: (r.out.startswith("return"), r.ev == (("setattr", "_headers", "p:" + fi.params()[0]),), "the item view must keep the header dict it was built for"), "item view construction")
    fi, rows, _ = rows_of(ctx, HD, "items", sf)
    check_rows(R8, fi, rows, lambda r: (r.out.startswith("return"), r.out == "return:view(self)" and not r.ev, "items() must be the per-line item view of this dict"), "items()")
    fi, rows, _ = rows_of(ctx, HD, "_has_value_for_header", sf)
    pn, pv2 = ["p:" + x for x in fi.params()[:2]]
    k = T("lower", pn)

    def p_has(r):
        if not r.out.startswith("return"):
            return False, True, ""
        if r.isinst(pn, "str") is False:
            return True, r.out == "return:False" and not r.ev, "a name that is not a str has no value line"
        pres = r.present(k)
        if pres is False:
            return True, r.out == "return:False", "a missing name has no value line (and must not raise)"
        if pres is True:
            found = r.st.ts.get(("cmp", pv2, "in", T("slice", T("entry", k), "1", "", "")))
            return True, found is not None and r.out == f"return:{found}", "the answer must be exactly `value in the entry's values (after the spelling)`"
        return True, False, "not decided on the lower-cased name"
    rows = [r for r in rows if r.out.startswith("return") or r.out == "raise:KeyError"]
    def p_has_all(r):
        if r.out.startswith("raise"):
            return True, False, "the per-line test raises for a missing name instead of answering False"
        return p_has(r)
    check_rows(R8, fi, rows, p_has_all, "per-line membership", 2)

    # ------------------------------------------------------------------ _copy_from / copy / unions / discard / eq
    po = "p:" + m.method(HD, "_copy_from").params()[0]
    fi, rows, _ = rows_of(ctx, HD, "_copy_from", sf, hd=(po,))
    Io = T("values", f"S:{po}")
    Eo = T("each", Io)
    want_c = ("store", T("lower", T("idx", Eo, "0")), T("copy", Eo), ("in", Io))

    def p_copyfrom(r):
        if not r.ev:
            return False, True, ""
        evs = tuple(e for e in r.ev if not (e[0] == "call" and e[1].endswith(".getlist")) and e[0] != "foreign-storage-call")
        evs = tuple((e[0], e[1], norm(e[2])) + tuple(e[3:]) if e[0] == "store" and len(e) >= 3 else e for e in evs)
        return True, evs == (want_c,), "per name of the source a fresh [name, *values] must be stored under the lower-cased name"
    check_rows(R9, fi, rows, p_copyfrom, "_copy_from builds fresh per-name lists")
    no_opaque(R9, fi, rows)

    fi, rows, _ = rows_of(ctx, HD, "copy", sf)

    def p_copy(r):
        if not r.out.startswith("return"):
            return False, True, ""
        ok = r.out == "return:new()" and r.ev == (("new",), ("call", "new()._copy_from", "self"))
        return True, ok, "copy() must be a new instance filled from self"
    check_rows(R9, fi, rows, p_copy, "copy")

    for name, want_ev, want_out in (
        ("__ior__", (("call", "self.extend", "mc(p:other)"),), "return:self"),
        ("__or__", (("new",), ("call", "new()._copy_from", "self"), ("call", "new().extend", "mc(p:other)")), "return:new()"),
        ("__ror__", (("new", "mc(p:other)"), ("call", "new(mc(p:other)).extend", "self")), "return:new(mc(p:other))"),
    ):
        fi, rows, _ = rows_of(ctx, HD, name, sf)

        def p_union(r, want_ev=want_ev, want_out=want_out):
            if not r.out.startswith("return"):
                return False, True, ""
            none = r.st.facts.get("mc(p:other)", (None, None))[1]
            if none is True:
                return True, r.out == "return:NotImplemented" and not r.ev, "an operand that cannot be read as headers must give NotImplemented without side effects"
            return True, r.ev == want_ev and r.out == want_out, f"expected events {want_ev} and result {want_out[7:]}"
        check_rows(R9, fi, rows, p_union, f"{name}", 2)

    fi, rows, _ = rows_of(ctx, HD, "discard", sf)
    pk = "p:" + fi.params()[0]

    def p_discard(r):
        if r.out.startswith("raise"):
            return True, False, "discard() must not raise for a missing name"
        return True, r.ev in ((("call", "self.__delitem__", pk),), ()) or r.ev == (("del", T("lower", pk)),), "discard() must remove the entry of the name and nothing else"
    check_rows(R9, fi, rows, p_discard, "discard", 1)

    # ------------------------------------------------------------------ constructor / setdefault / method change
    fi, rows, _ = rows_of(ctx, HD, "__init__", sf)
    ph = "p:" + fi.params()[0]

    def p_init(r):
        if not r.out.startswith("return"):
            return False, True, ""
        evs = [e for e in r.ev if not (e[0] == "call" and e[1].startswith("super."))]
        is_hd = r.isinst(ph, "HTTPHeaderDict")
        none = r.st.facts.get(ph, (None, None))[1]
        if is_hd is True:
            none = False  # an instance of the class is not None
        want = []
        if none is False:
            want.append(("call", "self._copy_from", ph) if is_hd is True else ("call", "self.extend", ph))
        kw = [e for e in evs if e in (("call", "self.extend", "p:**kwargs"), ("call", "self.extend", "**=p:**kwargs"))]  # extend(kwargs) and extend(**kwargs) add the same pairs
        rest = [e for e in evs if e not in kw]
        kw_truth = r.truth("p:**kwargs")
        kw_ok = len(kw) <= 1 and (not kw or evs[-1] == kw[0]) and (bool(kw) or kw_truth is False)
        alt = [("call", "self.extend", ph)] if none is False else []  # extending from a header dict line by line is equivalent to copying it
        return True, rest in (want, alt) and kw_ok, f"the constructor must copy a header dict per name, extend from any other source, then add the keywords (expected {want} then keywords)"
    check_rows(R9, fi, rows, p_init, "constructor", 3)
    init_store = [n for n in astq.walk_fn(fi.node) if isinstance(n, ast.Assign) and astq.is_self_attr(n.targets[0], sf)]
    first_use = min([n.lineno for n in astq.walk_fn(fi.node) if isinstance(n, ast.Call) and astq.call_text(n) in ("self.extend", "self._copy_from")] or [10 ** 9])
    ctx.ob(R9, fi.qual, "the storage starts as an empty insertion-ordered dict, created before anything is inserted",
           len(init_store) == 1 and isinstance(init_store[0].value, ast.Dict) and not init_store[0].value.keys and init_store[0].lineno < first_use, node=fi.node)

    fi, rows, _ = rows_of(ctx, HD, "setdefault", sf)
    ps = ["p:" + x for x in fi.params()[:2]]
    def p_setdefault(r):
        if not r.out.startswith("return"):
            return False, True, ""
        if r.out == "return:" + T("super.setdefault", *ps):
            return True, True, ""
        # the mix-in's body written out: the present value, or assign the default and return it
        looked = r.out == "return:" + T("self.__getitem__", ps[0]) and not r.ev
        assigned = r.out == "return:" + ps[1] and r.ev == (("call", "self.__setitem__", ps[0], ps[1]),)
        return True, looked or assigned, "setdefault must be the mapping mix-in's (lookup, else assign) on the same key and default"
    check_rows(R9, fi, rows, p_setdefault, "setdefault")
    for inherited in ("pop", "popitem", "update", "clear", "get"):
        own = inherited in m.cls(HD).methods
        ctx.ob(R9, HD, f"`{inherited}` is the MutableMapping mix-in (built on the item access rules above)", not own,
               "" if not own else f"HTTPHeaderDict overrides {inherited}: its effect table is not part of this rule set")

    fi, rows, _ = rows_of(ctx, HD, "_prepare_for_method_change", sf)

    def p_pmc(r):
        if r.out.startswith("raise"):
            return True, False, "removing the content headers must not fail when one of them is absent"
        if not r.out.startswith("return") or not r.ev:
            return False, True, ""
        TABLE = ("each(list(", "each(tuple(", "each((")

        def removal(e):
            """one content header taken out of this dict: discard(h), `del self[h]` (the path knows h is present), pop(h, default)"""
            if e[0] == "call" and e[1] in ("self.discard", "self.__delitem__", "self.pop") and isinstance(e[2], str) and e[2].startswith(TABLE):
                return True
            return e[0] == "del" and isinstance(e[1], str) and e[1].startswith("lower(") and e[1][6:].startswith(TABLE)
        ok = r.out == "return:self" and all(removal(e) for e in r.ev)
        return True, ok, "the content headers must be discarded one by one from this dict, which is returned"
    check_rows(R9, fi, rows, p_pmc, "_prepare_for_method_change")
