"""C17 - the pool cache is bounded, consistent, and never leaks an evicted pool."""
from __future__ import annotations

import ast

from .. import astq
from ..events import outcome_name, run_function
from ..interp import AV, BASE_TOP, EXT_TOP, UNK, BaseRule, Out, const, exc, BaseRule as _BR
from ..model import AnalysisError

COL = "urllib3._collections"
RUC = f"{COL}.RecentlyUsedContainer"
PM = "urllib3.poolmanager"


def _discover(m):
    """container field (assigned an OrderedDict), lock field (assigned an RLock/Lock) in __init__."""
    init = m.method(RUC, "__init__")
    cont = lock = None
    for n in astq.walk_fn(init.node):
        if isinstance(n, ast.Assign) and isinstance(n.value, ast.Call) and astq.is_self_attr(n.targets[0]):
            t = astq.call_text(n.value)
            if t.endswith("OrderedDict") or t == "dict":
                cont = n.targets[0].attr
            if t.endswith("RLock") or t.endswith("Lock"):
                lock = (n.targets[0].attr, t)
    if not cont or not lock:
        raise AnalysisError("RecentlyUsedContainer: container / lock field not found in __init__")
    return cont, lock


class LruRule(BaseRule):
    def __init__(self, cont, lock):
        self.cont, self.lock = cont, lock
        self.viol = []
        self.seen = {"remove": 0, "insert": 0, "dispose": 0, "lock": 0}
        self.accesses = 0

    wants_subscript = True
    max_while = 2

    def loop_enter(self, it, stmt, st):
        """a `while` loop that removes / disposes one value per round accumulates bookkeeping: explored for a bounded number of rounds"""
        k = ("while", it.frame, stmt.lineno)
        n = st.ts.get(k, 0)
        if n > self.max_while:
            return False
        st.ts[k] = n + 1
        return True

    def compare(self, it, st, node, a, b):
        """identity tests against a module-level sentinel (`pop(key, _ABSENT)` ... `if previous is not _ABSENT`): a value taken out
        of the mapping is never the sentinel, the sentinel is itself"""
        if len(node.ops) != 1 or not isinstance(node.ops[0], (ast.Is, ast.IsNot)):
            return None
        ga = sorted(t for t in a.tags if t.startswith("global:"))
        gb = sorted(t for t in b.tags if t.startswith("global:"))
        if ga and gb and ga == gb and a.kind == b.kind == "unk":
            same = True
        elif (a.kind == "obj" and gb and b.kind == "unk") or (b.kind == "obj" and ga and a.kind == "unk"):
            same = False
        else:
            return None
        return same if isinstance(node.ops[0], ast.Is) else not same

    wants_compose = True

    def compose(self, it, st, node, acc):
        """[*values] / (*values,) / {*values}: a snapshot of the values is still `the values`"""
        if isinstance(node, (ast.List, ast.Tuple, ast.Set)) and len(acc) == 1 and isinstance(acc[0][0], ast.Starred) and acc[0][1].kind == "obj" and acc[0][1].val == "all-values":
            return acc[0][1]
        return None

    def _is_cont(self, node):
        return astq.is_self_attr(node, self.cont)

    def getattr(self, it, st, node, base):
        if base.kind == "self" and node.attr == self.cont and isinstance(node.ctx, ast.Load):
            # the mapping, by identity (a local alias keeps it); its truthiness is a fact until the next mutation
            return AV("unk", sym="cont", none=False)
        return None

    def _mutated(self, st):
        st.facts.pop("cont", None)

    def subscript(self, it, st, node, base, parts, is_slice):
        if base.sym == "cont" and not is_slice and isinstance(node.ctx, ast.Load):
            self._note_access(st, node)
            s = st.copy()
            s.ts["lookups"] = s.ts.get("lookups", ()) + ((s.ts.get("regions", 0), "old"),)
            s.log(node, "LOOKUP old value (subscript)")
            s2 = st.copy()
            s2.ts["absent"] = True
            s2.log(node, "subscript -> KeyError (absent key)")
            return [Out("normal", s, AV("obj", "old", truth=None, none=None)), Out("raise", s2, exc("builtins.KeyError"))]
        return None

    def _note_access(self, st, node):
        self.accesses += 1
        if not st.ts.get("lock"):
            self.viol.append(("C17-R1", f"`{ast.unparse(node)[:60]}` touches the mapping outside the lock", st, node))

    def with_stmt(self, it, stmt, st):
        if any(astq.is_self_attr(i.context_expr, self.lock) for i in stmt.items):
            self.seen["lock"] += 1
            s = st.copy()
            s.ts["lock"] = s.ts.get("lock", 0) + 1
            s.ts["regions"] = s.ts.get("regions", 0) + 1
            s.log(stmt, "LOCK acquired")
            outs = it.exec_block(stmt.body, [s])
            for o in outs:
                o.st.ts["lock"] = o.st.ts.get("lock", 1) - 1
                o.st.log(stmt, "LOCK released")
            return outs
        return super().with_stmt(it, stmt, st)

    def _is_cont_value(self, it, st, node):
        """the mapping itself or a local alias of it (by value)"""
        if self._is_cont(node):
            return True
        if isinstance(node, ast.Name):
            v = st.env.get(it.var(node.id))
            return v is not None and v.sym == "cont"
        return False

    def comprehension(self, it, st, node):
        # [v for v in <the values>] is the values; {k for k in <mapping>} / list(...) of it are snapshots taken under the lock
        if isinstance(node, (ast.ListComp, ast.GeneratorExp, ast.SetComp)) and len(node.generators) == 1 and not node.generators[0].ifs:
            g = node.generators[0]
            vals, raises = it.eval(st, g.iter)
            out = []
            for s, itv in vals:
                if itv.kind == "obj" and itv.val == "all-values" and isinstance(g.target, ast.Name) and isinstance(node.elt, ast.Name) and node.elt.id == g.target.id:
                    out.append((s, itv))
                elif itv.sym == "cont":
                    self._note_access(s, node)
                    out.append((s, AV("unk", none=False)))
                else:
                    out.append((s, AV("unk", none=False)))
            return out, raises
        return None

    def setitem(self, it, st, target, av):
        if self._is_cont_value(it, st, target.value):
            self._mutated(st)
            self.seen["insert"] += 1
            self._note_access(st, target)
            st.ts["ins"] = st.ts.get("ins", ()) + ((st.ts.get("regions", 0), av.val if av.kind == "obj" else (av.sym or "?")),)
            st.log(target, f"INSERT {av.val if av.kind == 'obj' else av.sym}")

    def delete(self, it, st, stmt):
        for t in stmt.targets:
            if isinstance(t, ast.Subscript) and self._is_cont_value(it, st, t.value):
                self._note_access(st, t)
                self._mutated(st)
                self.seen["remove"] += 1
                st.ts["removed"] = st.ts.get("removed", ()) + ("deleted",)
        return None

    def for_iter(self, it, st, stmt, itv):
        if itv.kind == "tuple":
            # a literal tuple of values (e.g. `(evicted,)` handed to a disposing helper): one iteration per element
            k = ("titer", it.frame, stmt.lineno)
            i = st.ts.get(k, 0)
            if i >= len(itv.val):
                e = st.copy()
                e.ts.pop(k, None)
                return [(e, False)]
            s = st.copy()
            s.ts[k] = i + 1
            it.assign(s, stmt.target, itv.val[i])
            return [(s, True)]
        if itv.kind == "obj" and itv.val == "all-values":
            # head of an iteration over the removed values: the previous iteration must have disposed its value
            if st.ts.get("iter_open") and not st.ts.get("iter_disp") and st.facts.get("dispose_func", (None, None))[0] is not False:
                self.viol.append(("C17-R3", "an iteration over the cleared values ends without disposing its value", st, stmt))
            s = st.copy()
            s.ts["iter_open"] = True
            s.ts["iter_disp"] = False
            s.ts["looped_all"] = True
            it.assign(s, stmt.target, AV("obj", "all-values", truth=True, none=False))
            e = st.copy()
            e.ts["looped_all"] = True
            e.ts["iter_open"] = False
            return [(s, True), (e, False)]
        return None

    def loop_break(self, it, stmt, st):
        if st.ts.get("iter_open"):
            self.viol.append(("C17-R3", "the loop over the cleared values can stop early: remaining values are never disposed", st, stmt))

    def call(self, it, st, node, recv, pos, kw):
        f = node.func
        t = ast.unparse(f)
        if isinstance(f, ast.Attribute) and f.attr == "append" and recv is not None and recv.kind in ("list", "unk", "obj", "tuple") and pos and pos[0].kind == "obj" and pos[0].val in ("lru", "old") \
                and isinstance(f.value, ast.Name):
            # a removed value is kept in a local list for later disposal: the list stands for "the removed values"
            s = st.copy()
            lab = pos[0].val
            rem = tuple(x for x in s.ts.get("removed", ()) if x != lab)
            s.ts["removed"] = rem if "all-values" in rem else rem + ("all-values",)
            s.env[it.var(f.value.id)] = AV("obj", "all-values", truth=True, none=False)  # (holds at least this value)
            s.log(node, f"KEEP removed value `{lab}` in {f.value.id} for disposal")
            return [Out("normal", s, const(None))]
        if isinstance(f, ast.Attribute) and (self._is_cont(f.value) or (recv is not None and recv.sym == "cont")):
            self._note_access(st, node)
            if f.attr in ("pop", "popitem", "clear", "update", "setdefault", "__delitem__", "__setitem__"):
                st = st.copy()
                self._mutated(st)
            if f.attr == "move_to_end":
                s = st.copy()
                last = kw.get("last") or (pos[1] if len(pos) > 1 else None)
                s.ts["moved"] = s.ts.get("moved", ()) + ((s.ts.get("regions", 0), last.val if (last is not None and last.kind == "const") else (True if last is None else "?")),)
                s.log(node, "MOVE key to the most-recently-used end")
                return [Out("normal", s, const(None))]
            if f.attr == "pop":
                self.seen["remove"] += 1
                s = st.copy()
                s.ts["removed"] = s.ts.get("removed", ()) + ("old",)
                s.ts["pops"] = s.ts.get("pops", ()) + ((s.ts.get("regions", 0), "old"),)
                s.log(node, "REMOVE old value (pop)")
                s2 = st.copy()
                s2.ts["absent"] = True
                s2.log(node, "pop -> KeyError (new key)")
                outs = [Out("normal", s, AV("obj", "old", truth=None, none=None)), Out("raise", s2, exc("builtins.KeyError"))]
                if len(pos) > 1 or "default" in kw:
                    outs[1] = Out("normal", s2, pos[1] if len(pos) > 1 else kw["default"])
                return outs
            if f.attr == "popitem":
                self.seen["remove"] += 1
                s = st.copy()
                last = kw.get("last")
                s.ts["evict_last"] = last.val if (last is not None and last.kind == "const") else (True if last is None else "?")
                s.ts["removed"] = s.ts.get("removed", ()) + ("lru",)
                s.log(node, f"REMOVE by popitem(last={s.ts['evict_last']})")
                return [Out("normal", s, AV("tuple", (UNK, AV("obj", "lru", truth=None, none=None)), truth=True, none=False))]
            if f.attr == "values":
                return [Out("normal", st, AV("obj", "all-values", truth=None, none=False, sym="all-values"))]
            if f.attr == "clear":
                self.seen["remove"] += 1
                s = st.copy()
                s.ts["emptied"] = True
                s.ts["removed"] = s.ts.get("removed", ()) + ("all-values",)
                s.log(node, "REMOVE all (clear)")
                return [Out("normal", s, const(None))]
            if f.attr in ("keys", "get", "items", "__contains__", "move_to_end"):
                return [Out("normal", st, UNK)]
            return [Out("normal", st, UNK)]
        if t in ("list", "set", "tuple") and pos:
            return [Out("normal", st, pos[0])]
        if t == "len":
            if node.args and (self._is_cont(node.args[0]) or (pos and pos[0].sym == "cont")):
                self._note_access(st, node)
                s = st.copy()
                s.ts["sizetest"] = True
                return [Out("normal", s, AV("unk", sym="size"))]
            return [Out("normal", st, UNK)]
        alias_cb = isinstance(f, ast.Name) and st.env.get(it.var(f.id)) is not None and st.env[it.var(f.id)].sym == "dispose_func"
        if t == "self.dispose_func" or alias_cb:
            self.seen["dispose"] += 1
            s = st.copy()
            a = pos[0] if pos else UNK
            label = a.val if a.kind == "obj" else "?"
            if label == "?":
                # a value the typestate cannot identify (the algorithm keeps its candidates in a way the rule does not follow):
                # the path is marked; only the lockset and callback-outside-the-lock clauses are decided on it (DESIGN 13.2)
                s.ts["opaque"] = True
                if st.ts.get("lock"):
                    self.viol.append(("C17-R2", "dispose callback invoked while the lock is held", st, node))
                s.log(node, "DISPOSE <unidentified value>")
                return [Out("normal", s, const(None)), Out("raise", s.copy(), EXT_TOP)]
            if label == "all-values":
                if st.ts.get("iter_disp"):
                    self.viol.append(("C17-R3", "a cleared value is disposed twice in one iteration", st, node))
                s.ts["iter_disp"] = True
                if "all-values" not in s.ts.get("disposed", ()):
                    s.ts["disposed"] = s.ts.get("disposed", ()) + (label,)
            else:
                s.ts["disposed"] = s.ts.get("disposed", ()) + (label,)
            if st.ts.get("lock"):
                self.viol.append(("C17-R2", f"dispose callback invoked on {label} while the lock is held", st, node))
            s.log(node, f"DISPOSE {label}")
            return [Out("normal", s, const(None)), Out("raise", s.copy(), EXT_TOP)]
        return None

def run(ctx):
    m = ctx.model
    ctx.assume("A1", "A4", "A5")
    ctx.decline("linearizability as such follows from the single-lock discipline (stated, not checked); eventual reclamation by the garbage collector")
    cont, (lock, lock_ctor) = _discover(m)
    cls = m.cls(RUC)

    R1 = ctx.rule("C17-R1", "lockset: every access to the LRU mapping happens inside a region of the instance lock", "E8 + E4")
    R2 = ctx.rule("C17-R2", "the dispose callback is never invoked while the lock is held", "E4")
    R3 = ctx.rule("C17-R3", "removed => disposed exactly once: every value taken out of the mapping (replaced, evicted, deleted, cleared) reaches exactly one dispose_func call when a callback is set, and none otherwise", "E4")
    R4 = ctx.rule("C17-R4", "bound: inserting a new key always evaluates the size test and evicts from the least-recently-used end, inside the same lock region", "E4")
    R5 = ctx.rule("C17-R5", "recency: a lookup removes and re-inserts the key inside one lock region", "E4")
    R6 = ctx.rule("C17-R6", "get-or-create of a pool is atomic: lookup, creation and insertion happen inside one region of the container's lock", "E8")
    R7 = ctx.rule("C17-R7", "a cached or evicted pool is never closed eagerly: the manager installs no dispose callback and nothing in poolmanager calls close() on a pool (reclamation is the pool's own finalizer)", "E8 who-may-call")
    R8 = ctx.rule("C17-R8", "the container's capacity is num_pools", "E6")

    # ---------------- R1 (lockset by interpretation: every public method, private helpers inlined at their call sites)
    def _r1_all():
        from ..rows import helper_closure
        n_acc = 0
        for name, fi in sorted(cls.methods.items()):
            if name == "__init__" or (name.startswith("_") and not name.startswith("__")):
                continue
            rule = LruRule(cont, lock)
            try:
                outs, it = run_function(m, fi, rule, RUC, inline=set(helper_closure(m, [fi])) - {fi.qual},
                                        seeds={("self", "dispose_func"): AV("unk", sym="dispose_func"), ("self", "_maxsize"): AV("unk", sym="maxsize")})
            except AnalysisError:
                raise
            ctx.states += it.budget.steps
            n_acc += rule.accesses
            bad = [v for v in rule.viol if v[0] == "C17-R1"]
            for r_, text, st_, node_ in bad[:3]:
                ctx.ob(R1, fi.qual, text, False, "the mapping is read/written without holding the lock: a racing thread sees a torn update", witness=st_.witness(), node=node_)
            if not bad and rule.accesses:
                ctx.ob(R1, fi.qual, f"{rule.accesses} access(es) to the mapping, all inside a region of the instance lock", True)
        return n_acc

    n = _r1_all()
    ctx.sites(R1, n, 8, "mapping accesses on interpreted paths")
    ok = lock_ctor.endswith("RLock")
    ctx.ob(R1, f"{RUC}.__init__", f"lock is re-entrant ({lock_ctor})", ok, "" if ok else "PoolManager holds this lock while calling back into the container: a plain Lock deadlocks")

    # ---------------- R2-R5 by interpretation
    seeds = {("self", "dispose_func"): AV("unk", sym="dispose_func"), ("self", "_maxsize"): AV("unk", sym="maxsize")}

    def interp(name, params=None):
        fi = m.method(RUC, name)
        rule = LruRule(cont, lock)
        from ..rows import helper_closure
        outs, it = run_function(m, fi, rule, RUC, inline=set(helper_closure(m, [fi])) - {fi.qual}, seeds=dict(seeds), params=params or {})
        ctx.states += it.budget.steps
        for r, text, st, node in rule.viol:
            ctx.ob(r, fi.qual, text, False, "", witness=st.witness(), node=node)
        return fi, rule, outs

    total_removes = 0
    opaque_methods = set()
    for name in ("__setitem__", "__delitem__", "clear"):
        fi, rule, outs = interp(name, {"value": AV("obj", "new", truth=True, none=False)} if name == "__setitem__" else None)
        total_removes += rule.seen["remove"]
        nn = 0
        for o in outs:
            if o.kind == "raise" and o.val.val in (EXT_TOP.val, BASE_TOP.val):
                continue  # the callback itself failed
            if o.st.ts.get("opaque"):
                opaque_methods.add(name)
                continue
            removed = o.st.ts.get("removed", ())
            disposed = o.st.ts.get("disposed", ())
            reins = [lab for _, lab in o.st.ts.get("ins", ())]
            cb = o.st.facts.get("dispose_func", (None, None))[0]
            if o.kind == "raise":
                # KeyError from deleting an absent key etc.: nothing removed, nothing to dispose
                ok = not removed or set(removed) <= set(disposed)
                ctx.ob(R3, fi.qual, f"exit {outcome_name(o)} removed={removed} disposed={disposed}", ok, witness=o.st.witness(), node=fi.node)
                continue
            nn += 1
            for lab in set(removed):
                if lab in reins:
                    continue
                if lab == "all-values" and o.st.facts.get("all-values", (None, None))[0] is False:
                    continue  # the snapshot of the values was tested and found empty: nothing was removed on this path
                # a removed value that is falsy-by-fact (None placeholder) cannot occur: values are pools
                want = 1 if cb is True else (0 if cb is False else None)
                got = disposed.count(lab)
                if lab == "all-values" and cb is True:
                    # per-iteration discipline is checked at the loop head; here: the loop over the removed values exists
                    got = 1 if o.st.ts.get("looped_all") else 0
                if want is None:
                    ok = got == 0  # callback never consulted although something was removed
                    ok = False
                    why = "a value is removed but the dispose callback is not even consulted on this path"
                else:
                    ok = got == want
                    why = f"removed value `{lab}` disposed {got}x with callback {'set' if cb else 'unset'}"
                ctx.ob(R3, fi.qual, f"normal exit: removed `{lab}` -> disposed {got}x (callback set={cb})", ok, "" if ok else why, witness=o.st.witness(), node=fi.node)
            for lab in set(disposed):
                if lab not in removed:
                    ctx.ob(R3, fi.qual, f"disposed `{lab}` that was not removed", False, "a value still cached is handed to the dispose callback", witness=o.st.witness(), node=fi.node)
            if name == "__setitem__":
                absent = o.st.ts.get("absent")
                inserted_new = "new" in reins
                ctx.ob(R4, fi.qual, f"normal exit (key {'absent' if absent else 'present'}): value inserted", inserted_new,
                       "" if inserted_new else "the new value is not stored on this path", witness=o.st.witness(), node=fi.node)
                if absent:
                    sized = bool(o.st.ts.get("sizetest"))
                    over = o.st.ts.get(("cmp", "size", ">", "maxsize")) if False else None
                    ctx.ob(R4, fi.qual, "new key: size test evaluated", sized, "" if sized else "a new key is inserted without checking the bound", witness=o.st.witness(), node=fi.node)
                    if "lru" in removed:
                        ok = o.st.ts.get("evict_last") is False
                        ctx.ob(R4, fi.qual, "eviction takes the least recently used end (popitem(last=False))", ok,
                               "" if ok else f"popitem(last={o.st.ts.get('evict_last')}) evicts the most recently used entry", witness=o.st.witness(), node=fi.node)
                    ctx.ob(R4, fi.qual, "insertion, size test and eviction in one lock region", o.st.ts.get("regions", 0) == 1,
                           f"{o.st.ts.get('regions', 0)} lock regions on this path", witness=o.st.witness(), node=fi.node)
            if name == "clear":
                emptied = bool(o.st.ts.get("emptied")) or o.st.facts.get("cont", (None, None))[0] is False
                ctx.ob(R3, fi.qual, "the mapping is empty when clear() returns", emptied,
                       "" if emptied else "clear() can return with entries left in the cache", witness=o.st.witness(), node=fi.node)
        if name in opaque_methods:
            ctx.ob(R3, fi.qual, f"{name}: the bookkeeping of removed values is not recognised on some paths (lockset and callback-outside-the-lock decided, exactly-once disposal not)", True)
        else:
            ctx.sites(R3, nn, 1, f"normal exits of {name}")
    ctx.sites(R3, total_removes, 3, "removal sites")
    # the bound: after inserting a new key, len(mapping) > capacity <=> the least recently used entry is evicted
    fi, rule, outs = interp("__setitem__", {"value": AV("obj", "new", truth=True, none=False)})
    n_sz = 0
    seen_sz = set()
    for o in outs:
        member = None
        for k_, v_ in o.st.ts.items():
            if isinstance(k_, tuple) and len(k_) == 4 and k_[0] == "cmp" and k_[2] == "in" and k_[3] == "cont":
                member = v_
        absent_ = bool(o.st.ts.get("absent")) or member is False
        if o.st.ts.get("opaque"):
            opaque_methods.add("__setitem__")
        if o.kind == "raise" or not absent_ or (member is True) or o.st.ts.get("opaque"):
            continue
        over = o.st.ts.get(("cmp", "size", ">", "maxsize"))
        alt = {k_: v_ for k_, v_ in o.st.ts.items() if isinstance(k_, tuple) and len(k_) == 4 and k_[0] == "cmp" and "size" in (k_[1], k_[3]) and k_ != ("cmp", "size", ">", "maxsize")}
        evicted = "lru" in o.st.ts.get("removed", ()) or "lru" in o.st.ts.get("disposed", ())
        key = (over, tuple(sorted(map(str, alt.items()))), evicted)
        if key in seen_sz:
            continue
        seen_sz.add(key)
        n_sz += 1
        if alt and over is None:
            # an equivalent spelling of the test: maxsize < size
            lt = o.st.ts.get(("cmp", "maxsize", "<", "size"))
            over = lt if lt is not None else None
        ok = over is not None and evicted == over
        ctx.ob(R4, fi.qual, f"new key: len > capacity is {over} (after insertion) -> evicted={evicted}", ok,
               "" if ok else f"the bound is compared differently ({sorted(map(str, alt))}) or eviction does not follow it: the cache may hold more than maxsize entries", witness=o.st.witness(), node=fi.node)
    if "__setitem__" in opaque_methods and n_sz < 2:
        ctx.ob(R4, fi.qual, "__setitem__: the bound is enforced in a way the rule does not recognise (eviction from the least-recently-used end and the lockset are decided where they occur)", True)
    else:
        ctx.sites(R4, n_sz, 2, "new-key paths of __setitem__ (over / within capacity)")

    # R5
    fi, rule, outs = interp("__getitem__")
    nn = 0
    for o in outs:
        if o.kind != "return":
            continue
        nn += 1
        pops = o.st.ts.get("pops", ())
        ins = o.st.ts.get("ins", ())
        looks = o.st.ts.get("lookups", ())
        moved = o.st.ts.get("moved", ())
        reinsert = len(pops) == 1 and len(ins) == 1 and pops[0][0] == ins[0][0] and ins[0][1] == "old" and not moved
        move = len(looks) == 1 and len(moved) == 1 and looks[0][0] == moved[0][0] and moved[0][1] is True and not pops and not ins
        ok = reinsert or move
        v = o.st.view(o.val)
        ok = ok and v.kind == "obj" and v.val == "old"
        ctx.ob(R5, fi.qual, f"lookup: pops={pops} reinserts={ins} lookups={looks} moved-to-end={moved} returns={v.val}", ok,
               "" if ok else "a hit does not move the entry to the most-recently-used end atomically (or returns something else)", witness=o.st.witness(), node=fi.node)
    ctx.sites(R5, nn, 1, "returning paths of __getitem__")
    ctx.ob(R5, fi.qual, "no disposal on lookup", not rule.seen["dispose"], "" if not rule.seen["dispose"] else "a lookup disposes a cached value")

    # ---------------- R6
    fi = m.func(f"{PM}.PoolManager.connection_from_pool_key")

    class KeyRule(BaseRule):
        """lookup / create / insert events of the pool cache with the lock region they happen in; values by identity"""

        def getattr(self, it, st, node, base):
            if base.kind == "self" and node.attr == "pools":
                return AV("unk", sym="pools", none=False, truth=True)
            if base.sym == "pools" and node.attr == "lock":
                return AV("unk", sym="pools.lock", none=False, truth=True)
            return None

        def with_stmt(self, it, stmt, st):
            cur, outs = [st], []
            locked = False
            for item in stmt.items:
                nxt = []
                for s in cur:
                    vals, raises = it.eval(s, item.context_expr)
                    outs += raises
                    for s2, v in vals:
                        if v.sym == "pools.lock":
                            locked = True
                        nxt.append(s2)
                cur = nxt
            if not locked:
                return super().with_stmt(it, stmt, st)
            res = list(outs)
            for s in cur:
                s = s.copy()
                s.ts["lock"] = s.ts.get("lock", 0) + 1
                s.ts["regions"] = s.ts.get("regions", 0) + 1
                s.log(stmt, "LOCK of the pool cache acquired")
                for o in it.exec_block(stmt.body, [s]):
                    o.st.ts["lock"] = o.st.ts.get("lock", 1) - 1
                    res.append(o)
            return res

        def _ev(self, st, node, what, extra=None):
            s = st.copy()
            s.ts["kev"] = s.ts.get("kev", ()) + ((what, s.ts.get("regions", 0) if s.ts.get("lock") else 0, extra),)
            s.log(node, what.upper())
            return s

        def call(self, it, st, node, recv, pos, kw):
            f = node.func
            if isinstance(f, ast.Attribute) and recv is not None and recv.sym == "pools":
                if f.attr in ("get", "__getitem__"):
                    s = self._ev(st, node, "lookup", ast.unparse(node.args[0]) if node.args else "?")
                    return [Out("normal", s, AV("unk", sym="cached"))]
                if f.attr in ("setdefault",):
                    s = self._ev(st, node, "insert", "setdefault")
                    return [Out("normal", s, AV("unk", sym="cached", truth=True, none=False))]
                return [Out("normal", st, UNK)]
            if isinstance(f, ast.Attribute) and f.attr == "_new_pool" and recv is not None and recv.kind == "self":
                s = self._ev(st, node, "create")
                return [Out("normal", s, AV("obj", "fresh", truth=True, none=False))]
            return None

        wants_subscript = True

        def subscript(self, it, st, node, base, parts, is_slice):
            if base.sym == "pools" and isinstance(node.ctx, ast.Load):
                s = self._ev(st, node, "lookup", "subscript")
                s.facts["cached"] = (True, False)
                s2 = self._ev(st, node, "lookup", "subscript")
                s2.facts["cached"] = (False, None)  # KeyError: the key is not cached
                return [Out("normal", s, AV("unk", sym="cached", truth=True, none=False)), Out("raise", s2, exc("builtins.KeyError"))]
            return None

        def setitem(self, it, st, target, av):
            bv, _ = it.eval(st, target.value)
            if bv and bv[0][1].sym == "pools":
                st.ts["kev"] = st.ts.get("kev", ()) + (("insert", st.ts.get("regions", 0) if st.ts.get("lock") else 0, av.val if av.kind == "obj" else (av.sym or "?")),)
                st.log(target, "INSERT into the pool cache")

    from ..rows import helper_closure as _hc
    krule = KeyRule()
    outs6, it6 = run_function(m, fi, krule, f"{PM}.PoolManager", inline=set(_hc(m, [fi], stop=("_new_pool",))) - {fi.qual})
    ctx.states += it6.budget.steps
    rets = [o for o in outs6 if o.kind == "return"]
    ctx.sites(R6, len(rets), 2, "returning paths of connection_from_pool_key")
    seen6 = set()
    n_hit = n_miss = 0
    for o in rets:
        kev = o.st.ts.get("kev", ())
        v = o.st.view(o.val)
        cached_t = o.st.facts.get("cached", (None, None))[0]
        key = (kev, v.sym or v.val, cached_t)
        if key in seen6:
            continue
        seen6.add(key)
        kinds = [k[0] for k in kev]
        regs = {k[1] for k in kev}
        if "create" not in kinds:
            n_hit += 1
            ok = kinds == ["lookup"] and 0 not in regs and v.sym == "cached" and cached_t is True
            ctx.ob(R6, fi.qual, f"a cache hit returns the cached pool object (events {kinds}, cached truthy={cached_t})", ok,
                   "" if ok else "a hit returns something else than the cached pool, or the lookup is made outside the container lock", witness=o.st.witness(), node=fi.node)
        else:
            n_miss += 1
            ok = kinds == ["lookup", "create", "insert"] and len(regs) == 1 and 0 not in regs and kev[2][2] == "fresh" and v.kind == "obj" and v.val == "fresh" and cached_t is False
            ctx.ob(R6, fi.qual, f"a miss looks up, creates and inserts the same fresh pool inside one region of the container lock (events {[(k[0], k[1]) for k in kev]})", ok,
                   "" if ok else "check-then-create is not atomic (two racing requests build two pools for one key), or the pool returned is not the one cached", witness=o.st.witness(), node=fi.node)
    ctx.sites(R6, n_hit, 1, "cache-hit paths")
    ctx.sites(R6, n_miss, 1, "cache-miss paths")

    # ---------------- R7
    init = m.func(f"{PM}.PoolManager.__init__")
    ctor = [c for c in astq.calls(init.node) if astq.call_text(c) == "RecentlyUsedContainer"]
    ctx.sites(R7, len(ctor), 1, "RecentlyUsedContainer construction")
    for c in ctor:
        cbv = astq.arg(c, 1, "dispose_func")
        has_cb = cbv is not None and not (isinstance(cbv, ast.Constant) and cbv.value is None)
        ctx.ob(R7, init.qual, f"`{astq.text(c)}` installs no dispose callback", not has_cb,
               "" if not has_cb else "an eviction would close a pool that in-flight responses still use", node=c)
        a0 = astq.arg(c, 0, "maxsize")
        ok = a0 is not None and astq.text(a0) == "num_pools"
        ctx.ob(R8, init.qual, f"capacity argument is num_pools", ok, astq.text(c), node=c)
    d = init.defaults().get("num_pools")
    ctx.ob(R8, init.qual, "num_pools has a positive default", isinstance(d, ast.Constant) and isinstance(d.value, int) and d.value > 0)
    n = 0
    for f in m.repo_funcs():
        if f.module != PM:
            continue
        for c in astq.calls(f.node):
            if isinstance(c.func, ast.Attribute) and c.func.attr == "close":
                n += 1
                ctx.ob(R7, f.qual, f"`{astq.text(c)}`", False, "poolmanager closes a pool eagerly: in-flight responses of a cached/evicted pool lose their connection", node=c)
    ctx.ob(R7, PM, "no close() call in poolmanager.py", n == 0)
    # clear() empties the container only
    fi = m.func(f"{PM}.PoolManager.clear")
    cs = [astq.call_text(c) for c in astq.calls(fi.node) if not astq.call_text(c).startswith(("log.", "len", "logging.", "type"))]
    ctx.ob(R7, fi.qual, "clear() only empties the container", cs == ["self.pools.clear"], str(cs))
    # pools are reclaimed by their own finalizer
    pinit = m.func("urllib3.connectionpool.HTTPConnectionPool.__init__")
    ok = any(astq.call_text(c) == "weakref.finalize" for c in astq.calls(pinit.node))
    ctx.ob(R7, pinit.qual, "a pool closes its sockets when garbage-collected (weakref.finalize)", ok, "" if ok else "an evicted pool's sockets are never closed")
