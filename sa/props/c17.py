"""C17 - the pool cache is bounded, consistent, and never leaks an evicted pool."""
from __future__ import annotations

import ast

from .. import astq
from ..events import outcome_name, run_function
from ..interp import AV, BASE_TOP, EXT_TOP, UNK, BaseRule, Out, const, exc, BaseRule as _BR
from ..model import AnalysisError

COL = "urllib3._collections"
RUC = f"{COL}.RecentlyUsedContainer"
PM = "urllib3.poolmanager"


def _discover(m):
    """container field (assigned an OrderedDict), lock field (assigned an RLock/Lock) in __init__."""
    init = m.method(RUC, "__init__")
    cont = lock = None
    for n in astq.walk_fn(init.node):
        if isinstance(n, ast.Assign) and isinstance(n.value, ast.Call) and astq.is_self_attr(n.targets[0]):
            t = astq.call_text(n.value)
            if t.endswith("OrderedDict") or t == "dict":
                cont = n.targets[0].attr
            if t.endswith("RLock") or t.endswith("Lock"):
                lock = (n.targets[0].attr, t)
    if not cont or not lock:
        raise AnalysisError("RecentlyUsedContainer: container / lock field not found in __init__")
    return cont, lock


class LruRule(BaseRule):
    def __init__(self, cont, lock):
        self.cont, self.lock = cont, lock
        self.viol = []
        self.seen = {"remove": 0, "insert": 0, "dispose": 0, "lock": 0}

    def _is_cont(self, node):
        return astq.is_self_attr(node, self.cont)

    def _note_access(self, st, node):
        if not st.ts.get("lock"):
            self.viol.append(("C17-R1", f"`{ast.unparse(node)[:60]}` touches the mapping outside the lock", st, node))

    def with_stmt(self, it, stmt, st):
        if any(astq.is_self_attr(i.context_expr, self.lock) for i in stmt.items):
            self.seen["lock"] += 1
            s = st.copy()
            s.ts["lock"] = s.ts.get("lock", 0) + 1
            s.ts["regions"] = s.ts.get("regions", 0) + 1
            s.log(stmt, "LOCK acquired")
            outs = it.exec_block(stmt.body, [s])
            for o in outs:
                o.st.ts["lock"] = o.st.ts.get("lock", 1) - 1
                o.st.log(stmt, "LOCK released")
            return outs
        return super().with_stmt(it, stmt, st)

    def setitem(self, it, st, target, av):
        if self._is_cont(target.value):
            self.seen["insert"] += 1
            self._note_access(st, target)
            st.ts["ins"] = st.ts.get("ins", ()) + ((st.ts.get("regions", 0), av.val if av.kind == "obj" else (av.sym or "?")),)
            st.log(target, f"INSERT {av.val if av.kind == 'obj' else av.sym}")

    def delete(self, it, st, stmt):
        for t in stmt.targets:
            if isinstance(t, ast.Subscript) and self._is_cont(t.value):
                self._note_access(st, t)
                self.seen["remove"] += 1
                st.ts["removed"] = st.ts.get("removed", ()) + ("deleted",)
        return None

    def for_iter(self, it, st, stmt, itv):
        if itv.kind == "obj" and itv.val == "all-values":
            # head of an iteration over the removed values: the previous iteration must have disposed its value
            if st.ts.get("iter_open") and not st.ts.get("iter_disp") and st.facts.get("dispose_func", (None, None))[0] is not False:
                self.viol.append(("C17-R3", "an iteration over the cleared values ends without disposing its value", st, stmt))
            s = st.copy()
            s.ts["iter_open"] = True
            s.ts["iter_disp"] = False
            s.ts["looped_all"] = True
            it.assign(s, stmt.target, AV("obj", "all-values", truth=True, none=False))
            e = st.copy()
            e.ts["looped_all"] = True
            e.ts["iter_open"] = False
            return [(s, True), (e, False)]
        return None

    def loop_break(self, it, stmt, st):
        if st.ts.get("iter_open"):
            self.viol.append(("C17-R3", "the loop over the cleared values can stop early: remaining values are never disposed", st, stmt))

    def call(self, it, st, node, recv, pos, kw):
        f = node.func
        t = ast.unparse(f)
        if isinstance(f, ast.Attribute) and self._is_cont(f.value):
            self._note_access(st, node)
            if f.attr == "pop":
                self.seen["remove"] += 1
                s = st.copy()
                s.ts["removed"] = s.ts.get("removed", ()) + ("old",)
                s.ts["pops"] = s.ts.get("pops", ()) + ((s.ts.get("regions", 0), "old"),)
                s.log(node, "REMOVE old value (pop)")
                s2 = st.copy()
                s2.ts["absent"] = True
                s2.log(node, "pop -> KeyError (new key)")
                outs = [Out("normal", s, AV("obj", "old", truth=None, none=None)), Out("raise", s2, exc("builtins.KeyError"))]
                if len(pos) > 1 or "default" in kw:
                    outs[1] = Out("normal", s2, pos[1] if len(pos) > 1 else kw["default"])
                return outs
            if f.attr == "popitem":
                self.seen["remove"] += 1
                s = st.copy()
                last = kw.get("last")
                s.ts["evict_last"] = last.val if (last is not None and last.kind == "const") else (True if last is None else "?")
                s.ts["removed"] = s.ts.get("removed", ()) + ("lru",)
                s.log(node, f"REMOVE by popitem(last={s.ts['evict_last']})")
                return [Out("normal", s, AV("tuple", (UNK, AV("obj", "lru", truth=None, none=None)), truth=True, none=False))]
            if f.attr == "values":
                return [Out("normal", st, AV("obj", "all-values", truth=None, none=False))]
            if f.attr == "clear":
                self.seen["remove"] += 1
                s = st.copy()
                s.ts["removed"] = s.ts.get("removed", ()) + ("all-values",)
                s.log(node, "REMOVE all (clear)")
                return [Out("normal", s, const(None))]
            if f.attr in ("keys", "get", "items", "__contains__", "move_to_end"):
                return [Out("normal", st, UNK)]
            return [Out("normal", st, UNK)]
        if t in ("list", "set", "tuple") and pos:
            return [Out("normal", st, pos[0])]
        if t == "len":
            if node.args and self._is_cont(node.args[0]):
                self._note_access(st, node)
                s = st.copy()
                s.ts["sizetest"] = True
                return [Out("normal", s, AV("unk", sym="size"))]
            return [Out("normal", st, UNK)]
        if t == "self.dispose_func":
            self.seen["dispose"] += 1
            s = st.copy()
            a = pos[0] if pos else UNK
            label = a.val if a.kind == "obj" else "?"
            if label == "all-values":
                if st.ts.get("iter_disp"):
                    self.viol.append(("C17-R3", "a cleared value is disposed twice in one iteration", st, node))
                s.ts["iter_disp"] = True
                if "all-values" not in s.ts.get("disposed", ()):
                    s.ts["disposed"] = s.ts.get("disposed", ()) + (label,)
            else:
                s.ts["disposed"] = s.ts.get("disposed", ()) + (label,)
            if st.ts.get("lock"):
                self.viol.append(("C17-R2", f"dispose callback invoked on {label} while the lock is held", st, node))
            s.log(node, f"DISPOSE {label}")
            return [Out("normal", s, const(None)), Out("raise", s.copy(), EXT_TOP)]
        return None

    def compare(self, it, st, node, a, b):
        return None


def run(ctx):
    m = ctx.model
    ctx.assume("A1", "A4", "A5")
    ctx.decline("linearizability as such follows from the single-lock discipline (stated, not checked); eventual reclamation by the garbage collector")
    cont, (lock, lock_ctor) = _discover(m)
    cls = m.cls(RUC)

    R1 = ctx.rule("C17-R1", "lockset: every access to the LRU mapping happens inside a region of the instance lock", "E8 + E4")
    R2 = ctx.rule("C17-R2", "the dispose callback is never invoked while the lock is held", "E4")
    R3 = ctx.rule("C17-R3", "removed => disposed exactly once: every value taken out of the mapping (replaced, evicted, deleted, cleared) reaches exactly one dispose_func call when a callback is set, and none otherwise", "E4")
    R4 = ctx.rule("C17-R4", "bound: inserting a new key always evaluates the size test and evicts from the least-recently-used end, inside the same lock region", "E4")
    R5 = ctx.rule("C17-R5", "recency: a lookup removes and re-inserts the key inside one lock region", "E4")
    R6 = ctx.rule("C17-R6", "get-or-create of a pool is atomic: lookup, creation and insertion happen inside one region of the container's lock", "E8")
    R7 = ctx.rule("C17-R7", "a cached or evicted pool is never closed eagerly: the manager installs no dispose callback and nothing in poolmanager calls close() on a pool (reclamation is the pool's own finalizer)", "E8 who-may-call")
    R8 = ctx.rule("C17-R8", "the container's capacity is num_pools", "E6")

    # ---------------- R1 (syntactic lockset, all methods)
    n = 0
    for name, fi in sorted(cls.methods.items()):
        if name == "__init__":
            continue
        for node in astq.walk_fn(fi.node):
            if astq.is_self_attr(node, cont):
                n += 1
                ok = astq.inside_with(node, lambda e: astq.is_self_attr(e, lock)) is not None
                ctx.ob(R1, fi.qual, f"access `{astq.text(astq.stmt_of(node))[:70]}`", ok,
                       "" if ok else "the mapping is read/written without holding the lock: a racing thread sees a torn update", node=node)
    ctx.sites(R1, n, 8, "mapping accesses")
    ok = lock_ctor.endswith("RLock")
    ctx.ob(R1, f"{RUC}.__init__", f"lock is re-entrant ({lock_ctor})", ok, "" if ok else "PoolManager holds this lock while calling back into the container: a plain Lock deadlocks")

    # ---------------- R2-R5 by interpretation
    seeds = {("self", "dispose_func"): AV("unk", sym="dispose_func"), ("self", "_maxsize"): AV("unk", sym="maxsize")}

    def interp(name, params=None):
        fi = m.method(RUC, name)
        rule = LruRule(cont, lock)
        outs, it = run_function(m, fi, rule, RUC, seeds=dict(seeds), params=params or {})
        ctx.states += it.budget.steps
        for r, text, st, node in rule.viol:
            ctx.ob(r, fi.qual, text, False, "", witness=st.witness(), node=node)
        return fi, rule, outs

    total_removes = 0
    for name in ("__setitem__", "__delitem__", "clear"):
        fi, rule, outs = interp(name, {"value": AV("obj", "new", truth=True, none=False)} if name == "__setitem__" else None)
        total_removes += rule.seen["remove"]
        nn = 0
        for o in outs:
            if o.kind == "raise" and o.val.val in (EXT_TOP.val, BASE_TOP.val):
                continue  # the callback itself failed
            removed = o.st.ts.get("removed", ())
            disposed = o.st.ts.get("disposed", ())
            reins = [lab for _, lab in o.st.ts.get("ins", ())]
            cb = o.st.facts.get("dispose_func", (None, None))[0]
            if o.kind == "raise":
                # KeyError from deleting an absent key etc.: nothing removed, nothing to dispose
                ok = not removed or set(removed) <= set(disposed)
                ctx.ob(R3, fi.qual, f"exit {outcome_name(o)} removed={removed} disposed={disposed}", ok, witness=o.st.witness(), node=fi.node)
                continue
            nn += 1
            for lab in set(removed):
                if lab in reins:
                    continue
                # a removed value that is falsy-by-fact (None placeholder) cannot occur: values are pools
                want = 1 if cb is True else (0 if cb is False else None)
                got = disposed.count(lab)
                if lab == "all-values" and cb is True:
                    # per-iteration discipline is checked at the loop head; here: the loop over the removed values exists
                    got = 1 if o.st.ts.get("looped_all") else 0
                if want is None:
                    ok = got == 0  # callback never consulted although something was removed
                    ok = False
                    why = "a value is removed but the dispose callback is not even consulted on this path"
                else:
                    ok = got == want
                    why = f"removed value `{lab}` disposed {got}x with callback {'set' if cb else 'unset'}"
                ctx.ob(R3, fi.qual, f"normal exit: removed `{lab}` -> disposed {got}x (callback set={cb})", ok, "" if ok else why, witness=o.st.witness(), node=fi.node)
            for lab in set(disposed):
                if lab not in removed:
                    ctx.ob(R3, fi.qual, f"disposed `{lab}` that was not removed", False, "a value still cached is handed to the dispose callback", witness=o.st.witness(), node=fi.node)
            if name == "__setitem__":
                absent = o.st.ts.get("absent")
                inserted_new = "new" in reins
                ctx.ob(R4, fi.qual, f"normal exit (key {'absent' if absent else 'present'}): value inserted", inserted_new,
                       "" if inserted_new else "the new value is not stored on this path", witness=o.st.witness(), node=fi.node)
                if absent:
                    sized = bool(o.st.ts.get("sizetest"))
                    over = o.st.ts.get(("cmp", "size", ">", "maxsize")) if False else None
                    ctx.ob(R4, fi.qual, "new key: size test evaluated", sized, "" if sized else "a new key is inserted without checking the bound", witness=o.st.witness(), node=fi.node)
                    if "lru" in removed:
                        ok = o.st.ts.get("evict_last") is False
                        ctx.ob(R4, fi.qual, "eviction takes the least recently used end (popitem(last=False))", ok,
                               "" if ok else f"popitem(last={o.st.ts.get('evict_last')}) evicts the most recently used entry", witness=o.st.witness(), node=fi.node)
                    ctx.ob(R4, fi.qual, "insertion, size test and eviction in one lock region", o.st.ts.get("regions", 0) == 1,
                           f"{o.st.ts.get('regions', 0)} lock regions on this path", witness=o.st.witness(), node=fi.node)
        ctx.sites(R3, nn, 1, f"normal exits of {name}")
    ctx.sites(R3, total_removes, 4, "removal sites")
    # the over-capacity branch must exist and compare against the capacity with `>`
    fi = m.method(RUC, "__setitem__")
    tests = [n for n in astq.walk_fn(fi.node) if isinstance(n, ast.If) and f"len(self.{cont})" in astq.text(n.test)]
    ctx.sites(R4, len(tests), 1, "size tests in __setitem__")
    for tnode in tests:
        c = tnode.test
        ok = isinstance(c, ast.Compare) and len(c.ops) == 1 and isinstance(c.ops[0], ast.Gt) and astq.text(c.comparators[0]) == "self._maxsize" \
            and astq.text(c.left) == f"len(self.{cont})"
        ctx.ob(R4, fi.qual, f"size test `{astq.text(c)}` is len > capacity (after insertion)", ok,
               "" if ok else "the bound is compared differently: the cache may hold more than maxsize entries", node=tnode)
        ev = [x for x in astq.calls(ast.Module(body=tnode.body, type_ignores=[])) if isinstance(x.func, ast.Attribute) and x.func.attr == "popitem"]
        ctx.ob(R4, fi.qual, "over-capacity branch evicts", bool(ev), node=tnode)

    # R5
    fi, rule, outs = interp("__getitem__")
    nn = 0
    for o in outs:
        if o.kind != "return":
            continue
        nn += 1
        pops = o.st.ts.get("pops", ())
        ins = o.st.ts.get("ins", ())
        ok = len(pops) == 1 and len(ins) == 1 and pops[0][0] == ins[0][0] and ins[0][1] == "old"
        v = o.st.view(o.val)
        ok = ok and v.kind == "obj" and v.val == "old"
        ctx.ob(R5, fi.qual, f"lookup: pops={pops} reinserts={ins} returns={v.val}", ok,
               "" if ok else "a hit does not move the entry to the most-recently-used end atomically (or returns something else)", witness=o.st.witness(), node=fi.node)
    ctx.sites(R5, nn, 1, "returning paths of __getitem__")
    ctx.ob(R5, fi.qual, "no disposal on lookup", not rule.seen["dispose"], "" if not rule.seen["dispose"] else "a lookup disposes a cached value")

    # ---------------- R6
    fi = m.func(f"{PM}.PoolManager.connection_from_pool_key")
    regions = astq.with_regions(fi.node, lambda e: astq.text(e) == "self.pools.lock")
    ctx.sites(R6, len(regions), 1, "regions of self.pools.lock in connection_from_pool_key")
    lookups = [c for c in astq.calls(fi.node) if astq.call_text(c) in ("self.pools.get", "self.pools.__getitem__")]
    creates = [c for c in astq.calls(fi.node) if astq.call_text(c) == "self._new_pool"]
    inserts = [n for n in astq.walk_fn(fi.node) if isinstance(n, ast.Subscript) and isinstance(n.ctx, ast.Store) and astq.text(n.value) == "self.pools"]
    lookups += [n for n in astq.walk_fn(fi.node) if isinstance(n, ast.Subscript) and isinstance(n.ctx, ast.Load) and astq.text(n.value) == "self.pools"]
    ctx.sites(R6, min(len(lookups), len(creates), len(inserts)), 1, "lookup/create/insert sites")
    for what, nodes in (("lookup", lookups), ("creation", creates), ("insertion", inserts)):
        for node in nodes:
            w = astq.inside_with(node, lambda e: astq.text(e) == "self.pools.lock")
            ok = w is not None
            ctx.ob(R6, fi.qual, f"{what} `{astq.text(astq.stmt_of(node))[:60]}` under the container lock", ok,
                   "" if ok else "check-then-create is not atomic: two racing requests build two pools for one key", node=node)
    ws = {id(astq.inside_with(n, lambda e: astq.text(e) == "self.pools.lock")) for n in lookups + creates + inserts}
    ctx.ob(R6, fi.qual, "lookup, creation and insertion share one region", len(ws) == 1 and None.__class__ is not None and id(None) not in ws, f"{len(ws)} distinct regions")
    # the lookup result decides: a hit returns the cached pool itself
    hit_ok = False
    for node in astq.walk_fn(fi.node):
        if isinstance(node, ast.If) and isinstance(node.test, ast.Name):
            srcs = astq.assigned_values(fi.node, node.test.id)
            if any(isinstance(s, ast.Call) and astq.call_text(s) == "self.pools.get" for s in srcs):
                hit_ok = any(isinstance(s, ast.Return) and astq.text(s.value) == node.test.id for s in node.body)
    ctx.ob(R6, fi.qual, "a cache hit returns the cached pool object", hit_ok)

    # ---------------- R7
    init = m.func(f"{PM}.PoolManager.__init__")
    ctor = [c for c in astq.calls(init.node) if astq.call_text(c) == "RecentlyUsedContainer"]
    ctx.sites(R7, len(ctor), 1, "RecentlyUsedContainer construction")
    for c in ctor:
        has_cb = len(c.args) > 1 or any(k.arg == "dispose_func" for k in c.keywords)
        ctx.ob(R7, init.qual, f"`{astq.text(c)}` installs no dispose callback", not has_cb,
               "" if not has_cb else "an eviction would close a pool that in-flight responses still use", node=c)
        a0 = astq.arg(c, 0, "maxsize")
        ok = a0 is not None and astq.text(a0) == "num_pools"
        ctx.ob(R8, init.qual, f"capacity argument is num_pools", ok, astq.text(c), node=c)
    d = init.defaults().get("num_pools")
    ctx.ob(R8, init.qual, "num_pools has a positive default", isinstance(d, ast.Constant) and isinstance(d.value, int) and d.value > 0)
    n = 0
    for f in m.repo_funcs():
        if f.module != PM:
            continue
        for c in astq.calls(f.node):
            if isinstance(c.func, ast.Attribute) and c.func.attr == "close":
                n += 1
                ctx.ob(R7, f.qual, f"`{astq.text(c)}`", False, "poolmanager closes a pool eagerly: in-flight responses of a cached/evicted pool lose their connection", node=c)
    ctx.ob(R7, PM, "no close() call in poolmanager.py", n == 0)
    # clear() empties the container only
    fi = m.func(f"{PM}.PoolManager.clear")
    cs = [astq.call_text(c) for c in astq.calls(fi.node)]
    ctx.ob(R7, fi.qual, "clear() only empties the container", cs == ["self.pools.clear"], str(cs))
    # pools are reclaimed by their own finalizer
    pinit = m.func("urllib3.connectionpool.HTTPConnectionPool.__init__")
    ok = any(astq.call_text(c) == "weakref.finalize" for c in astq.calls(pinit.node))
    ctx.ob(R7, pinit.qual, "a pool closes its sockets when garbage-collected (weakref.finalize)", ok, "" if ok else "an evicted pool's sockets are never closed")
