"""C18 - connections are never shared across differing connection settings."""
from __future__ import annotations

import ast

from .. import astq
from ..model import AnalysisError

PM = "urllib3.poolmanager"
CP = "urllib3.connectionpool"
CN = "urllib3.connection"


def _params(fi):
    return set(fi.params()), (fi.node.args.kwarg.arg if fi.node.args.kwarg else None)


def _dict_mutations(fn_node, name):
    """Statements in fn that mutate the dict bound to local `name`:
    returns list of (kind, key_expr|None, value|None, node)."""
    out = []
    for n in astq.walk_fn(fn_node):
        if isinstance(n, ast.Subscript) and isinstance(n.value, ast.Name) and n.value.id == name and isinstance(n.ctx, (ast.Store, ast.Del)):
            st = astq.stmt_of(n)
            val = st.value if isinstance(st, ast.Assign) else None
            out.append(("store" if isinstance(n.ctx, ast.Store) else "del", n.slice, val, n))
        elif isinstance(n, ast.Call) and isinstance(n.func, ast.Attribute) and isinstance(n.func.value, ast.Name) and n.func.value.id == name:
            if n.func.attr in ("pop", "popitem", "clear", "update", "setdefault", "__setitem__", "__delitem__"):
                out.append((n.func.attr, n.args[0] if n.args else None, None, n))
    return out


def run(ctx):
    m, fold = ctx.model, ctx.fold
    ctx.assume("A4", "A5")
    ctx.decline("value-level equality semantics of individual key fields (e.g. two equal-looking SSLContext objects)")

    R1 = ctx.rule("C18-R1", "every keyword a pool/connection constructor accepts is a PoolKey field, is injected by the pool itself, or is rejected because the key is built by an unfiltered key_class(**context)", "E8 signatures + E6")
    R2 = ctx.rule("C18-R2", "the dict handed to the key function and to _new_pool is one and the same merged context; _new_pool only removes entries", "E6 def-use")
    R3 = ctx.rule("C18-R3", "the manager's default keyword dict is never mutated after construction (per-request overrides work on a copy)", "E6 alias + E8 write-set")
    R4 = ctx.rule("C18-R4", "the key normaliser lower-cases scheme and host, freezes mapping/list fields by value (items()), defaults missing fields to None, and drops nothing", "E6")
    R5 = ctx.rule("C18-R5", "no SSL keyword is accepted by the plain-HTTP pool/connection constructors (so stripping them for http loses nothing)", "E8")
    R6 = ctx.rule("C18-R6", "the pool cache is looked up and filled under the very key computed from the request context", "E6")
    R7 = ctx.rule("C18-R7", "ProxyManager puts proxy, proxy headers and proxy config into the keyed context before the base constructor stores it", "E6")

    # ---------------------------------------------------------------- R1
    pool_init = m.func(f"{CP}.HTTPConnectionPool.__init__")
    spool_init = m.func(f"{CP}.HTTPSConnectionPool.__init__")
    conn_init = m.func(f"{CN}.HTTPConnection.__init__")
    sconn_init = m.func(f"{CN}.HTTPSConnection.__init__")
    pool_p, pool_kw = _params(pool_init)
    spool_p, spool_kw = _params(spool_init)
    conn_p, _ = _params(conn_init)
    sconn_p, _ = _params(sconn_init)
    if not pool_kw or not spool_kw:
        raise AnalysisError("pool constructors no longer take **conn_kw; C18-R1 needs re-anchoring")
    pk = m.cls(f"{PM}.PoolKey")
    fields = [n.target.id for n in pk.node.body if isinstance(n, ast.AnnAssign) and isinstance(n.target, ast.Name)]
    if not fields or not all(f.startswith("key_") for f in fields):
        raise AnalysisError("PoolKey fields not recognised")
    K = {f[4:] for f in fields}
    ctx.sites(R1, len(fields), 10, "PoolKey fields")

    # keys injected by the pool into conn_kw (not caller-settable through the manager)
    injected = set()
    for n in astq.walk_fn(pool_init.node):
        if isinstance(n, ast.Subscript) and isinstance(n.ctx, ast.Store) and astq.is_self_attr(n.value) and n.value.attr == pool_kw and isinstance(n.slice, ast.Constant):
            injected.add(n.slice.value)
    # the pool's **conn_kw must flow to ConnectionCls(**self.conn_kw)
    splat_ok = False
    for cls in (f"{CP}.HTTPConnectionPool", f"{CP}.HTTPSConnectionPool"):
        fi = m.method(cls, "_new_conn")
        for c in astq.calls(fi.node):
            if astq.call_text(c) == "self.ConnectionCls":
                splat_ok = splat_ok or any(k.arg is None and astq.is_self_attr(k.value, pool_kw) for k in c.keywords)
    if not splat_ok:
        raise AnalysisError("ConnectionCls(**self.conn_kw) splat not found; cannot tell which keywords reach connections")

    from . import c18_rows
    norm = m.func(f"{PM}._default_key_normalizer")
    unfiltered = c18_rows.r4_normaliser(ctx, R4, R1)

    A = {("HTTPConnectionPool.__init__", p) for p in pool_p} | {("HTTPSConnectionPool.__init__", p) for p in spool_p} \
        | {("HTTPConnection.__init__", p) for p in conn_p} | {("HTTPSConnection.__init__", p) for p in sconn_p}
    for owner, p in sorted(A):
        in_key = p in K
        inj = p in injected and owner.startswith("HTTP") and "Connection." in owner and "Pool" not in owner
        ok = in_key or inj or unfiltered
        how = "key field" if in_key else ("injected by the pool" if inj else ("rejected by key construction" if unfiltered else "NOT in PoolKey and key construction filters unknown keywords"))
        ctx.ob(R1, f"{owner}", f"keyword {p}", ok, how)
    # every key field is consumed by some constructor (a dead field would hide a renamed keyword)
    allp = pool_p | spool_p | conn_p | sconn_p
    for k in sorted(K):
        ok = k in allp or k in ("scheme", "_socks_options")
        ctx.ob(R1, f"{PM}.PoolKey", f"field key_{k} consumed", ok, "" if ok else "no pool/connection constructor accepts this keyword: the key field is dead, a renamed keyword may be unkeyed")

    # ---------------------------------------------------------------- R2
    cfc = m.func(f"{PM}.PoolManager.connection_from_context")
    cfk = m.func(f"{PM}.PoolManager.connection_from_pool_key")
    cfh = m.func(f"{PM}.PoolManager.connection_from_host")
    newpool = m.func(f"{PM}.PoolManager._new_pool")
    ssl_kw = set(fold.need(PM, "SSL_KEYWORDS"))
    c18_rows.r2_one_context(ctx, R2, ssl_kw)
    c18_rows.r2_pool_key_site(ctx, R2, R6)

    # ---------------------------------------------------------------- R3
    sites = 0
    for fi in m.repo_funcs():
        if fi.module != PM:
            continue
        for n in astq.walk_fn(fi.node):
            # direct mutation through self.connection_pool_kw
            if isinstance(n, ast.Attribute) and n.attr == "connection_pool_kw":
                sites += 1
                p = astq.parent(n)
                bad = None
                if isinstance(n.ctx, ast.Store) and fi.name != "__init__":
                    bad = "re-binds the defaults"
                if isinstance(p, ast.Subscript) and p.value is n and isinstance(p.ctx, (ast.Store, ast.Del)):
                    bad = "item store/delete on the defaults"
                if isinstance(p, ast.Attribute) and p.value is n and p.attr in ("pop", "popitem", "clear", "update", "setdefault", "__setitem__", "__delitem__"):
                    bad = f".{p.attr}() on the defaults"
                # alias:  x = self.connection_pool_kw   (no copy)
                if isinstance(p, (ast.Assign, ast.AnnAssign)) and p.value is n and fi.name != "__init__":
                    tgt = p.targets[0] if isinstance(p, ast.Assign) else p.target
                    if isinstance(tgt, ast.Name):
                        muts = _dict_mutations(fi.node, tgt.id)
                        # uses of the alias: reading it (copying, iterating, looking keys up) is fine; returning it, or handing it
                        # to code that may keep or change it, is not
                        escapes = passed = False
                        for u in astq.walk_fn(fi.node):
                            if not (isinstance(u, ast.Name) and u.id == tgt.id and isinstance(u.ctx, ast.Load)):
                                continue
                            pu = astq.parent(u)
                            if isinstance(pu, ast.Return) and pu.value is u:
                                escapes = True
                            elif isinstance(pu, ast.Call) and (u in pu.args) and astq.call_text(pu) not in ("dict", "copy.copy", "copy.deepcopy", "len", "bool", "sorted", "frozenset", "list", "tuple", "set", "iter"):
                                passed = True
                            elif isinstance(pu, ast.keyword):
                                passed = True
                            elif isinstance(pu, (ast.Assign, ast.AnnAssign)) and pu.value is u:
                                passed = True  # aliased again
                        if muts or escapes or passed:
                            bad = f"aliased as `{tgt.id}` without copy and then mutated / handed on"
                    else:
                        bad = "aliased into a non-local"
                if isinstance(p, ast.BoolOp) or isinstance(p, ast.IfExp):
                    gp = astq.parent(p)
                    if isinstance(gp, ast.Assign) and fi.name != "__init__":
                        bad = "conditionally aliased without copy"
                if isinstance(p, ast.Return):
                    bad = "returned without copy"
                if isinstance(p, ast.Call) and n in p.args and astq.call_text(p) not in ("dict", "copy.copy", "copy.deepcopy", "len", "bool", "sorted", "frozenset"):
                    bad = f"passed uncopied to {astq.call_text(p)}"
                if isinstance(p, ast.keyword) and p.arg is not None:
                    bad = "passed uncopied as keyword"
                ctx.ob(R3, fi.qual, f"use `{astq.text(astq.stmt_of(n))[:90]}`", bad is None, bad or "read / copied", node=n)
    ctx.sites(R3, sites, 2, "uses of connection_pool_kw")
    # PoolManager.__init__ stores the **kw dict itself (fresh per call) - fine; ProxyManager mutates before super().__init__

    # ---------------------------------------------------------------- R4 (the normaliser itself: rows, above)
    # key_fn_by_scheme: both schemes use the normaliser with PoolKey
    for name in ("key_fn_by_scheme",):
        st = m.assigns.get(PM, {}).get(name)
        if not st:
            raise AnalysisError("key_fn_by_scheme not found")
        d = st[-1].value
        ok = isinstance(d, ast.Dict) and len(d.keys) >= 2
        for k, v in zip(d.keys, d.values):
            ok = ok and astq.text(v) == "functools.partial(_default_key_normalizer, PoolKey)"
        ctx.ob(R4, PM, "key_fn_by_scheme maps http/https to the normaliser over PoolKey", ok, astq.text(d))

    # ---------------------------------------------------------------- R5
    plain = pool_p | conn_p
    for k in sorted(ssl_kw):
        ctx.ob(R5, f"{PM}._new_pool", f"SSL keyword {k}", k not in plain, "accepted by a plain-HTTP constructor yet stripped for http" if k in plain else "")
    for k in sorted(ssl_kw):
        ctx.ob(R5, f"{PM}.PoolKey", f"SSL keyword {k} is keyed", k in K)

    # ---------------------------------------------------------------- R7
    c18_rows.r7_proxy_context(ctx, R7)


# ---------------------------------------------------------------------------- R8 (added after seeded change C18/merge-truthiness)
def _run_r8(ctx):
    import ast as _ast
    from ..events import run_function
    from ..interp import AV, UNK, BaseRule, Out, const

    m = ctx.model
    R8 = ctx.rule("C18-R8", "per-request overrides: the merge applies every override whose value is not None (falsy values such as False, 0, [] included) and removes a default only for None", "E5 decision rows on _merge_pool_kwargs")
    fi = m.func(f"{PM}.PoolManager._merge_pool_kwargs")
    from ..rows import GenRule, effect_rows, helper_closure
    from ..terms import T, destruct, subterms

    OV = "p:" + fi.params()[0]
    rows = [r for r in effect_rows(ctx, fi, GenRule(ctx, fi.module, inline=set(helper_closure(m, [fi])) - {fi.qual}, raising={"del": "builtins.KeyError"}), f"{PM}.PoolManager") if r.returns]
    ctx.sites(R8, len(rows), 2, "returning rows of _merge_pool_kwargs")
    seen = set()
    n_dec = 0
    ITEMS = T("items", OV)

    def is_override_value(sym):
        if sym == T("each1", ITEMS):
            return True
        op, a = destruct(sym)
        return op in ("idx", "get") and len(a) >= 2 and a[0] == OV

    for r in rows:
        Vs = sorted({sym for sym in r.st.facts if is_override_value(sym)})
        stores = [(e[2], e[3]) for e in r.ev if e[0] == "setitem"] + [(None, a_.split("=", 1)[1]) for e in r.ev if e[0] == "call" and e[1].endswith(".update") for a_ in e[2:] if isinstance(a_, str) and "=" in a_]
        drops = [e for e in r.ev if e[0] == "delitem" or (e[0] == "call" and e[1].rsplit(".", 1)[-1] in ("pop", "__delitem__"))]
        if not Vs and r.truth(OV) is not False:
            # declarative spelling (comprehensions over override.items()): the decision is a filter condition inside the terms
            texts = [r.ret or ""] + [a_ for e in r.ev for a_ in e[1:] if isinstance(a_, str)]
            conds = []
            for t_ in texts:
                for x_ in subterms(t_):
                    o_, a_ = destruct(x_)
                    if o_ in ("truthy", "cmp:is", "cmp:isnot", "cmp:eq", "cmp:ne") and a_ and any(is_override_value(y_) for y_ in a_):
                        conds.append((o_, a_))
            flows = any(OV in t_ for t_ in texts)
            if flows and (r.ret or "") != OV:
                key = ("decl", tuple(sorted(conds)))
                if key not in seen:
                    seen.add(key)
                    n_dec += 2  # one filter condition stands for both polarities
                    on_truth = [c for c in conds if c[0] == "truthy"]
                    on_none = [c for c in conds if c[0] in ("cmp:is", "cmp:isnot") and "None" in c[1]]
                    if on_truth:
                        ctx.ob(R8, fi.qual, "the merge decides on `value is None`, not on truthiness (declarative form)", False,
                               "an override whose value is not None (e.g. False, 0, [], CERT_NONE) is treated like None: the decision is taken on its truthiness", witness=r.witness(), node=fi.node)
                    elif on_none:
                        ctx.ob(R8, fi.qual, "the merge decides on `value is None` (declarative form: filter over override.items())", True, witness=r.witness(), node=fi.node)
                    else:
                        ctx.ob(R8, fi.qual, f"the overrides flow into the merged context (merge idiom not recognised: {(r.ret or '')[:60]})", True, witness=r.witness(), node=fi.node)
        for V in Vs:
            truth, none = r.st.facts[V]
            stored = any(v_ == V for _, v_ in stores)
            key = (truth, none, stored, bool(drops))
            if key in seen:
                continue
            seen.add(key)
            n_dec += 1
            if none is True:
                ok = not stored
                why = "an override of None must only remove the default"
            elif none is False:
                ok = stored and not drops
                why = "an override whose value is not None is not applied"
            else:
                ok = False
                why = ("an override whose value is not None (e.g. False, 0, [], CERT_NONE) is not applied: the decision is taken on its truthiness - the request is keyed and served as if it had not been given"
                       if truth is not None else "the override value is used without deciding whether it is None")
            ctx.ob(R8, fi.qual, f"row value truthy={truth} is-None={none}: stored={stored} dropped={bool(drops)}", ok, "" if ok else why, witness=r.witness(), node=fi.node)
    ctx.sites(R8, n_dec, 2, "decision rows of the merge on an override value")


_run_base = run


def run(ctx):  # noqa: F811
    _run_base(ctx)
    _run_r8(ctx)
