"""C18 - connections are never shared across differing connection settings."""
from __future__ import annotations

import ast

from .. import astq
from ..model import AnalysisError

PM = "urllib3.poolmanager"
CP = "urllib3.connectionpool"
CN = "urllib3.connection"


def _params(fi):
    return set(fi.params()), (fi.node.args.kwarg.arg if fi.node.args.kwarg else None)


def _dict_mutations(fn_node, name):
    """Statements in fn that mutate the dict bound to local `name`:
    returns list of (kind, key_expr|None, value|None, node)."""
    out = []
    for n in astq.walk_fn(fn_node):
        if isinstance(n, ast.Subscript) and isinstance(n.value, ast.Name) and n.value.id == name and isinstance(n.ctx, (ast.Store, ast.Del)):
            st = astq.stmt_of(n)
            val = st.value if isinstance(st, ast.Assign) else None
            out.append(("store" if isinstance(n.ctx, ast.Store) else "del", n.slice, val, n))
        elif isinstance(n, ast.Call) and isinstance(n.func, ast.Attribute) and isinstance(n.func.value, ast.Name) and n.func.value.id == name:
            if n.func.attr in ("pop", "popitem", "clear", "update", "setdefault", "__setitem__", "__delitem__"):
                out.append((n.func.attr, n.args[0] if n.args else None, None, n))
    return out


def run(ctx):
    m, fold = ctx.model, ctx.fold
    ctx.assume("A4", "A5")
    ctx.decline("value-level equality semantics of individual key fields (e.g. two equal-looking SSLContext objects)")

    R1 = ctx.rule("C18-R1", "every keyword a pool/connection constructor accepts is a PoolKey field, is injected by the pool itself, or is rejected because the key is built by an unfiltered key_class(**context)", "E8 signatures + E6")
    R2 = ctx.rule("C18-R2", "the dict handed to the key function and to _new_pool is one and the same merged context; _new_pool only removes entries", "E6 def-use")
    R3 = ctx.rule("C18-R3", "the manager's default keyword dict is never mutated after construction (per-request overrides work on a copy)", "E6 alias + E8 write-set")
    R4 = ctx.rule("C18-R4", "the key normaliser lower-cases scheme and host, freezes mapping/list fields by value (items()), defaults missing fields to None, and drops nothing", "E6")
    R5 = ctx.rule("C18-R5", "no SSL keyword is accepted by the plain-HTTP pool/connection constructors (so stripping them for http loses nothing)", "E8")
    R6 = ctx.rule("C18-R6", "the pool cache is looked up and filled under the very key computed from the request context", "E6")
    R7 = ctx.rule("C18-R7", "ProxyManager puts proxy, proxy headers and proxy config into the keyed context before the base constructor stores it", "E6")

    # ---------------------------------------------------------------- R1
    pool_init = m.func(f"{CP}.HTTPConnectionPool.__init__")
    spool_init = m.func(f"{CP}.HTTPSConnectionPool.__init__")
    conn_init = m.func(f"{CN}.HTTPConnection.__init__")
    sconn_init = m.func(f"{CN}.HTTPSConnection.__init__")
    pool_p, pool_kw = _params(pool_init)
    spool_p, spool_kw = _params(spool_init)
    conn_p, _ = _params(conn_init)
    sconn_p, _ = _params(sconn_init)
    if not pool_kw or not spool_kw:
        raise AnalysisError("pool constructors no longer take **conn_kw; C18-R1 needs re-anchoring")
    pk = m.cls(f"{PM}.PoolKey")
    fields = [n.target.id for n in pk.node.body if isinstance(n, ast.AnnAssign) and isinstance(n.target, ast.Name)]
    if not fields or not all(f.startswith("key_") for f in fields):
        raise AnalysisError("PoolKey fields not recognised")
    K = {f[4:] for f in fields}
    ctx.sites(R1, len(fields), 10, "PoolKey fields")

    # keys injected by the pool into conn_kw (not caller-settable through the manager)
    injected = set()
    for n in astq.walk_fn(pool_init.node):
        if isinstance(n, ast.Subscript) and isinstance(n.ctx, ast.Store) and astq.is_self_attr(n.value) and n.value.attr == pool_kw and isinstance(n.slice, ast.Constant):
            injected.add(n.slice.value)
    # the pool's **conn_kw must flow to ConnectionCls(**self.conn_kw)
    splat_ok = False
    for cls in (f"{CP}.HTTPConnectionPool", f"{CP}.HTTPSConnectionPool"):
        fi = m.method(cls, "_new_conn")
        for c in astq.calls(fi.node):
            if astq.call_text(c) == "self.ConnectionCls":
                splat_ok = splat_ok or any(k.arg is None and astq.is_self_attr(k.value, pool_kw) for k in c.keywords)
    if not splat_ok:
        raise AnalysisError("ConnectionCls(**self.conn_kw) splat not found; cannot tell which keywords reach connections")

    # the normaliser: unfiltered?
    norm = m.func(f"{PM}._default_key_normalizer")
    nparams = norm.params()
    if len(nparams) != 2:
        raise AnalysisError("_default_key_normalizer signature changed")
    key_class_p, ctx_p = nparams
    ret_calls = [r.value for r in astq.walk_fn(norm.node) if isinstance(r, ast.Return) and r.value is not None]
    ctx_local = None
    unfiltered = True
    why = []
    for rv in ret_calls:
        if not (isinstance(rv, ast.Call) and isinstance(rv.func, ast.Name) and rv.func.id == key_class_p and not rv.args
                and len(rv.keywords) == 1 and rv.keywords[0].arg is None and isinstance(rv.keywords[0].value, ast.Name)):
            unfiltered = False
            why.append(f"return is not {key_class_p}(**context): {astq.text(rv)}")
        else:
            ctx_local = rv.keywords[0].value.id
    if not ret_calls:
        raise AnalysisError("normaliser has no return")
    dropped = []
    if ctx_local:
        # context must be a copy of the request context
        srcs = astq.assigned_values(norm.node, ctx_local)
        if not any(isinstance(s, ast.Call) and astq.call_text(s) in (f"{ctx_p}.copy", "dict") for s in srcs):
            unfiltered = False
            why.append(f"{ctx_local} is not a copy of the request context")
        if any(not (isinstance(s, ast.Call) and astq.call_text(s) in (f"{ctx_p}.copy", "dict")) for s in srcs):
            unfiltered = False
            why.append(f"{ctx_local} is rebuilt (possibly filtered) after the copy")
        for kind, key, val, node in _dict_mutations(norm.node, ctx_local):
            if kind in ("del", "popitem", "clear"):
                dropped.append(astq.text(astq.stmt_of(node)))
            elif kind == "pop":
                # allowed only as the rename idiom  context["key_" + k] = context.pop(k)
                st = astq.stmt_of(node)
                ok = (isinstance(st, ast.Assign) and st.value is node and isinstance(st.targets[0], ast.Subscript)
                      and isinstance(st.targets[0].slice, ast.BinOp) and isinstance(st.targets[0].slice.left, ast.Constant)
                      and st.targets[0].slice.left.value == "key_" and astq.text(st.targets[0].slice.right) == astq.text(key))
                if not ok:
                    dropped.append(astq.text(st))
    if dropped:
        unfiltered = False
        why.append("drops entries: " + "; ".join(dropped))
    ctx.ob(R1, norm.qual, "key_class(**context) unfiltered", unfiltered, "; ".join(why), node=norm.node)

    A = {("HTTPConnectionPool.__init__", p) for p in pool_p} | {("HTTPSConnectionPool.__init__", p) for p in spool_p} \
        | {("HTTPConnection.__init__", p) for p in conn_p} | {("HTTPSConnection.__init__", p) for p in sconn_p}
    for owner, p in sorted(A):
        in_key = p in K
        inj = p in injected and owner.startswith("HTTP") and "Connection." in owner and "Pool" not in owner
        ok = in_key or inj or unfiltered
        how = "key field" if in_key else ("injected by the pool" if inj else ("rejected by key construction" if unfiltered else "NOT in PoolKey and key construction filters unknown keywords"))
        ctx.ob(R1, f"{owner}", f"keyword {p}", ok, how)
    # every key field is consumed by some constructor (a dead field would hide a renamed keyword)
    allp = pool_p | spool_p | conn_p | sconn_p
    for k in sorted(K):
        ok = k in allp or k in ("scheme", "_socks_options")
        ctx.ob(R1, f"{PM}.PoolKey", f"field key_{k} consumed", ok, "" if ok else "no pool/connection constructor accepts this keyword: the key field is dead, a renamed keyword may be unkeyed")

    # ---------------------------------------------------------------- R2
    cfc = m.func(f"{PM}.PoolManager.connection_from_context")
    cfk = m.func(f"{PM}.PoolManager.connection_from_pool_key")
    cfh = m.func(f"{PM}.PoolManager.connection_from_host")
    newpool = m.func(f"{PM}.PoolManager._new_pool")
    # connection_from_context: key constructor gets X, connection_from_pool_key gets request_context=X
    rc = cfc.params()[0]
    key_arg = pool_arg = None
    key_var = None
    for c in astq.calls(cfc.node):
        t = astq.call_text(c)
        if t == "self.connection_from_pool_key":
            pool_arg = astq.arg(c, 1, "request_context")
            kx = astq.arg(c, 0, "pool_key")
            key_var = kx.id if isinstance(kx, ast.Name) else None
    if key_var:
        for v in astq.assigned_values(cfc.node, key_var):
            if isinstance(v, ast.Call) and v.args:
                key_arg = v.args[0]
                keyfn = v.func
    if key_arg is None or pool_arg is None:
        raise AnalysisError("connection_from_context: key-function call or connection_from_pool_key call not recognised")
    same = astq.text(key_arg) == astq.text(pool_arg) == rc
    rebinds = [v for v in astq.assigned_values(cfc.node, rc)]
    ctx.ob(R2, cfc.qual, "key function and pool creation receive the same context object",
           same and not rebinds, f"key gets {astq.text(key_arg)}, pool gets {astq.text(pool_arg)}, rebinds={len(rebinds)}", node=cfc.node)
    # key fn derives from self.key_fn_by_scheme[scheme of this context]
    srcs = astq.sources_of(cfc.node, keyfn)
    ok = any("self.key_fn_by_scheme" in astq.text(s) for s in srcs) and len(srcs) == 1
    ctx.ob(R2, cfc.qual, "key function is looked up in key_fn_by_scheme", ok, "; ".join(astq.text(s) for s in srcs))
    # mutations of the context between key and pool: none allowed after the key is computed except 'strict' pop before
    muts = _dict_mutations(cfc.node, rc)
    bad = [astq.text(astq.stmt_of(n)) for kind, key, val, n in muts
           if not (kind == "pop" and isinstance(key, ast.Constant) and key.value == "strict")]
    ctx.ob(R2, cfc.qual, "context not altered between keying and pool creation", not bad, "; ".join(bad))

    # connection_from_pool_key: _new_pool(request_context=<param>) and scheme/host/port read from the same param
    rc2 = cfk.params()[1] if len(cfk.params()) > 1 else None
    np_calls = [c for c in astq.calls(cfk.node) if astq.call_text(c) == "self._new_pool"]
    ctx.sites(R2, len(np_calls), 1, "_new_pool call in connection_from_pool_key")
    for c in np_calls:
        a = astq.arg(c, 3, "request_context")
        ok = a is not None and astq.text(a) == rc2 and not astq.assigned_values(cfk.node, rc2)
        ctx.ob(R2, cfk.qual, "_new_pool receives the keyed context", ok, astq.text(c), node=c)
        for i, nm in enumerate(("scheme", "host", "port")):
            av = astq.arg(c, i, nm)
            srcs = astq.sources_of(cfk.node, av) if av is not None else []
            ok2 = bool(srcs) and all(isinstance(s, ast.Subscript) and astq.text(s.value) == rc2 and isinstance(s.slice, ast.Constant) and s.slice.value == nm for s in srcs)
            ctx.ob(R2, cfk.qual, f"_new_pool {nm} comes from the keyed context", ok2, "; ".join(astq.text(s) for s in srcs), node=c)

    # _new_pool: pool_cls(host, port, **request_context); only removals; fallback copy of defaults
    np_rc = "request_context"
    if np_rc not in newpool.params():
        raise AnalysisError("_new_pool has no request_context parameter")
    rets = [r.value for r in astq.walk_fn(newpool.node) if isinstance(r, ast.Return) and r.value is not None]
    ok = bool(rets)
    for rv in rets:
        if not (isinstance(rv, ast.Call) and any(k.arg is None and astq.text(k.value) == np_rc for k in rv.keywords)):
            ok = False
        else:
            srcs = astq.sources_of(newpool.node, rv.func)
            if not all("self.pool_classes_by_scheme" in astq.text(s) for s in srcs):
                ok = False
            extra_kw = [k.arg for k in rv.keywords if k.arg is not None]
            if extra_kw:
                ok = False
    ctx.ob(R2, newpool.qual, "pool is constructed from **request_context only", ok, "; ".join(astq.text(r) for r in rets), node=newpool.node)
    for v in astq.assigned_values(newpool.node, np_rc):
        ok = isinstance(v, ast.Call) and astq.call_text(v) == "self.connection_pool_kw.copy"
        ctx.ob(R2, newpool.qual, f"request_context rebinding `{astq.text(v)}`", ok, "only the default-copy fallback may rebind the context")
    ssl_kw = set(fold.need(PM, "SSL_KEYWORDS"))
    for kind, key, val, n in _dict_mutations(newpool.node, np_rc):
        st = astq.stmt_of(n)
        if kind == "pop":
            ok = True  # removals never add settings from elsewhere
            detail = "removal"
        elif kind == "store":
            # only the blocksize default may be written, and only under a None test
            ok = isinstance(key, ast.Constant) and key.value == "blocksize" and not astq.names_in(val) - {"_DEFAULT_BLOCKSIZE"}
            detail = "default for a missing entry" if ok else "adds/overrides a setting that was not keyed"
        else:
            ok, detail = False, f"{kind} on the keyed context"
        ctx.ob(R2, newpool.qual, f"mutation `{astq.text(st)[:80]}`", ok, detail, node=st)
    # SSL keywords are only stripped for plain http
    for n in astq.walk_fn(newpool.node):
        if isinstance(n, ast.For) and "SSL_KEYWORDS" in astq.text(n.iter):
            g = astq.enclosing(n, ast.If)
            ok = g is not None and astq.text(g.test) in ('scheme == "http"', "scheme == 'http'")
            ctx.ob(R2, newpool.qual, "SSL keywords stripped only for scheme http", ok, astq.text(g.test) if g is not None else "unguarded", node=n)

    # connection_from_host: context = merge(pool_kwargs) + scheme/host/port of this call
    rcn = (astq.assigned_from(cfh.node, lambda v: isinstance(v, ast.Call) and astq.call_text(v) == "self._merge_pool_kwargs") or ["request_context"])[0]
    rcvs = [v for v in astq.assigned_values(cfh.node, rcn)]
    ok = len(rcvs) == 1 and isinstance(rcvs[0], ast.Call) and astq.call_text(rcvs[0]) == "self._merge_pool_kwargs"
    ctx.ob(R2, cfh.qual, "request context starts from the merged defaults", ok, "; ".join(astq.text(v) for v in rcvs))
    stores = {}
    for kind, key, val, n in _dict_mutations(cfh.node, rcn):
        if kind == "store" and isinstance(key, ast.Constant):
            stores[key.value] = val
        else:
            ctx.ob(R2, cfh.qual, f"mutation `{astq.text(astq.stmt_of(n))[:80]}`", False, "unexpected mutation of the request context")
    for nm in ("scheme", "host", "port"):
        v = stores.get(nm)
        srcs = astq.sources_of(cfh.node, v) if v is not None else []
        names = set()
        for s in srcs:
            names |= {x.replace("<param:", "").rstrip(">") for x in astq.names_in(s)}
        ok = v is not None and nm in names
        ctx.ob(R2, cfh.qual, f"context[{nm!r}] derives from the {nm} argument", ok, "; ".join(astq.text(s) for s in srcs))
    rets = [r.value for r in astq.walk_fn(cfh.node) if isinstance(r, ast.Return) and r.value is not None]
    ok = all(isinstance(r, ast.Call) and astq.call_text(r) == "self.connection_from_context" and astq.text(r.args[0]) == rcn for r in rets) and rets
    ctx.ob(R2, cfh.qual, "the merged context is the one that is keyed", bool(ok), "; ".join(astq.text(r) for r in rets))

    # ---------------------------------------------------------------- R3
    sites = 0
    for fi in m.repo_funcs():
        if fi.module != PM:
            continue
        for n in astq.walk_fn(fi.node):
            # direct mutation through self.connection_pool_kw
            if isinstance(n, ast.Attribute) and n.attr == "connection_pool_kw":
                sites += 1
                p = astq.parent(n)
                bad = None
                if isinstance(n.ctx, ast.Store) and fi.name != "__init__":
                    bad = "re-binds the defaults"
                if isinstance(p, ast.Subscript) and p.value is n and isinstance(p.ctx, (ast.Store, ast.Del)):
                    bad = "item store/delete on the defaults"
                if isinstance(p, ast.Attribute) and p.value is n and p.attr in ("pop", "popitem", "clear", "update", "setdefault", "__setitem__", "__delitem__"):
                    bad = f".{p.attr}() on the defaults"
                # alias:  x = self.connection_pool_kw   (no copy)
                if isinstance(p, (ast.Assign, ast.AnnAssign)) and p.value is n and fi.name != "__init__":
                    tgt = p.targets[0] if isinstance(p, ast.Assign) else p.target
                    if isinstance(tgt, ast.Name):
                        muts = _dict_mutations(fi.node, tgt.id)
                        escapes = any(isinstance(r, ast.Return) and r.value is not None and tgt.id in astq.names_in(r.value) for r in astq.walk_fn(fi.node))
                        passed = any(tgt.id in astq.names_in(c) for c in astq.calls(fi.node) if c is not p.value)
                        if muts or escapes or passed:
                            bad = f"aliased as `{tgt.id}` without copy and then mutated / handed on"
                    else:
                        bad = "aliased into a non-local"
                if isinstance(p, ast.BoolOp) or isinstance(p, ast.IfExp):
                    gp = astq.parent(p)
                    if isinstance(gp, ast.Assign) and fi.name != "__init__":
                        bad = "conditionally aliased without copy"
                if isinstance(p, ast.Return):
                    bad = "returned without copy"
                if isinstance(p, ast.Call) and n in p.args:
                    bad = f"passed uncopied to {astq.call_text(p)}"
                if isinstance(p, ast.keyword) and p.arg is not None:
                    bad = "passed uncopied as keyword"
                ctx.ob(R3, fi.qual, f"use `{astq.text(astq.stmt_of(n))[:90]}`", bad is None, bad or "read / copied", node=n)
    ctx.sites(R3, sites, 2, "uses of connection_pool_kw")
    # PoolManager.__init__ stores the **kw dict itself (fresh per call) - fine; ProxyManager mutates before super().__init__

    # ---------------------------------------------------------------- R4
    cl = ctx_local or "context"
    lowered = {}
    frozen_items = {}
    tupled = False
    for n in astq.walk_fn(norm.node):
        if isinstance(n, ast.Assign) and isinstance(n.targets[0], ast.Subscript) and astq.text(n.targets[0].value) == cl:
            key = n.targets[0].slice
            v = n.value
            if isinstance(key, ast.Constant) and isinstance(v, ast.Call) and isinstance(v.func, ast.Attribute) and v.func.attr == "lower" \
                    and astq.text(v.func.value) == f"{cl}[{key.value!r}]":
                lowered[key.value] = True
            if isinstance(v, ast.Call) and astq.call_text(v) == "frozenset" and v.args:
                inner = v.args[0]
                loop = astq.enclosing(n, ast.For)
                by_items = isinstance(inner, ast.Call) and isinstance(inner.func, ast.Attribute) and inner.func.attr == "items"
                if loop is not None:
                    try:
                        keys = fold.ev(loop.iter, PM)
                    except Exception:
                        keys = ()
                    for k in keys:
                        frozen_items[k] = by_items
                elif isinstance(key, ast.Constant):
                    frozen_items[key.value] = by_items
            if isinstance(key, ast.Constant) and key.value == "socket_options" and isinstance(v, ast.Call) and astq.call_text(v) == "tuple":
                tupled = True
    for nm in ("scheme", "host"):
        ctx.ob(R4, norm.qual, f"{nm} lower-cased", lowered.get(nm, False), "" if lowered.get(nm) else f"no `{cl}[{nm!r}] = {cl}[{nm!r}].lower()`")
    for nm in ("headers", "_proxy_headers", "_socks_options"):
        ctx.ob(R4, norm.qual, f"{nm} frozen by value (items())", frozen_items.get(nm, False),
               "" if frozen_items.get(nm) else "mapping field is not frozen as frozenset(mapping.items()): values would not take part in the key")
    ctx.ob(R4, norm.qual, "socket_options frozen as tuple", tupled)
    # default None for missing fields
    dflt = False
    for n in astq.walk_fn(norm.node):
        if isinstance(n, ast.For) and "_fields" in astq.text(n.iter):
            for s in ast.walk(n):
                if isinstance(s, ast.Assign) and isinstance(s.value, ast.Constant) and s.value.value is None and astq.text(s.targets[0]).startswith(f"{cl}["):
                    g = astq.enclosing(s, ast.If)
                    if g is not None and isinstance(g.test, ast.Compare) and isinstance(g.test.ops[0], ast.NotIn):
                        dflt = True
    ctx.ob(R4, norm.qual, "missing fields default to None (only when absent)", dflt)
    # key_fn_by_scheme: both schemes use the normaliser with PoolKey
    for name in ("key_fn_by_scheme",):
        st = m.assigns.get(PM, {}).get(name)
        if not st:
            raise AnalysisError("key_fn_by_scheme not found")
        d = st[-1].value
        ok = isinstance(d, ast.Dict) and len(d.keys) >= 2
        for k, v in zip(d.keys, d.values):
            ok = ok and astq.text(v) == "functools.partial(_default_key_normalizer, PoolKey)"
        ctx.ob(R4, PM, "key_fn_by_scheme maps http/https to the normaliser over PoolKey", ok, astq.text(d))

    # ---------------------------------------------------------------- R5
    plain = pool_p | conn_p
    for k in sorted(ssl_kw):
        ctx.ob(R5, f"{PM}._new_pool", f"SSL keyword {k}", k not in plain, "accepted by a plain-HTTP constructor yet stripped for http" if k in plain else "")
    for k in sorted(ssl_kw):
        ctx.ob(R5, f"{PM}.PoolKey", f"SSL keyword {k} is keyed", k in K)

    # ---------------------------------------------------------------- R6
    pk_param = cfk.params()[0]
    gets = [c for c in astq.calls(cfk.node) if astq.call_text(c) == "self.pools.get"]
    sets = [n for n in astq.walk_fn(cfk.node) if isinstance(n, ast.Subscript) and isinstance(n.ctx, ast.Store) and astq.text(n.value) == "self.pools"]
    ctx.sites(R6, len(gets) + len(sets), 2, "cache accesses")
    for c in gets:
        ctx.ob(R6, cfk.qual, "lookup uses the computed key", bool(c.args) and astq.text(c.args[0]) == pk_param, astq.text(c), node=c)
    for n in sets:
        st = astq.stmt_of(n)
        okk = astq.text(n.slice) == pk_param
        srcs = astq.sources_of(cfk.node, st.value)
        # flow-insensitive: the earlier `pool = self.pools.get(pool_key)` (same key) is harmless
        okv = all(isinstance(s, ast.Call) and (astq.call_text(s) == "self._new_pool"
                  or (astq.call_text(s) == "self.pools.get" and s.args and astq.text(s.args[0]) == pk_param)) for s in srcs) \
            and any(isinstance(s, ast.Call) and astq.call_text(s) == "self._new_pool" for s in srcs)
        ctx.ob(R6, cfk.qual, "insertion uses the computed key and the pool just created", okk and bool(okv), astq.text(st), node=st)
    ok = not astq.assigned_values(cfk.node, pk_param)
    ctx.ob(R6, cfk.qual, "key not re-bound", ok)

    # ---------------------------------------------------------------- R7
    pxi = m.func(f"{PM}.ProxyManager.__init__")
    kwname = pxi.node.args.kwarg.arg if pxi.node.args.kwarg else None
    if not kwname:
        raise AnalysisError("ProxyManager.__init__ has no **kw")
    stores = {}
    for kind, key, val, n in _dict_mutations(pxi.node, kwname):
        if kind == "store" and isinstance(key, ast.Constant):
            stores[key.value] = (val, n)
    sup = [c for c in astq.calls(pxi.node) if astq.call_text(c) == "super().__init__"]
    ctx.sites(R7, len(sup), 1, "super().__init__ call")
    for nm, attr in (("_proxy", "proxy"), ("_proxy_headers", "proxy_headers"), ("_proxy_config", "proxy_config")):
        v = stores.get(nm)
        ok = v is not None and astq.text(v[0]) == f"self.{attr}" and v[1].lineno < sup[0].lineno
        ctx.ob(R7, pxi.qual, f"context[{nm!r}] = self.{attr} before super().__init__", ok, astq.text(v[0]) if v else "missing")
    ok = any(k.arg is None and astq.text(k.value) == kwname for k in sup[0].keywords)
    ctx.ob(R7, pxi.qual, "the augmented dict is what the base constructor stores", ok, astq.text(sup[0]))
    # ProxyConfig carries all four proxy TLS options
    pc_calls = [c for c in astq.calls(pxi.node) if astq.call_text(c) == "ProxyConfig"]
    ctx.sites(R7, len(pc_calls), 1, "ProxyConfig construction")
    want = {"proxy_ssl_context", "use_forwarding_for_https", "proxy_assert_hostname", "proxy_assert_fingerprint"}
    got = set()
    for c in pc_calls:
        for a in list(c.args) + [k.value for k in c.keywords]:
            got |= astq.names_in(a)
    ctx.ob(R7, pxi.qual, "ProxyConfig built from all four proxy TLS options", want <= got, f"missing {sorted(want - got)}")


# ---------------------------------------------------------------------------- R8 (added after seeded change C18/merge-truthiness)
def _run_r8(ctx):
    import ast as _ast
    from ..events import run_function
    from ..interp import AV, UNK, BaseRule, Out, const

    m = ctx.model
    R8 = ctx.rule("C18-R8", "per-request overrides: the merge applies every override whose value is not None (falsy values such as False, 0, [] included) and removes a default only for None", "E5 decision rows on _merge_pool_kwargs")
    fi = m.func(f"{PM}.PoolManager._merge_pool_kwargs")
    ov = fi.params()[0]
    merged = None
    for r in astq.walk_fn(fi.node):
        if isinstance(r, _ast.Return) and isinstance(r.value, _ast.Name):
            merged = r.value.id
    if merged is None:
        raise AnalysisError("_merge_pool_kwargs does not return a local dict")

    class MergeRule(BaseRule):
        def __init__(self):
            self.rows = []
            self.iters = 0

        def _close_iter(self, st):
            if st.ts.get("iter_open"):
                self.rows.append((st.facts.get("v", (None, None)), st.ts.get("acts", ()), st))

        def for_iter(self, it, st, stmt, itv):
            self._close_iter(st)
            if st.ts.get("iters", 0) >= 1:
                e = st.copy()
                e.ts["iter_open"] = False
                return [(e, False)]
            self.iters += 1
            s = st.copy()
            s.ts["iters"] = s.ts.get("iters", 0) + 1
            s.ts["iter_open"] = True
            s.ts["acts"] = ()
            s.facts.pop("v", None)
            it.assign(s, stmt.target, AV("tuple", (AV("unk", sym="k"), AV("unk", sym="v")), truth=True, none=False))
            e = st.copy()
            e.ts["iter_open"] = False
            return [(s, True), (e, False)]

        def setitem(self, it, st, target, av):
            if isinstance(target.value, _ast.Name) and target.value.id == merged:
                st.ts["acts"] = st.ts.get("acts", ()) + (("store", av.sym),)

        def delete(self, it, st, stmt):
            for t in stmt.targets:
                if isinstance(t, _ast.Subscript) and isinstance(t.value, _ast.Name) and t.value.id == merged:
                    st.ts["acts"] = st.ts.get("acts", ()) + (("drop", None),)
            return [Out("normal", st), Out("raise", st.copy(), __import__("sa.interp", fromlist=["exc"]).exc("builtins.KeyError"))]

        def call(self, it, st, node, recv, pos, kw):
            t = _ast.unparse(node.func)
            if t in (f"{merged}.pop", f"{merged}.__delitem__"):
                s = st.copy()
                s.ts["acts"] = s.ts.get("acts", ()) + (("drop", None),)
                return [Out("normal", s, UNK)]
            if t in (f"{merged}.update", f"{merged}.setdefault", f"{merged}.__setitem__"):
                s = st.copy()
                s.ts["acts"] = s.ts.get("acts", ()) + ((t.rsplit(".", 1)[1], None),)
                return [Out("normal", s, UNK)]
            if t.endswith(".items") or t.endswith(".copy"):
                return [Out("normal", st, AV("unk", none=False))]
            return None

    rule = MergeRule()
    outs, it = run_function(m, fi, rule, f"{PM}.PoolManager", record_decisions=True)
    for o in outs:
        rule._close_iter(o.st)
    ctx.sites(R8, rule.iters, 1, "loop over the overrides")
    seen = set()
    for (truth, none), acts, st in rule.rows:
        kinds = tuple(a for a, _ in acts)
        key = (truth, none, kinds)
        if key in seen:
            continue
        seen.add(key)
        stored = ("store", "v") in acts
        if none is True:
            ok = kinds == ("drop",) or kinds == ()
            why = "an override of None must only remove the default"
        else:
            ok = stored and "drop" not in kinds
            why = "an override whose value is not None (e.g. False, 0, [], CERT_NONE) is not applied: the request is keyed and served as if it had not been given"
        ctx.ob(R8, fi.qual, f"row value truthy={truth} is-None={none}: actions {kinds}", ok, "" if ok else why, witness=st.witness(), node=fi.node)
    ctx.sites(R8, len(seen), 2, "decision rows of the merge loop")


_run_base = run


def run(ctx):  # noqa: F811
    _run_base(ctx)
    _run_r8(ctx)
